/-
  C18 — helper definitions and lemmas for Props/C18.lean.

  Part 1: the base spaces.  `score3`/`score2` on a base-only vector are first
  rewritten (symbolically, for arbitrary bytes) into staged functions
  (impact, exploitability, finish), the published equations and the OSV scorer
  likewise; the exhaustive comparisons are then kernel evaluations over the
  complete finite spaces (`decide +kernel`), with the expensive impact terms
  computed once per (S, C, I, A) and handed on as literals.
-/
import ClairModel.Model.CvssSpec

namespace ClairModel.Cvss
open ClairModel.Gen.Cvss ClairModel.CvssSpec

/-! ### forcing evaluation in the kernel

  Kernel reduction is call-by-name: a term bound to a variable that is used
  several times may be re-evaluated at every use.  `forceNat x f` is `f x`,
  but the match makes the kernel evaluate `x` once and hand a literal on. -/

def forceNat {α : Type} (x : Nat) (f : Nat → α) : α :=
  match x with
  | 0 => f 0
  | n + 1 => f (n + 1)

def forceInt {α : Type} (x : Int) (f : Int → α) : α :=
  match x with
  | .ofNat n => forceNat n fun n => f (.ofNat n)
  | .negSucc n => forceNat n fun n => f (.negSucc n)

def forceQ {α : Type} (q : Q) (f : Q → α) : α :=
  forceInt q.n fun n => forceNat q.d fun d => f ⟨n, d⟩

theorem forceNat_eq {α : Type} (x : Nat) (f : Nat → α) : forceNat x f = f x := by
  cases x <;> rfl
theorem forceInt_eq {α : Type} (x : Int) (f : Int → α) : forceInt x f = f x := by
  cases x <;> simp [forceInt, forceNat_eq]
theorem forceQ_eq {α : Type} (q : Q) (f : Q → α) : forceQ q f = f q := by
  simp [forceQ, forceInt_eq, forceNat_eq]

/-! ### base-only vectors -/

/-- the v3 vector holding exactly the eight base metrics -/
def mk3 (minor av ac pr ui s c i a : Nat) : Vec :=
  ⟨minor, [av, ac, pr, ui, s, c, i, a, 0, 0, 0, 0, 0, 0, 0, 0, 0, 0, 0, 0, 0, 0]⟩

/-- the v2 vector holding exactly the six base metrics -/
def mk2 (av ac au c i a : Nat) : Vec := ⟨0, [av, ac, au, c, i, a, 0, 0, 0, 0, 0, 0, 0, 0]⟩

/-- the values the v3 grammar allows for metric `m` -/
def g3 (m : Nat) : List Nat := v3GrammarValues.getD m []

def sb (b : Nat) : Nat := if b = 0 then cX else b

def lk3 (m b : Nat) : Option Q :=
  match indexByte b (v3Valid.getD m []) with
  | none => none
  | some idx => weightAt v3Weights m idx

/-- impact of `V3.Score` on a base-only vector, weights through `L` -/
def impactW (L : Nat → Nat → Option Q) (minor s c i a : Nat) : Option Q :=
  match L 5 (sb c), L 6 (sb i), L 7 (sb a) with
  | some c, some i, some a => v3Impact minor false (sb s) (one - ((one - c) * (one - i) * (one - a)))
  | _, _, _ => none

/-- exploitability of `V3.Score` on a base-only vector -/
def explW (L : Nat → Nat → Option Q) (s av ac pr ui : Nat) : Option Q :=
  match L 0 (sb av), L 1 (sb ac),
        (if sb s = cC ∧ sb pr = cL then some (Q.dec 68 100)
         else if sb s = cC ∧ sb pr = cH then some (Q.dec 50 100) else L 2 (sb pr)),
        L 3 (sb ui) with
  | some av, some ac, some pr, some ui => some (av * ac * pr * ui * Q.dec 822 100)
  | _, _, _, _ => none

/-- the two Roundup steps, temporal weights (all Not Defined) through `L` -/
def finW (L : Nat → Nat → Option Q) (minor s : Nat) (impact expl : Q) : Option Int :=
  match L 8 cX, L 9 cX, L 10 cX with
  | some e, some rl, some rc => some (v3Finish minor (sb s) impact expl e rl rc)
  | _, _, _ => none

/-- `score3` on a base-only vector, staged -/
def fastW3 (L : Nat → Nat → Option Q) (minor av ac pr ui s c i a : Nat) : Option Int :=
  if minor ≠ 0 ∧ minor ≠ 1 then none else
  match impactW L minor s c i a, explW L s av ac pr ui with
  | some impact, some expl => finW L minor s impact expl
  | _, _ => none

theorem env_mk3 (minor av ac pr ui s c i a : Nat) :
    v3Environmental (mk3 minor av ac pr ui s c i a) = false := rfl

theorem temporal_mk3 (minor av ac pr ui s c i a : Nat) :
    v3Temporal (mk3 minor av ac pr ui s c i a) = false := rfl

theorem sb_mk3 (minor av ac pr ui s c i a : Nat) :
    v3ScoreByte (mk3 minor av ac pr ui s c i a) 0 = sb av ∧
    v3ScoreByte (mk3 minor av ac pr ui s c i a) 1 = sb ac ∧
    v3ScoreByte (mk3 minor av ac pr ui s c i a) 2 = sb pr ∧
    v3ScoreByte (mk3 minor av ac pr ui s c i a) 3 = sb ui ∧
    v3ScoreByte (mk3 minor av ac pr ui s c i a) 4 = sb s ∧
    v3ScoreByte (mk3 minor av ac pr ui s c i a) 5 = sb c ∧
    v3ScoreByte (mk3 minor av ac pr ui s c i a) 6 = sb i ∧
    v3ScoreByte (mk3 minor av ac pr ui s c i a) 7 = sb a ∧
    v3ScoreByte (mk3 minor av ac pr ui s c i a) 8 = cX ∧
    v3ScoreByte (mk3 minor av ac pr ui s c i a) 9 = cX ∧
    v3ScoreByte (mk3 minor av ac pr ui s c i a) 10 = cX :=
  ⟨rfl, rfl, rfl, rfl, rfl, rfl, rfl, rfl, rfl, rfl, rfl⟩

theorem v3Val_eq (v : Vec) (m : Nat) : v3Val v m = lk3 m (v3ScoreByte v m) := rfl

/-- `V3.Score` of a base-only vector, for arbitrary bytes -/
theorem score3_mk3 (minor av ac pr ui s c i a : Nat) :
    score3 (mk3 minor av ac pr ui s c i a) = fastW3 lk3 minor av ac pr ui s c i a := by
  obtain ⟨h0, h1, h2, h3, h4, h5, h6, h7, h8, h9, h10⟩ := sb_mk3 minor av ac pr ui s c i a
  have hv : (mk3 minor av ac pr ui s c i a).ver = minor := rfl
  simp only [score3, fastW3, impactW, explW, finW, env_mk3, v3Scope, v3Iss, v3Exploitability, v3PrVal,
    v3Val_eq, h0, h1, h2, h3, h4, h5, h6, h7, h8, h9, h10, hv]
  simp only [Bool.false_eq_true, ↓reduceIte]
  generalize lk3 5 (sb c) = oc
  generalize lk3 6 (sb i) = oi
  generalize lk3 7 (sb a) = oa
  generalize lk3 0 (sb av) = oav
  generalize lk3 1 (sb ac) = oac
  generalize (if sb s = cC ∧ sb pr = cL then some (Q.dec 68 100)
              else if sb s = cC ∧ sb pr = cH then some (Q.dec 50 100) else lk3 2 (sb pr)) = opr
  generalize lk3 3 (sb ui) = oui
  generalize lk3 8 cX = oe
  generalize lk3 9 cX = orl
  generalize lk3 10 cX = orc
  split
  · rfl
  · cases oc <;> cases oi <;> cases oa <;> try rfl
    simp only []
    generalize v3Impact minor false (sb s) _ = oimp
    cases oimp <;> cases oav <;> cases oac <;> cases opr <;> cases oui <;> cases oe <;> cases orl <;>
      cases orc <;> rfl

/-- all eight base metrics over the whole base space; the impact metrics are
    outermost, `F` is evaluated once per (S, C, I, A) and its result handed to
    the inner loops as a literal -/
def sweep3 (F : (s c i a : Nat) → Option (Q × Q × Q))
    (G : Q → Q → Q → (av ac pr ui s c i a : Nat) → Bool) : Bool :=
  (g3 4).all fun s => (g3 5).all fun c => (g3 6).all fun i => (g3 7).all fun a =>
    match F s c i a with
    | none => false
    | some (x, y, z) => forceQ x fun x => forceQ y fun y => forceQ z fun z =>
      (g3 0).all fun av => (g3 1).all fun ac => (g3 2).all fun pr => (g3 3).all fun ui =>
        G x y z av ac pr ui s c i a

theorem sweep3_spec {F : (s c i a : Nat) → Option (Q × Q × Q)}
    {G : Q → Q → Q → (av ac pr ui s c i a : Nat) → Bool} (h : sweep3 F G = true)
    {av ac pr ui s c i a : Nat} (hav : av ∈ g3 0) (hac : ac ∈ g3 1) (hpr : pr ∈ g3 2) (hui : ui ∈ g3 3)
    (hs : s ∈ g3 4) (hc : c ∈ g3 5) (hi : i ∈ g3 6) (ha : a ∈ g3 7) :
    ∃ x y z, F s c i a = some (x, y, z) ∧ G x y z av ac pr ui s c i a = true := by
  simp only [sweep3, List.all_eq_true] at h
  have h1 := h s hs c hc i hi a ha
  cases hF : F s c i a with
  | none => simp [hF] at h1
  | some t =>
    obtain ⟨x, y, z⟩ := t
    simp only [hF, forceQ_eq, List.all_eq_true] at h1
    exact ⟨x, y, z, rfl, h1 av hav ac hac pr hpr ui hui⟩

/-! ### tables -/

/-- the library's weight tables agree with the specification's on every
    grammatical value of the base and temporal metrics (incl. X) -/
theorem lk3_eq_w3 : ∀ m < 11, ∀ b ∈ g3 m, lk3 m b = w3 m b := by decide +kernel

theorem g3_ne_zero : ∀ m < 22, ∀ b ∈ g3 m, b ≠ 0 := by decide +kernel

theorem sb_of_mem {m b : Nat} (hm : m < 22) (hb : b ∈ g3 m) : sb b = b := by
  simp [sb, g3_ne_zero m hm b hb]

/-- on grammatical bytes the library lookups may be replaced by the
    specification table -/
theorem fastW3_lk3_eq_w3 (minor : Nat) {av ac pr ui s c i a : Nat}
    (hav : av ∈ g3 0) (hac : ac ∈ g3 1) (hpr : pr ∈ g3 2) (hui : ui ∈ g3 3)
    (hs : s ∈ g3 4) (hc : c ∈ g3 5) (hi : i ∈ g3 6) (ha : a ∈ g3 7) :
    fastW3 lk3 minor av ac pr ui s c i a = fastW3 w3 minor av ac pr ui s c i a := by
  have e8 : lk3 8 cX = w3 8 cX := lk3_eq_w3 8 (by decide) cX (by decide)
  have e9 : lk3 9 cX = w3 9 cX := lk3_eq_w3 9 (by decide) cX (by decide)
  have e10 : lk3 10 cX = w3 10 cX := lk3_eq_w3 10 (by decide) cX (by decide)
  simp only [fastW3, impactW, explW, finW, sb_of_mem (by decide) hav, sb_of_mem (by decide) hac,
    sb_of_mem (by decide) hpr, sb_of_mem (by decide) hui, sb_of_mem (by decide) hs, sb_of_mem (by decide) hc,
    sb_of_mem (by decide) hi, sb_of_mem (by decide) ha,
    lk3_eq_w3 0 (by decide) av hav, lk3_eq_w3 1 (by decide) ac hac, lk3_eq_w3 2 (by decide) pr hpr,
    lk3_eq_w3 3 (by decide) ui hui, lk3_eq_w3 5 (by decide) c hc, lk3_eq_w3 6 (by decide) i hi,
    lk3_eq_w3 7 (by decide) a ha, e8, e9, e10]

/-! ### the OSV scorer, staged -/

/-- `imp` of `fromCVSS3` -/
def osvImp (w4 w5 w6 w7 : Int) : Q :=
  let iss := one - ((one - milli w5) * (one - milli w6) * (one - milli w7))
  if w4 ≠ 0 then Q.dec 752 100 * (iss - Q.dec 29 1000) - Q.dec 325 100 * Q.pow (iss - Q.dec 2 100) 15
  else iss * Q.dec 642 100

/-- the rest of `fromCVSS3` (intermediate results forced) -/
def osvFin (w4 : Int) (imp : Q) (w0 w1 w2 w3 : Int) : Q :=
  let pr : Int := if w4 ≠ 0 ∧ w2 = 620 then 680 else if w4 ≠ 0 ∧ w2 = 270 then 500 else w2
  if Q.lt (Q.ofInt 0) imp then
    forceQ (Q.min (if w4 ≠ 0 then (Q.dec 822 100 * milli w0 * milli w1 * milli pr * milli w3 + imp) * Q.dec 108 100
                   else Q.dec 822 100 * milli w0 * milli w1 * milli pr * milli w3 + imp) ten) fun s2 =>
    forceInt (Q.trunc (s2 * Q.ofInt 100000)) fun i =>
    if i % 10000 = 0 then Q.mk i 100000
    else (Q.mk i 10000 + one) * Q.mk 1 10
  else Q.ofInt 0

theorem osv3Core_staged (w0 w1 w2 w3 w4 w5 w6 w7 : Int) :
    osv3Core [w0, w1, w2, w3, w4, w5, w6, w7] = osvFin w4 (osvImp w4 w5 w6 w7) w0 w1 w2 w3 := by
  simp only [osv3Core, osvFin, osvImp, forceQ_eq, forceInt_eq]
  rfl

/-! ### the v3 base sweep -/

/-- weight*1000 of the specification table -/
def t3 (m b : Nat) : Option Int := lookupNat (v3Table.getD m ([], [])).2 b

/-- `v3Finish` with the intermediate results forced -/
def v3FinishF (ver : Nat) (scope : Nat) (impact exploitability e rl rc : Q) : Int :=
  if Q.le impact (Q.ofInt 0) then 0
  else
    forceInt (v3Roundup10 ver (Q.min ((if scope = cC then Q.dec 108 100 else one) * (impact + exploitability)) ten))
      fun base10 => forceQ (tenth base10 * e * rl * rc) fun t => v3Roundup10 ver t

theorem v3FinishF_eq (ver scope : Nat) (impact exploitability e rl rc : Q) :
    v3FinishF ver scope impact exploitability e rl rc = v3Finish ver scope impact exploitability e rl rc := by
  simp only [v3FinishF, v3Finish, forceInt_eq, forceQ_eq]

/-- per (S, C, I, A): the model's impact, the specification's impact, the OSV scorer's `imp` -/
def stage1 (minor s c i a : Nat) : Option (Q × Q × Q) :=
  match impactW w3 minor s c i a, impact3 s c i a, t3 5 c, t3 6 i, t3 7 a with
  | some x, some y, some w5, some w6, some w7 => some (x, y, osvImp (if s = cC then 1000 else 0) w5 w6 w7)
  | _, _, _, _, _ => none

/-- per vector: model score = published base score, and the OSV severity = its rating -/
def stage2 (minor : Nat) (x y z : Q) (av ac pr ui s _c _i _a : Nat) : Bool :=
  match explW w3 s av ac pr ui, exploitability3 s av ac pr ui, w3 8 cX, w3 9 cX, w3 10 cX,
        t3 0 av, t3 1 ac, t3 2 pr, t3 3 ui with
  | some ex, some ey, some e, some rl, some rc, some w0, some w1, some w2, some w3 =>
    forceQ ex fun ex => forceQ ey fun ey =>
    forceInt (v3FinishF minor s x ex e rl rc) fun k =>
      decide (baseScore3 minor s y ey = k) &&
      forceQ (osvFin (if s = cC then 1000 else 0) z w0 w1 w2 w3) fun o =>
        decide (bandOfQ osv3Cases osv3Default o = some (rating k))
  | _, _, _, _, _, _, _, _, _ => false

/-- the weights*1000 `fromCVSS3` should hold for a base vector, by the specification table -/
def specNs3 (av ac pr ui s c i a : Nat) : Option (List Int) :=
  match t3 0 av, t3 1 ac, t3 2 pr, t3 3 ui, t3 5 c, t3 6 i, t3 7 a with
  | some w0, some w1, some w2, some w3, some w5, some w6, some w7 =>
    some [w0, w1, w2, w3, if s = cC then 1000 else 0, w5, w6, w7]
  | _, _, _, _, _, _, _ => none

/-- the severity `fromCVSS3` derives from these stored weights -/
def osvSevW3 (ns : List Int) : Option Nat := bandOfQ osv3Cases osv3Default (osv3Core ns)

theorem stage_sound (minor : Nat) (hm : minor = 0 ∨ minor = 1) {x y z : Q} {av ac pr ui s c i a : Nat}
    (hs : s ∈ g3 4) (h1 : stage1 minor s c i a = some (x, y, z))
    (h2 : stage2 minor x y z av ac pr ui s c i a = true) :
    fastW3 w3 minor av ac pr ui s c i a = base3 minor av ac pr ui s c i a ∧
    ∃ ns k, specNs3 av ac pr ui s c i a = some ns ∧ fastW3 w3 minor av ac pr ui s c i a = some k ∧
      osvSevW3 ns = some (rating k) := by
  have hsb : sb s = s := sb_of_mem (by decide) hs
  have hmm : ¬ (minor ≠ 0 ∧ minor ≠ 1) := by omega
  unfold stage1 at h1
  split at h1
  · rename_i x' y' w5 w6 w7 e1 e2 e5 e6 e7
    simp only [Option.some.injEq, Prod.mk.injEq] at h1
    obtain ⟨rfl, rfl, rfl⟩ := h1
    unfold stage2 at h2
    split at h2
    · rename_i ex ey e rl rc w0 w1 w2 w3' f1 f2 f3 f4 f5 g0 g1 g2 g3
      simp only [forceQ_eq, forceInt_eq, v3FinishF_eq, Bool.and_eq_true, decide_eq_true_eq] at h2
      obtain ⟨hb, ho⟩ := h2
      refine ⟨?_, [w0, w1, w2, w3', if s = cC then 1000 else 0, w5, w6, w7], v3Finish minor s x' ex e rl rc, ?_, ?_, ?_⟩
      · simp only [fastW3, hmm, if_false, e1, f1, finW, f3, f4, f5, hsb, base3, e2, f2, hb]
      · simp only [specNs3, g0, g1, g2, g3, e5, e6, e7]
      · simp only [fastW3, hmm, if_false, e1, f1, finW, f3, f4, f5, hsb]
      · simp only [osvSevW3, osv3Core_staged, ho]
    · simp at h2
  · simp at h1


/-! ### `fromCVSS3` on printed base vectors -/

theorem print3_mk3 (minor av ac pr ui s c i a : Nat)
    (h0 : av ≠ 0) (h1 : ac ≠ 0) (h2 : pr ≠ 0) (h3 : ui ≠ 0) (h4 : s ≠ 0) (h5 : c ≠ 0) (h6 : i ≠ 0) (h7 : a ≠ 0) :
    print3 (mk3 minor av ac pr ui s c i a) =
      [67, 86, 83, 83, 58, 51, 46, 48 + minor,
       47, 65, 86, 58, av, 47, 65, 67, 58, ac, 47, 80, 82, 58, pr, 47, 85, 73, 58, ui,
       47, 83, 58, s, 47, 67, 58, c, 47, 73, 58, i, 47, 65, 58, a] := by
  simp [print3, marshalGroups, groupText, v3GetString, mk3, Vec.get, nameOf, v3Names, v3Prefix, List.range',
    h0, h1, h2, h3, h4, h5, h6, h7, cSlash, cColon]

theorem split_base (lbl av ac pr ui s c i a : Nat)
    (h0 : av ≠ 47) (h1 : ac ≠ 47) (h2 : pr ≠ 47) (h3 : ui ≠ 47) (h4 : s ≠ 47) (h5 : c ≠ 47) (h6 : i ≠ 47) (h7 : a ≠ 47) (hl : lbl ≠ 47) :
    splitOn cSlash (trimRightSlash
      [67, 86, 83, 83, 58, 51, 46, lbl,
       47, 65, 86, 58, av, 47, 65, 67, 58, ac, 47, 80, 82, 58, pr, 47, 85, 73, 58, ui,
       47, 83, 58, s, 47, 67, 58, c, 47, 73, 58, i, 47, 65, 58, a]) =
      [[67, 86, 83, 83, 58, 51, 46, lbl], [65, 86, 58, av], [65, 67, 58, ac], [80, 82, 58, pr], [85, 73, 58, ui],
       [83, 58, s], [67, 58, c], [73, 58, i], [65, 58, a]] := by
  simp [trimRightSlash, splitOn, cSlash, h0, h1, h2, h3, h4, h5, h6, h7, hl]

/-- the value switch of `fromCVSS3` for base metric `k` -/
def osvVals (k : Nat) : List (Bytes × Int) := (osv3Weights.getD k ([], 0, [])).2.2

def osvW3 (k b : Nat) : Option Int := lookupBytes (osvVals k) [b]

theorem osvFill_base (av ac pr ui s c i a : Nat) :
    osvFill osv3Weights osv3Ignored
      [[65, 86, 58, av], [65, 67, 58, ac], [80, 82, 58, pr], [85, 73, 58, ui], [83, 58, s], [67, 58, c], [73, 58, i], [65, 58, a]]
      (List.replicate 8 0) =
    (osvW3 0 av).bind fun w0 => (osvW3 1 ac).bind fun w1 => (osvW3 2 pr).bind fun w2 => (osvW3 3 ui).bind fun w3 =>
    (osvW3 4 s).bind fun w4 => (osvW3 5 c).bind fun w5 => (osvW3 6 i).bind fun w6 => (osvW3 7 a).bind fun w7 =>
      some [w0, w1, w2, w3, w4, w5, w6, w7] := by
  have n0 : lookupBytes osv3Weights [65, 86] = some (0, osvVals 0) := rfl
  have n1 : lookupBytes osv3Weights [65, 67] = some (1, osvVals 1) := rfl
  have n2 : lookupBytes osv3Weights [80, 82] = some (2, osvVals 2) := rfl
  have n3 : lookupBytes osv3Weights [85, 73] = some (3, osvVals 3) := rfl
  have n4 : lookupBytes osv3Weights [83] = some (4, osvVals 4) := rfl
  have n5 : lookupBytes osv3Weights [67] = some (5, osvVals 5) := rfl
  have n6 : lookupBytes osv3Weights [73] = some (6, osvVals 6) := rfl
  have n7 : lookupBytes osv3Weights [65] = some (7, osvVals 7) := rfl
  simp only [osvFill, cut, cColon, n0, n1, n2, n3, n4, n5, n6, n7, Nat.reduceEqDiff, ↓reduceIte, osvW3,
    List.replicate, List.set]
  generalize lookupBytes (osvVals 0) [av] = o0
  generalize lookupBytes (osvVals 1) [ac] = o1
  generalize lookupBytes (osvVals 2) [pr] = o2
  generalize lookupBytes (osvVals 3) [ui] = o3
  generalize lookupBytes (osvVals 4) [s] = o4
  generalize lookupBytes (osvVals 5) [c] = o5
  generalize lookupBytes (osvVals 6) [i] = o6
  generalize lookupBytes (osvVals 7) [a] = o7
  cases o0 <;> cases o1 <;> cases o2 <;> cases o3 <;> cases o4 <;> cases o5 <;> cases o6 <;> cases o7 <;> rfl

/-- `fromCVSS3` on the printed form of a base-only vector -/
theorem osv3_print3_mk3 (minor : Nat) (hm : minor = 0 ∨ minor = 1) (av ac pr ui s c i a : Nat)
    (h0 : av ≠ 0 ∧ av ≠ 47) (h1 : ac ≠ 0 ∧ ac ≠ 47) (h2 : pr ≠ 0 ∧ pr ≠ 47) (h3 : ui ≠ 0 ∧ ui ≠ 47)
    (h4 : s ≠ 0 ∧ s ≠ 47) (h5 : c ≠ 0 ∧ c ≠ 47) (h6 : i ≠ 0 ∧ i ≠ 47) (h7 : a ≠ 0 ∧ a ≠ 47) :
    osv3 (print3 (mk3 minor av ac pr ui s c i a)) =
    (osvW3 0 av).bind fun w0 => (osvW3 1 ac).bind fun w1 => (osvW3 2 pr).bind fun w2 => (osvW3 3 ui).bind fun w3 =>
    (osvW3 4 s).bind fun w4 => (osvW3 5 c).bind fun w5 => (osvW3 6 i).bind fun w6 => (osvW3 7 a).bind fun w7 =>
      bandOfQ osv3Cases osv3Default (osv3Core [w0, w1, w2, w3, w4, w5, w6, w7]) := by
  have hl : 48 + minor ≠ 47 := by omega
  have hp : parseInt32Ok [48 + minor] = true := by rcases hm with rfl | rfl <;> decide
  rw [print3_mk3 minor av ac pr ui s c i a h0.1 h1.1 h2.1 h3.1 h4.1 h5.1 h6.1 h7.1]
  simp only [osv3, osv3Score, split_base (48 + minor) av ac pr ui s c i a h0.2 h1.2 h2.2 h3.2 h4.2 h5.2 h6.2 h7.2 hl,
    osvFill_base]
  have hpre : isPrefix osv3Prefix [67, 86, 83, 83, 58, 51, 46, 48 + minor] = true := rfl
  simp only [hpre, List.length_cons, List.length_nil, List.drop_succ_cons, List.drop_zero, hp, not_true_eq_false,
    ↓reduceIte, Nat.reduceAdd, Nat.lt_irrefl]
  generalize osvW3 0 av = o0
  generalize osvW3 1 ac = o1
  generalize osvW3 2 pr = o2
  generalize osvW3 3 ui = o3
  generalize osvW3 4 s = o4
  generalize osvW3 5 c = o5
  generalize osvW3 6 i = o6
  generalize osvW3 7 a = o7
  cases o0 <;> cases o1 <;> cases o2 <;> cases o3 <;> cases o4 <;> cases o5 <;> cases o6 <;> cases o7 <;> rfl

/-- the switch tables of `fromCVSS3` hold the specification's weights (Scope: 0 / 1000 as the "changed" flag) -/
theorem osvW3_eq_t3 : ∀ k < 8, ∀ b ∈ g3 k, osvW3 k b = if k = 4 then some (if b = cC then 1000 else 0) else t3 k b := by
  decide +kernel

theorem g3_base_bytes : ∀ m < 8, ∀ b ∈ g3 m, b ≠ 0 ∧ b ≠ 47 := by decide +kernel

/-- everything the sweeps establish about one base vector -/
theorem v3_base_facts (minor : Nat) (hm : minor = 0 ∨ minor = 1)
    (hsweep : sweep3 (stage1 minor) (stage2 minor) = true) {av ac pr ui s c i a : Nat}
    (hav : av ∈ g3 0) (hac : ac ∈ g3 1) (hpr : pr ∈ g3 2) (hui : ui ∈ g3 3)
    (hs : s ∈ g3 4) (hc : c ∈ g3 5) (hi : i ∈ g3 6) (ha : a ∈ g3 7) :
    score3 (mk3 minor av ac pr ui s c i a) = base3 minor av ac pr ui s c i a ∧
    ∃ k, score3 (mk3 minor av ac pr ui s c i a) = some k ∧
      osv3 (print3 (mk3 minor av ac pr ui s c i a)) = some (rating k) := by
  obtain ⟨x, y, z, h1, h2⟩ := sweep3_spec hsweep hav hac hpr hui hs hc hi ha
  obtain ⟨hA, ns, k, hns, hk, hosv⟩ := stage_sound minor hm hs h1 h2
  have hsc : score3 (mk3 minor av ac pr ui s c i a) = fastW3 w3 minor av ac pr ui s c i a := by
    rw [score3_mk3, fastW3_lk3_eq_w3 minor hav hac hpr hui hs hc hi ha]
  refine ⟨hsc.trans hA, k, hsc.trans hk, ?_⟩
  rw [osv3_print3_mk3 minor hm av ac pr ui s c i a (g3_base_bytes 0 (by decide) av hav)
    (g3_base_bytes 1 (by decide) ac hac) (g3_base_bytes 2 (by decide) pr hpr) (g3_base_bytes 3 (by decide) ui hui)
    (g3_base_bytes 4 (by decide) s hs) (g3_base_bytes 5 (by decide) c hc) (g3_base_bytes 6 (by decide) i hi)
    (g3_base_bytes 7 (by decide) a ha)]
  have e0 := osvW3_eq_t3 0 (by decide) av hav
  have e1 := osvW3_eq_t3 1 (by decide) ac hac
  have e2 := osvW3_eq_t3 2 (by decide) pr hpr
  have e3 := osvW3_eq_t3 3 (by decide) ui hui
  have e4 := osvW3_eq_t3 4 (by decide) s hs
  have e5 := osvW3_eq_t3 5 (by decide) c hc
  have e6 := osvW3_eq_t3 6 (by decide) i hi
  have e7 := osvW3_eq_t3 7 (by decide) a ha
  simp only [Nat.reduceEqDiff, ↓reduceIte] at e0 e1 e2 e3 e4 e5 e6 e7
  unfold specNs3 at hns
  split at hns
  · rename_i w0 w1 w2 w3' w5 w6 w7 f0 f1 f2 f3 f5 f6 f7
    simp only [Option.some.injEq] at hns
    subst hns
    simp only [e0, e1, e2, e3, e4, e5, e6, e7, f0, f1, f2, f3, f5, f6, f7, Option.bind_some]
    exact hosv
  · simp at hns

end ClairModel.Cvss
