/-
  `reduce` is sound under any faults: when fetchLayers returns without error,
  every layer that some scanner of `vs` still has to scan was handed to Realize.
-/
import ClairModel.Proofs.IndexerRun

namespace ClairModel.Indexer

theorem reduceInner_ok (o : Oracle) (l : Layer) : ∀ (vs : List Scanner) (w : W) (b : Bool),
    (reduceInner o l vs w).2 = .ok b → (∃ s, s ∈ vs ∧ (l, s) ∉ w.st.scannedLayer) → b = true
  | [], w, b, _, ⟨s, hs, _⟩ => by cases hs
  | s :: rest, w, b, h, hex => by
    obtain ⟨e, v, hc, hs⟩ := call_spec o w 'L'
    simp only [reduceInner, hc] at h
    cases hv : v.err with
    | some c => rw [hv] at h; cases h
    | none =>
      rw [hv] at h
      simp only at h
      by_cases hsc : w.st.layerScanned l s = true
      · simp only [hsc, if_true] at h
        apply reduceInner_ok o l rest ⟨w.st, e⟩ b h
        obtain ⟨s', hs', hun⟩ := hex
        rcases List.mem_cons.1 hs' with rfl | hs'
        · exact absurd ((Store.layerScanned_iff _ _ _).1 hsc) hun
        · exact ⟨s', hs', hun⟩
      · have hsc' : w.st.layerScanned l s = false := by simpa using hsc
        simp only [hsc', Bool.false_eq_true, if_false, Except.ok.injEq] at h
        exact h.symm

theorem reduce_ok (o : Oracle) (vs : List Scanner) : ∀ (ls : List Layer) (w : W) (r : List Layer),
    (reduce o vs ls w).2 = .ok r → ∀ l, l ∈ ls → (∃ s, s ∈ vs ∧ (l, s) ∉ w.st.scannedLayer) → l ∈ r
  | [], w, r, _, l, hl, _ => by cases hl
  | l0 :: ls, w, r, h, l, hl, hex => by
    have hro := reduceInner_ro o l0 vs w
    have hin := reduceInner_ok o l0 vs w
    simp only [reduce] at h
    generalize reduceInner o l0 vs w = res at hro hin h
    obtain ⟨w1, r1⟩ := res
    cases r1 with
    | error c => cases h
    | ok b =>
      simp only at h
      have hrec := reduce_ok o vs ls w1
      generalize reduce o vs ls w1 = res2 at hrec h
      obtain ⟨w2, r2⟩ := res2
      cases r2 with
      | error c => cases h
      | ok r' =>
        simp only [Except.ok.injEq] at h
        subst h
        have hst : w1.st = w.st := hro.st
        rcases List.mem_cons.1 hl with rfl | hl
        · rw [hin b rfl hex]; simp
        · have := hrec r' rfl l hl (hst ▸ hex)
          split
          · exact List.mem_cons_of_mem _ this
          · exact this

/-- Under any oracle: if fetchLayers returns without error, every layer of the
    manifest that some scanner of `c.vs` has not scanned is among the fetched
    layers. -/
theorem fetchLayers_covers (o : Oracle) (m : Manifest) (w : W) (c : Ctl)
    (hok : (fetchLayers o m w c).2.2.2 = none) (l : Layer) (hl : l ∈ m)
    (hex : ∃ s, s ∈ c.vs ∧ (l, s) ∉ w.st.scannedLayer) : l ∈ (fetchLayers o m w c).1.e.fetched := by
  have hr := reduce_ok o c.vs m w
  unfold fetchLayers at hok ⊢
  generalize reduce o c.vs m w = res at hr hok ⊢
  obtain ⟨w1, r1⟩ := res
  cases r1 with
  | error cl => cases hok
  | ok toFetch =>
    simp only at hok ⊢
    obtain ⟨e, v, hc, hs⟩ := call_spec o w1 'Z'
    simp only [hc] at hok ⊢
    cases hv : v.err with
    | some cl => rw [hv] at hok; cases hok
    | none =>
      have heff := hs.okEffect hv
      simp only [heff, if_true, hv]
      exact List.mem_append_left _ (hr toFetch rfl l hl hex)

end ClairModel.Indexer
