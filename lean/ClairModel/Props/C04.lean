/-
  C04 — Advisories reach the packages they name on every supported release.

  The join between an indexed package and a stored advisory is the WHERE
  clause `buildGetQuery` builds from the matcher's `Query()` list (after the
  matcher's `Filter` accepted the record).  Theorems here are of three kinds:

  (1) about the query for ALL records, rows and constraint lists
      (`query_meaning`): what the clause means, constraint by constraint;
  (2) about the tables regenerated from the sources on every run
      (Gen/Join*.lean: the constraint switch and INSERT column map, every
      matcher's Query()/Filter, the release tables and Distribution
      constructors of every distribution, the OSV repository table, the
      language scanners' repositories) together with the repository's own
      os-release fixtures: evaluated by the kernel over the complete finite
      tables (`…_table_checked`);
  (3) liftings of (2) by (1) to every record and every stored advisory of a
      listed release (`join_fields_agree`, `scan_reports_vulnerable`,
      `other_release_not_reported`, `language_…`).

  The model of the scanners (Model/JoinScan.lean) and of the query
  (Model/Join.lean) is tied to the code by the correspondence run of
  go/internal/c04.
-/
import ClairModel.Proofs.JoinAll
import ClairModel.Proofs.JoinHist
import ClairModel.Gen.JoinState

-- every variable of a property statement is bound explicitly: a misspelt name is an error, not a new variable
set_option autoImplicit false

namespace ClairModel.Props.C04
open ClairModel ClairModel.Join ClairModel.Gen

/-! ## (1) the query, for all inputs -/

/-- The WHERE clause `buildGetQuery(record, {Matchers: cs, VersionFiltering: vf})`
    holds for a stored advisory exactly when: the advisory names the package
    (name and kind) or its source package; every listed constraint's record
    field equals the advisory's column; and, with version filtering, the
    version kinds are equal and the version lies in the advisory's range. -/
theorem query_meaning (cs : List Bytes) (vf inRange : Bool) (r : Rec) (v : Vuln) :
    getQuery cs vf inRange r v = .ok true ↔
      nameJoins r v = true ∧ (∀ c ∈ cs, constraintAgree c r v = true) ∧ versionOk vf inRange r v = true :=
  getQuery_true_iff cs vf inRange r v

/-- A constraint that compares a Distribution field compares nothing else:
    the package, the repository and all other advisory columns are irrelevant. -/
theorem dist_constraint_meaning (c : Bytes) (f : DField) (h : distConstraint c = some f) (r : Rec) (v : Vuln) :
    constraintAgree c r v = (match r.dist with
      | some d => f.get d == f.get v.dist
      | none => false) :=
  constraintAgree_dist c f h r v

theorem repo_constraint_meaning (c : Bytes) (f : RpField) (h : repoConstraint c = some f) (r : Rec) (v : Vuln) :
    constraintAgree c r v = (match r.repo with
      | some x => f.get x == f.get v.repo
      | none => false) :=
  constraintAgree_repo c f h r v

/-! ## (2) the regenerated tables -/

/-- What each `driver.MatchConstraint` is documented to compare
    (libvuln/driver/matcher.go): record field, advisory field. -/
def constraintSpec : List (Bytes × RField × VField) := [
  ([80, 97, 99, 107, 97, 103, 101, 77, 111, 100, 117, 108, 101], .pkgModule, .pkgModule),   -- PackageModule
  ([68, 105, 115, 116, 114, 105, 98, 117, 116, 105, 111, 110, 68, 73, 68], .dist .did, .dist .did),
  ([68, 105, 115, 116, 114, 105, 98, 117, 116, 105, 111, 110, 78, 97, 109, 101], .dist .name, .dist .name),
  ([68, 105, 115, 116, 114, 105, 98, 117, 116, 105, 111, 110, 86, 101, 114, 115, 105, 111, 110], .dist .version, .dist .version),
  ([68, 105, 115, 116, 114, 105, 98, 117, 116, 105, 111, 110, 86, 101, 114, 115, 105, 111, 110, 67, 111, 100, 101, 78, 97, 109, 101], .dist .versionCodeName, .dist .versionCodeName),
  ([68, 105, 115, 116, 114, 105, 98, 117, 116, 105, 111, 110, 86, 101, 114, 115, 105, 111, 110, 73, 68], .dist .versionID, .dist .versionID),
  ([68, 105, 115, 116, 114, 105, 98, 117, 116, 105, 111, 110, 65, 114, 99, 104], .dist .arch, .dist .arch),
  ([68, 105, 115, 116, 114, 105, 98, 117, 116, 105, 111, 110, 67, 80, 69], .dist .cpe, .dist .cpe),
  ([68, 105, 115, 116, 114, 105, 98, 117, 116, 105, 111, 110, 80, 114, 101, 116, 116, 121, 78, 97, 109, 101], .dist .prettyName, .dist .prettyName),
  ([82, 101, 112, 111, 115, 105, 116, 111, 114, 121, 78, 97, 109, 101], .repo .name, .repo .name),
  ([82, 101, 112, 111, 115, 105, 116, 111, 114, 121, 75, 101, 121], .repo .key, .repo .key)]

/-- Every field-comparing arm of the `switch` in `buildGetQuery` compares the
    record field its constraint is named after with the column in which
    `updateVulnerabilities` stores the same field of the advisory; the one
    remaining arm is `HasFixedInVersion` on the column holding
    `FixedInVersion`. -/
theorem constraint_columns_faithful :
    (∀ q ∈ JoinQuery.switchCases, q.field.isSome = true →
        ∃ e ∈ constraintSpec, e.1 = q.constraint ∧ constraintTyped q.constraint = some e.2) ∧
    (∀ q ∈ JoinQuery.switchCases, q.field = none →
        q.constraint = [72, 97, 115, 70, 105, 120, 101, 100, 73, 110, 86, 101, 114, 115, 105, 111, 110] ∧
        colField q.column = some .fixedIn) ∧
    (∀ e ∈ constraintSpec, constraintTyped e.1 = some e.2) := by
  decide +kernel

/-- Every constraint any matcher lists (also under its optional flag) has an
    arm in the switch, so `buildGetQuery` never answers "unknown matcher"
    (which would silently skip the record); it is one of the declared
    constants. -/
theorem matchers_use_known_constraints :
    ∀ m ∈ JoinMatchers.all, ∀ c ∈ m.query ++ m.queryOpt,
      (findCase c JoinQuery.switchCases).isSome = true ∧ c ∈ JoinQuery.constraints := by
  decide +kernel

/-- The package clause compares name and kind of the package, or of its
    source when that has a name, with the advisory's package columns; a record
    without a package name is refused. -/
theorem package_clause_shape :
    JoinQuery.pkgClause.map (fun p => (colField p.1, decodeRec p.2)) =
        [(some .pkgName, some .pkgName), (some .pkgKind, some .pkgKind)] ∧
    JoinQuery.srcClause.map (fun p => (colField p.1, decodeRec p.2)) =
        [(some .pkgName, some .srcName), (some .pkgKind, some .srcKind)] ∧
    decodeRec JoinQuery.srcGuard = some .srcName ∧ decodeRec JoinQuery.nameGuard = some .pkgName := by
  decide +kernel

/-- Matchers of the distributions look at the Distribution only: the Filter
    reads no other part of the record, every Query() constraint compares one
    Distribution field with the same field of the advisory, and there is no
    database-side version filtering. -/
theorem distro_matchers_shape :
    distroMatcher JoinMatchers.alpine = true ∧ distroMatcher JoinMatchers.debian = true ∧
    distroMatcher JoinMatchers.ubuntu = true ∧ distroMatcher JoinMatchers.aws = true ∧
    distroMatcher JoinMatchers.oracle = true ∧ distroMatcher JoinMatchers.photon = true ∧
    distroMatcher JoinMatchers.suse = true := by
  decide +kernel

/-- Alpine: for each of the repository's fixture images (3.3 … edge) the
    scanner reports a Distribution the matcher's Filter accepts and that
    equals, on every field of Query(), the Distribution
    `stableRelease{maj,min}.Distribution()` / `edgeRelease.Distribution()` the
    updater of that release stamps; no fixture is dropped from the table; and
    no image joins the advisories of another release. -/
theorem alpine_table_checked :
    alpineRows.length = JoinFixtures.alpine.length ∧ 0 < alpineRows.length ∧
    tableOk JoinMatchers.alpine alpineRows = true ∧ noCross JoinMatchers.alpine alpineRows = true := by
  decide +kernel

/-- Alpine images without `etc/os-release` (the `etc/issue` fallback): same. -/
theorem alpine_issue_table_checked :
    alpineIssueRows.length = JoinFixtures.alpine.length ∧
    tableOk JoinMatchers.alpine alpineIssueRows = true ∧ noCross JoinMatchers.alpine alpineIssueRows = true := by
  decide +kernel

/-- Debian 7 … 12 (and the distroless images 9 … 11) against
    `mkDist(codename, major)` of the mirror's `dists/<codename>/Release`. -/
theorem debian_table_checked :
    debianRows.length = JoinFixtures.debian.length ∧ 0 < debianRows.length ∧
    debianDistrolessRows.length = JoinFixtures.debianDistroless.length ∧
    tableOk JoinMatchers.debian debianRows = true ∧ noCross JoinMatchers.debian debianRows = true ∧
    tableOk JoinMatchers.debian debianDistrolessRows = true ∧
    noCross JoinMatchers.debian debianDistrolessRows = true := by
  decide +kernel

/-- Ubuntu 10.04 … 23.10 (every series of the scanner test that has a fixture
    image) against `mkDist(version, name)` of the Launchpad series. -/
theorem ubuntu_table_checked :
    ubuntuRows.length = JoinFixtures.ubuntuSeries.length ∧ 0 < ubuntuRows.length ∧
    tableOk JoinMatchers.ubuntu ubuntuRows = true ∧ noCross JoinMatchers.ubuntu ubuntuRows = true := by
  decide +kernel

/-- Amazon Linux: every os-release of the scanner test is recognised as the
    release the test expects, that release is one the updater set serves, and
    the Distribution agrees with `releaseToDist` of the updater. -/
theorem aws_table_checked :
    awsRows.length = JoinFixtures.awsExpected.length ∧ 0 < awsRows.length ∧
    (∀ row ∈ awsRows, row.rel ∈ JoinReleases.aws.releases) ∧
    (∀ rel ∈ JoinReleases.aws.releases, ∃ row ∈ awsRows, row.rel = rel) ∧
    tableOk JoinMatchers.aws awsRows = true ∧ noCross JoinMatchers.aws awsRows = true := by
  decide +kernel

/-- Oracle Linux 5 … 9 against the Distribution the parser stamps for the OVAL
    platform `Oracle Linux <n>`; every platform of `platformToDist` is covered
    by a fixture. -/
theorem oracle_table_checked :
    oracleRows.length = JoinFixtures.oracleExpected.length ∧ 0 < oracleRows.length ∧
    (∀ p ∈ JoinReleases.oracle.platformToDist, ∃ row ∈ oracleRows, oraclePlatform row.rel = p.1) ∧
    tableOk JoinMatchers.oracle oracleRows = true ∧ noCross JoinMatchers.oracle oracleRows = true := by
  decide +kernel

/-- Photon 1.0 … 3.0. -/
theorem photon_table_checked :
    photonRows.length = JoinFixtures.photonExpected.length ∧ 0 < photonRows.length ∧
    (∀ row ∈ photonRows, row.rel ∈ JoinReleases.photon.releases) ∧
    (∀ rel ∈ JoinReleases.photon.releases, ∃ row ∈ photonRows, row.rel = rel) ∧
    tableOk JoinMatchers.photon photonRows = true ∧ noCross JoinMatchers.photon photonRows = true := by
  decide +kernel

/-- SLES 12 and 15 (the scanner test's os-release files) against
    `mkELDist` of `suse.linux.enterprise.server.<major>.xml.gz`. -/
theorem suse_table_checked :
    suseRows.length = 2 ∧ tableOk JoinMatchers.suse suseRows = true ∧ noCross JoinMatchers.suse suseRows = true := by
  decide +kernel

def isDist : ScanOut → Bool
  | .dist _ => true
  | _ => false

/-- Ubuntu images WITHOUT `etc/lsb-release` (only os-release): the releases
    whose os-release carries `VERSION_CODENAME` (16.04 and later) are
    identified and join as above; for 12.04 … 15.10 the scanner reports no
    distribution at all (os-release has no codename key there).  The official
    images ship lsb-release, which `ubuntu_table_checked` covers; this is the
    exact extent of the os-release-only fallback. -/
theorem ubuntu_without_lsb_release_partial :
    tableOk JoinMatchers.ubuntu (ubuntuOsrRows.filter fun r => isDist r.scan) = true ∧
    (ubuntuOsrRows.filter fun r => !isDist r.scan).map (·.rel) =
      [[49, 50, 46, 48, 52], [49, 50, 46, 49, 48], [49, 51, 46, 48, 52], [49, 51, 46, 49, 48],
       [49, 52, 46, 48, 52], [49, 52, 46, 49, 48], [49, 53, 46, 48, 52], [49, 53, 46, 49, 48]] := by
  decide +kernel

/-! ### every row of the release tables, on generated files -/

/-- Tie between the two samplers: the text the extractor derives from each
    parsed Go expression of the aws / oracle / photon scanner tables is the
    text `Re.sample` derives from the translated expression, and every
    expression of the tables has one. -/
theorem regex_samples_agree :
    sampleTable JoinReleases.aws.regexes = JoinReleases.aws.regexSamples ∧
    sampleTable JoinReleases.oracle.regexes = JoinReleases.oracle.regexSamples ∧
    sampleTable JoinReleases.photon.regexes = JoinReleases.photon.regexSamples ∧
    JoinReleases.aws.regexSamples.length = JoinReleases.aws.regexes.length ∧
    JoinReleases.oracle.regexSamples.length = JoinReleases.oracle.regexes.length ∧
    JoinReleases.photon.regexSamples.length = JoinReleases.photon.regexes.length := by
  decide +kernel

def sameSet (a b : List Bytes) : Bool := a.all b.contains && b.all a.contains

/-- Amazon Linux, EVERY row of the scanner's table and every release of the
    updater set (the two lists name the same releases): a file made of the
    text the row's expression matches is recognised as that release (no
    earlier row of the table takes it), the Distribution passes the matcher's
    Filter and agrees with the updater's on every Query() field, and does not
    join another release's advisories. -/
theorem aws_every_release_row :
    sameSet (JoinReleases.aws.regexes.map (·.1)) JoinReleases.aws.releases = true ∧
    awsSampleRows.length = JoinReleases.aws.releases.length ∧
    tableOk JoinMatchers.aws awsSampleRows = true ∧ noCross JoinMatchers.aws awsSampleRows = true := by
  decide +kernel

/-- Oracle Linux, every row of the scanner's table against the parser's
    `platformToDist` of `Oracle Linux <release>`: the releases the scanner
    knows are exactly the platforms the parser knows. -/
theorem oracle_every_release_row :
    sameSet (JoinReleases.oracle.regexes.map fun p => oraclePlatform p.1) (JoinReleases.oracle.platformToDist.map (·.1)) = true ∧
    oracleSampleRows.length = JoinReleases.oracle.regexes.length ∧
    tableOk JoinMatchers.oracle oracleSampleRows = true ∧ noCross JoinMatchers.oracle oracleSampleRows = true := by
  decide +kernel

/-- Photon, every row of the scanner's table and every release of the updater set. -/
theorem photon_every_release_row :
    sameSet (JoinReleases.photon.regexes.map (·.1)) JoinReleases.photon.releases = true ∧
    photonSampleRows.length = JoinReleases.photon.releases.length ∧
    tableOk JoinMatchers.photon photonSampleRows = true ∧ noCross JoinMatchers.photon photonSampleRows = true := by
  decide +kernel

/-- SLES, every major version the updater factory's file-name expression
    admits (11 … 99 without a zero digit, 81 of them): an os-release whose
    CPE_NAME is `cpe:/o:suse:sles:<major>:sp3` joins the advisories of
    `suse.linux.enterprise.server.<major>.xml.gz` and no other major's. -/
theorem suse_every_el_release :
    suseELAllRows.length = 81 ∧
    tableOk JoinMatchers.suse suseELAllRows = true ∧ noCross JoinMatchers.suse suseELAllRows = true := by
  decide +kernel

/-- openSUSE Leap 15.5, 15.6, 15.7, 15.10, 16.0, 16.3. -/
theorem suse_leap_releases :
    suseLeapRows.length = suseLeapVersions.length ∧
    tableOk JoinMatchers.suse suseLeapRows = true ∧ noCross JoinMatchers.suse suseLeapRows = true := by
  decide +kernel

/-- The release tables and the matcher each belongs to. -/
def ecosystems : List (MatcherT × List Row) := [
  (JoinMatchers.alpine, alpineRows), (JoinMatchers.alpine, alpineIssueRows),
  (JoinMatchers.debian, debianRows), (JoinMatchers.debian, debianDistrolessRows),
  (JoinMatchers.ubuntu, ubuntuRows), (JoinMatchers.aws, awsRows), (JoinMatchers.oracle, oracleRows),
  (JoinMatchers.photon, photonRows), (JoinMatchers.suse, suseRows),
  (JoinMatchers.aws, awsSampleRows), (JoinMatchers.oracle, oracleSampleRows), (JoinMatchers.photon, photonSampleRows),
  (JoinMatchers.suse, suseELAllRows), (JoinMatchers.suse, suseLeapRows)]

theorem ecosystems_checked :
    ∀ e ∈ ecosystems, distroMatcher e.1 = true ∧ tableOk e.1 e.2 = true ∧ noCross e.1 e.2 = true := by
  have h1 := distro_matchers_shape
  have h2 := alpine_table_checked
  have h3 := alpine_issue_table_checked
  have h4 := debian_table_checked
  have h5 := ubuntu_table_checked
  have h6 := aws_table_checked
  have h7 := oracle_table_checked
  have h8 := photon_table_checked
  have h9 := suse_table_checked
  have h10 := aws_every_release_row
  have h11 := oracle_every_release_row
  have h12 := photon_every_release_row
  have h13 := suse_every_el_release
  have h14 := suse_leap_releases
  intro e he
  simp only [ecosystems, List.mem_cons, List.mem_nil_iff, or_false] at he
  rcases he with rfl | rfl | rfl | rfl | rfl | rfl | rfl | rfl | rfl | rfl | rfl | rfl | rfl | rfl <;> simp_all

/-! ## (3) every record, every advisory of a listed release -/

/-- join_fields_agree: for every listed release, the Distribution the scanner
    derives from the release's image passes the matcher's Filter on any record
    carrying it, and agrees with the Distribution of the release's updater on
    every field the matcher's Query() constrains — for any package, any
    repository and any other content of the advisory. -/
theorem join_fields_agree :
    ∀ e ∈ ecosystems, ∀ row ∈ e.2, ∃ d, row.scan = .dist d ∧
      (∀ r : Rec, r.dist = some d → e.1.filter.eval r = some true) ∧
      (∀ (r : Rec) (v : Vuln), r.dist = some d → v.dist = row.upd →
        ∀ c ∈ e.1.query, constraintAgree c r v = true) := by
  intro e he row hrow
  obtain ⟨hm, ht, _⟩ := ecosystems_checked e he
  simp only [tableOk, List.all_eq_true] at ht
  have hok := ht row hrow
  unfold rowOk at hok
  cases hs : row.scan with
  | err => simp [hs] at hok
  | none => simp [hs] at hok
  | dist d =>
    simp only [hs, Bool.and_eq_true, beq_iff_eq] at hok
    refine ⟨d, rfl, ?_, ?_⟩
    · intro r hr
      exact filter_lift e.1 hm d hok.1 r hr
    · intro r v hr hv
      exact distAgree_lift e.1 hm d row.upd hok.2 r v hr hv

/-- A known-vulnerable installed package is reported, a fixed one is not: for
    an image of a listed release (the record carries the Distribution the
    scanner derives from it) and a stored advisory of the same release that
    names the package or its source package, the controller's verdict is
    exactly the matcher's `Vulnerable` (the version comparison, property C03). -/
theorem scan_reports_vulnerable :
    ∀ e ∈ ecosystems, ∀ row ∈ e.2, ∀ (d : Dist) (r : Rec) (v : Vuln),
      row.scan = .dist d → r.dist = some d → v.dist = row.upd → nameJoins r v = true →
      ∀ opt inRange vulnerable, reported e.1 opt inRange vulnerable r v = .reported vulnerable := by
  intro e he row hrow d r v hs hr hv hn opt ir vul
  obtain ⟨hm, ht, _⟩ := ecosystems_checked e he
  exact reported_of_table e.1 hm e.2 ht row hrow r v (by simp [hr, hs]) hv hn opt ir vul

/-- The same advisory is not reported for the same package on a different
    release: whatever the package and the versions, an advisory stamped by the
    updater of another listed release is never reported (the query does not
    return it). -/
theorem other_release_not_reported :
    ∀ e ∈ ecosystems, ∀ a ∈ e.2, ∀ b ∈ e.2, (a.rel == b.rel) = false →
      ∀ (d : Dist) (r : Rec) (v : Vuln), a.scan = .dist d → r.dist = some d → v.dist = b.upd →
      ∀ opt inRange vulnerable, reported e.1 opt inRange vulnerable r v ≠ .reported true := by
  intro e he a ha b hb hne d r v hs hr hv opt ir vul
  obtain ⟨hm, ht, hx⟩ := ecosystems_checked e he
  have := not_reported_cross e.1 hm e.2 ht hx a b ha hb hne r v (by simp [hr, hs]) hv opt ir vul
  rcases this with h | h | h <;> rw [h] <;> simp

/-! ## every release of the distributions whose releases are discovered at run time

  The tables above cover the releases that have a fixture image.  The
  statements below are about ALL releases, at the level of the parsed
  os-release keys (the text level, `osrelease.Parse`, is tied by the
  correspondence run). -/

/-- Debian, any release: an os-release with `ID=debian`, a codename and a
    numeric `VERSION_ID` makes the scanner report exactly the Distribution
    `mkDist(codename, number)` the updater records for that release. -/
theorem debian_all_releases (m : KV) (n : Bytes) (v : Int)
    (hid : get m kID = [100, 101, 98, 105, 97, 110]) (hn : lookup m kVERSION_CODENAME = some n) (hne : n ≠ [])
    (hv : get m kVERSION_ID = itoa v) (hr : ClairModel.Bytes.inInt32 v) :
    debianFromKV m = .dist (debianUpdDist n v) := by
  have h1 : n.isEmpty = false := by cases n <;> simp_all
  have h2 : (itoa v).isEmpty = false := by
    have := itoa_ne_nil v
    cases h : itoa v <;> simp_all
  simp [debianFromKV, hid, hn, hv, h1, h2, parseInt32_itoa v hr, debianUpdDist]

/-- Debian, any two releases: an image of release (n, v) joins the advisories
    of release (n', v') only if they are the same release; and if they are, it
    does, with the matcher's `Vulnerable` as the verdict. -/
theorem debian_join_iff_same_release (n n' : Bytes) (v v' : Int) :
    distAgree JoinMatchers.debian (debianUpdDist n v) (debianUpdDist n' v') = true ↔ (n = n' ∧ v = v') := by
  rw [distAgree_iff JoinMatchers.debian [.did, .name, .version] debian_query_typed]
  constructor
  · intro h
    exact debian_version_inj n n' v v' (h .version (by simp))
  · rintro ⟨rfl, rfl⟩ f _
    rfl

theorem debian_all_releases_reported (n : Bytes) (v : Int) (r : Rec) (adv : Vuln)
    (hr : r.dist = some (debianUpdDist n v)) (hv : adv.dist = debianUpdDist n v) (hn : nameJoins r adv = true)
    (opt inRange vulnerable : Bool) :
    reported JoinMatchers.debian opt inRange vulnerable r adv = .reported vulnerable := by
  have hm := distro_matchers_shape.2.1
  have hfil : JoinMatchers.debian.filter.eval { dist := some (debianUpdDist n v) } = some true := by
    have d1 : decodeRec [68, 105, 115, 116, 114, 105, 98, 117, 116, 105, 111, 110, 46, 68, 73, 68] = some (.dist .did) := by decide
    simp [JoinMatchers.debian, FExpr.eval, recField, d1, RField.get, DField.get, debianUpdDist,
      JoinReleases.debian.mkDist, DistT.eval, SExpr.eval]
  exact reported_of_agree _ hm _ _ hfil ((debian_join_iff_same_release n n v v).2 ⟨rfl, rfl⟩) r adv hr hv hn opt inRange vulnerable

theorem debian_other_release_not_reported (n n' : Bytes) (v v' : Int) (hne : ¬ (n = n' ∧ v = v'))
    (r : Rec) (adv : Vuln) (hr : r.dist = some (debianUpdDist n v)) (hv : adv.dist = debianUpdDist n' v')
    (opt inRange vulnerable : Bool) :
    reported JoinMatchers.debian opt inRange vulnerable r adv ≠ .reported true := by
  have hm := distro_matchers_shape.2.1
  have hag : distAgree JoinMatchers.debian (debianUpdDist n v) (debianUpdDist n' v') = false := by
    cases h : distAgree JoinMatchers.debian (debianUpdDist n v) (debianUpdDist n' v') with
    | false => rfl
    | true => exact absurd ((debian_join_iff_same_release n n' v v').1 h) hne
  exact not_reported_of_disagree _ hm _ _ hag r adv hr hv opt inRange vulnerable

/-- Alpine, any stable release maj.min: an os-release whose keys are those of
    an Alpine image of that release (`ID=alpine`, `NAME="Alpine Linux"`,
    `PRETTY_NAME="Alpine Linux v<maj>.<min>"`, a dotted `VERSION_ID`) makes the
    scanner report a Distribution that agrees with
    `stableRelease{maj,min}.Distribution()` on every field the matcher
    constrains (DID, Name, PrettyName) — although the scanner fills `Version`
    and the updater `VersionID`. -/
theorem alpine_all_releases (m : KV) (maj min : Nat) (x : Bytes)
    (hid : get m kID = JoinReleases.alpine.distID) (hname : get m kNAME = JoinReleases.alpine.distName)
    (hp : get m kPRETTY_NAME = (alpineStableDist maj min).prettyName)
    (hv : beforeLastDot (get m kVERSION_ID) = some x) :
    ∃ d, alpineFromKV m = .dist d ∧ distAgree JoinMatchers.alpine d (alpineStableDist maj min) = true := by
  refine ⟨_, by simp [alpineFromKV, hid, hv]; rfl, ?_⟩
  rw [distAgree_iff JoinMatchers.alpine [.did, .name, .prettyName] alpine_query_typed]
  intro f hf
  simp only [List.mem_cons, List.mem_nil_iff, or_false] at hf
  rcases hf with rfl | rfl | rfl
  · show JoinReleases.alpine.distID = (alpineStableDist maj min).did
    simp [alpineStableDist, JoinReleases.alpine.stableDist, DistT.eval, SExpr.eval, JoinReleases.alpine.distID]
  · show get m kNAME = (alpineStableDist maj min).name
    rw [hname]
    simp [alpineStableDist, JoinReleases.alpine.stableDist, DistT.eval, SExpr.eval, JoinReleases.alpine.distName]
  · show get m kPRETTY_NAME = (alpineStableDist maj min).prettyName
    exact hp

/-- Alpine, any two stable releases: advisories of maj'.min' are joined by an
    image of maj.min only if the releases are equal. -/
theorem alpine_join_iff_same_release (a b a' b' : Nat) :
    distAgree JoinMatchers.alpine (alpineStableDist a b) (alpineStableDist a' b') = true ↔ (a = a' ∧ b = b') := by
  rw [distAgree_iff JoinMatchers.alpine [.did, .name, .prettyName] alpine_query_typed]
  constructor
  · intro h
    exact alpine_pretty_inj a b a' b' (h .prettyName (by simp))
  · rintro ⟨rfl, rfl⟩ f _
    rfl

/-- Ubuntu, any two releases whose version strings contain no space: the
    Version field `"<ver> (<Name>)"` joins only equal versions. -/
theorem ubuntu_join_same_version_partial (ver ver' name name' : Bytes)
    (hs : ∀ c ∈ ver, c ≠ 32) (hs' : ∀ c ∈ ver', c ≠ 32)
    (h : distAgree JoinMatchers.ubuntu (ubuntuUpdDist ver name) (ubuntuUpdDist ver' name') = true) :
    ver = ver' ∧ title name = title name' := by
  rw [distAgree_iff JoinMatchers.ubuntu [.did, .name, .version] ubuntu_query_typed] at h
  have hv := h .version (by simp)
  simp only [DField.get] at hv
  rw [ubuntu_version, ubuntu_version] at hv
  have := append_sep_inj 32 _ _ _ _ hs hs' hv
  refine ⟨this.1, ?_⟩
  have h2 := this.2
  simp only [List.cons.injEq, true_and] at h2
  exact List.append_cancel_right h2

/-! ## language ecosystems (OSV) -/

def matcherOf (dir : Bytes) : Option MatcherT := JoinMatchers.all.find? (fun m => m.pkg == dir)

/-- The record a language package scanner produces, as far as the matcher
    looks: the scanner's default repository, the scanner's package Kind, and
    (python) the pep440 version kind. -/
def langRecord (l : Bytes × Bytes × Repo × Bytes) (name : Bytes) : Rec :=
  { pkg := { name := name, kind := l.2.2.2,
             normKind := if l.1 == [112, 121, 116, 104, 111, 110] then JoinOsv.pep440Kind else [] },
    repo := some l.2.2.1 }

def langCheck (l : Bytes × Bytes × Repo × Bytes) : Bool :=
  match matcherOf l.1, osvRepo l.2.1 with
  | some m, some orepo =>
    let r := langRecord l [120]
    m.filter.eval r == some true && m.filter.nameFree &&
    m.queryOpt.isEmpty &&
    m.query.all (fun c => match repoConstraint c with
      | some f => f.get l.2.2.1 == f.get orepo
      | none => false) &&
    (osvPackage l.2.1 [120] [121] == ([120], l.2.2.2)) &&
    (JoinOsv.ecosystems.any fun p => p.2 == l.2.1)
  | _, _ => false

/-- language_repo_agree: for PyPI, Maven, RubyGems, npm and Go, the updater of
    the OSV ecosystem is not ignored, the repository it stamps
    (`LookupRepository(lower-cased ecosystem)`) equals the language scanner's
    default repository on every field the matcher's Query() constrains, the
    matcher's Filter accepts the scanner's record, advisories carry the
    package name (not the PURL) with the Kind the scanner reports. -/
theorem language_table_checked :
    JoinOsv.languages.length = 5 ∧ JoinOsv.languages.all langCheck = true := by
  decide +kernel

/-- Lifting: a package found by a language scanner (any name) and an advisory
    of the ecosystem naming it are joined; the verdict is the matcher's
    `Vulnerable`, or, for the matchers that declare database-side version
    filtering authoritative (gobin, nodejs), membership in the advisory's range. -/
theorem language_scan_reports :
    ∀ l ∈ JoinOsv.languages, ∃ m orepo, matcherOf l.1 = some m ∧ osvRepo l.2.1 = some orepo ∧
      ∀ (name : Bytes) (v : Vuln), name ≠ [] → v.repo = orepo →
        v.pkgName = name → v.pkgKind = (osvPackage l.2.1 name []).2 →
        ∀ inRange vulnerable, versionOk m.versionFilter inRange (langRecord l name) v = true →
          reported m false inRange vulnerable (langRecord l name) v =
            .reported (if m.versionFilter && m.authoritative then true else vulnerable) := by
  intro l hl
  have hall := language_table_checked.2
  simp only [List.all_eq_true] at hall
  have hc := hall l hl
  unfold langCheck at hc
  cases hm : matcherOf l.1 with
  | none => simp [hm] at hc
  | some m =>
    cases ho : osvRepo l.2.1 with
    | none => simp [hm, ho] at hc
    | some orepo =>
      simp only [hm, ho, Bool.and_eq_true, beq_iff_eq, List.all_eq_true, List.isEmpty_iff] at hc
      obtain ⟨⟨⟨⟨⟨hfil, hnf⟩, hopt⟩, hq⟩, hpk⟩, _⟩ := hc
      refine ⟨m, orepo, rfl, rfl, ?_⟩
      intro name v hname hvrepo hvn hvk ir vul hver
      -- the Filter does not depend on the package name
      have hfil' : m.filter.eval (langRecord l name) = some true := by
        have : langRecord l name = (langRecord l [120]).withName name := rfl
        rw [this, FExpr.eval_nameFree m.filter hnf]
        exact hfil
      have hkind : (osvPackage l.2.1 name []).2 = l.2.2.2 := by
        have : (osvPackage l.2.1 [120] [121]).2 = l.2.2.2 := by rw [hpk]
        simpa [osvPackage] using this
      have hnj : nameJoins (langRecord l name) v = true := by
        simp [nameJoins, langRecord, hvn, hvk, hkind, hname]
      have hcs : ∀ c ∈ m.query, constraintAgree c (langRecord l name) v = true := by
        intro c hcm
        have := hq c hcm
        cases hrc : repoConstraint c with
        | none => simp [hrc] at this
        | some f =>
          simp only [hrc, beq_iff_eq] at this
          rw [constraintAgree_repo c f hrc]
          simp [langRecord, hvrepo, this]
      have hg : getQuery m.query m.versionFilter ir (langRecord l name) v = .ok true := by
        rw [getQuery_true_iff]
        exact ⟨hnj, hcs, hver⟩
      simp [reported, hfil', hg]

/-! ## RHEL: repositories instead of distributions -/

/-- The key `rhel/repositoryscanner.go` stamps on scanned repositories (and the
    matcher's Filter tests) is the key `rhel/vex` stamps on advisories; the
    matcher's Query() compares that key and the package module, each with the
    same field of the advisory; the container matcher's Filter accepts the
    `rhcc.GoldRepo` the scanner (and, by reference, the VEX parser) uses, and
    its Query() compares the repository name. -/
theorem rhel_table_checked :
    JoinReleases.rhel.repositoryKey = JoinReleases.rhel.vexRepoKey ∧
    JoinMatchers.rhel.filter.eval { repo := some { key := JoinReleases.rhel.repositoryKey } } = some true ∧
    JoinMatchers.rhel.filter.nameFree = true ∧
    JoinMatchers.rhel.query.map constraintTyped =
      [some (.pkgModule, .pkgModule), some (.repo .key, .repo .key)] ∧
    JoinMatchers.rhel.queryOpt = [[72, 97, 115, 70, 105, 120, 101, 100, 73, 110, 86, 101, 114, 115, 105, 111, 110]] ∧
    JoinMatchers.rhel.versionFilter = false ∧
    JoinMatchers.rhcc.filter.eval { repo := some JoinReleases.rhel.goldRepo } = some true ∧
    JoinMatchers.rhcc.query.map repoConstraint = [some .name] := by
  decide +kernel

/-- A package found in a repository the RHEL repository scanner stamped (any
    CPE name) and a VEX advisory of the same module are joined whenever the
    advisory names the package, whatever the CPE: the CPE relation and the
    version are then decided by the matcher's `Vulnerable`. -/
theorem rhel_scan_reports (r : Rec) (v : Vuln) (x : Repo)
    (hr : r.repo = some x) (hk : x.key = JoinReleases.rhel.repositoryKey)
    (hv : v.repo.key = JoinReleases.rhel.vexRepoKey) (hm : v.pkgModule = r.pkg.module)
    (hn : nameJoins r v = true) (inRange vulnerable : Bool) :
    reported JoinMatchers.rhel false inRange vulnerable r v = .reported vulnerable := by
  obtain ⟨hkey, _, _, hq, _, hvf, _, _⟩ := rhel_table_checked
  have hfil : JoinMatchers.rhel.filter.eval r = some true := by
    have d1 : decodeRec [82, 101, 112, 111, 115, 105, 116, 111, 114, 121, 46, 75, 101, 121] = some (.repo .key) := by decide
    have hk' : x.key = [114, 104, 101, 108, 45, 99, 112, 101, 45, 114, 101, 112, 111, 115, 105, 116, 111, 114, 121] := by
      rw [hk]; decide
    simp [JoinMatchers.rhel, FExpr.eval, recField, d1, RField.get, RpField.get, hr, hk']
  have hcs : ∀ c ∈ JoinMatchers.rhel.query, constraintAgree c r v = true := by
    have hq1 : constraintTyped [80, 97, 99, 107, 97, 103, 101, 77, 111, 100, 117, 108, 101] = some (.pkgModule, .pkgModule) := by decide
    have hq2 : constraintTyped [82, 101, 112, 111, 115, 105, 116, 111, 114, 121, 75, 101, 121] = some (.repo .key, .repo .key) := by decide
    intro c hc
    have : c = [80, 97, 99, 107, 97, 103, 101, 77, 111, 100, 117, 108, 101] ∨ c = [82, 101, 112, 111, 115, 105, 116, 111, 114, 121, 75, 101, 121] := by
      simpa [JoinMatchers.rhel] using hc
    rcases this with rfl | rfl
    · rw [constraintAgree_typed _ _ _ hq1]
      simp [RField.get, VField.get, hm]
    · rw [constraintAgree_typed _ _ _ hq2]
      simp [RField.get, VField.get, RpField.get, hr, hk, hv, hkey]
  have hg : getQuery JoinMatchers.rhel.query JoinMatchers.rhel.versionFilter inRange r v = .ok true := by
    rw [getQuery_true_iff]
    exact ⟨hn, hcs, by simp [versionOk, hvf]⟩
  rw [hvf] at hg
  simp [reported, hfil, hg, hvf]

/-! ## several platforms in one definition, several records of one package -/

/-- Oracle: a definition that lists several platforms yields one advisory per
    KNOWN platform, each with that platform's own Distribution: every named
    release is reached, and no other. -/
theorem oracle_definition_reaches_every_platform (platforms : List Bytes) :
    (∀ p ∈ platforms, ∀ d, oraclePlatformDist p = some d → d ∈ oracleDefinitionDists platforms) ∧
    (∀ d ∈ oracleDefinitionDists platforms, ∃ p ∈ platforms, oraclePlatformDist p = some d) := by
  constructor
  · intro p hp d hd
    exact List.mem_filterMap.2 ⟨p, hp, hd⟩
  · intro d hd
    obtain ⟨p, hp, hpd⟩ := List.mem_filterMap.1 hd
    exact ⟨p, hp, hpd⟩

/-- A package indexed under several repositories / environments (one
    IndexRecord each): if ANY record passes the Filter, joins the advisory and
    is vulnerable, the advisory is reported — whichever position that record
    has — provided no record makes the Filter or the query builder panic. -/
theorem several_records_any_reports (m : MatcherT) (opt : Bool) (rs : List (Rec × Bool × Bool)) (v : Vuln)
    (hnp : ∀ x ∈ rs, m.filter.eval x.1 ≠ none)
    (hq : ∀ x ∈ rs, getQuery (if opt then m.query ++ m.queryOpt else m.query) m.versionFilter x.2.1 x.1 v ≠ .panic)
    (x : Rec × Bool × Bool) (hx : x ∈ rs) (hf : m.filter.eval x.1 = some true)
    (hj : getQuery (if opt then m.query ++ m.queryOpt else m.query) m.versionFilter x.2.1 x.1 v = .ok true)
    (hv : x.2.2 = true) :
    reportedMulti m opt rs v = .reported true := by
  unfold reportedMulti
  have h1 : (rs.any fun y => m.filter.eval y.1 == none) = false := by
    rw [List.any_eq_false]
    intro y hy
    cases h : m.filter.eval y.1 with
    | none => exact absurd h (hnp y hy)
    | some b => simp
  have hxi : x ∈ rs.filter fun y => m.filter.eval y.1 == some true := by
    rw [List.mem_filter]; exact ⟨hx, by simp [hf]⟩
  have h2 : (rs.filter fun y => m.filter.eval y.1 == some true).isEmpty = false := by
    cases h : rs.filter fun y => m.filter.eval y.1 == some true with
    | nil => rw [h] at hxi; cases hxi
    | cons a as => rfl
  simp only [h1, Bool.false_eq_true, if_false, h2]
  have h3 : ((rs.filter fun y => m.filter.eval y.1 == some true).map fun y =>
      getQuery (if opt then m.query ++ m.queryOpt else m.query) m.versionFilter y.2.1 y.1 v).any (· == .panic) = false := by
    rw [List.any_eq_false]
    intro q hqm
    obtain ⟨y, hy, rfl⟩ := List.mem_map.1 hqm
    have hne := hq y (List.mem_filter.1 hy).1
    cases h : getQuery (if opt then m.query ++ m.queryOpt else m.query) m.versionFilter y.2.1 y.1 v with
    | panic => exact absurd h hne
    | err => decide
    | ok t => cases t <;> decide
  have h4 : ((rs.filter fun y => m.filter.eval y.1 == some true).map fun y =>
      getQuery (if opt then m.query ++ m.queryOpt else m.query) m.versionFilter y.2.1 y.1 v).any (· == .ok true) = true := by
    rw [List.any_eq_true]
    exact ⟨_, List.mem_map.2 ⟨x, hxi, rfl⟩, by rw [hj]; decide⟩
  have h5 : ((rs.filter fun y => m.filter.eval y.1 == some true).any fun y => y.2.2) = true := by
    rw [List.any_eq_true]; exact ⟨x, hxi, hv⟩
  simp only [h3, h4, h5, Bool.false_eq_true, if_false, Bool.not_true]
  split <;> rfl

/-! ## histories: what the updater factories keep between runs

  The update manager calls `UpdaterSet` (an enumeration of the mirror) and then
  `Fetch`/`Parse` periodically, against mirrors that fail now and then.  The
  Debian updater stamps an advisory only if the process-wide release table
  knows its release; the table is written by the enumeration.  The theorems
  are about ALL histories of enumerations (with any outcome per request) and
  parses. -/

def opLoad : Bytes := [76, 111, 97, 100]
def opLoadOrStore : Bytes := [76, 111, 97, 100, 79, 114, 83, 116, 111, 114, 101]
def onlyLoadOrStore (ops : List (Bytes × Bytes)) : Bool := ops.all fun p => p.2 == opLoad || p.2 == opLoadOrStore

/-- Tie A: the process-wide release tables of debian, ubuntu, alpine and suse
    are only ever read (`Load`) and extended first-writer-wins (`LoadOrStore`):
    no `Store`, `Delete`, `Clear`, `Swap`, `Range`, and the variable is not
    handed to anything else.  In debian the one writer is `mkDist`, the one
    reader `getDist`. -/
theorem shared_tables_only_grow :
    JoinState.debian.tableOps = [([103, 101, 116, 68, 105, 115, 116], opLoad), ([109, 107, 68, 105, 115, 116], opLoadOrStore)] ∧
    onlyLoadOrStore JoinState.ubuntu.tableOps = true ∧ onlyLoadOrStore JoinState.alpine.tableOps = true ∧
    onlyLoadOrStore JoinState.suse.tableOps = true ∧
    JoinState.ubuntu.tableOps ≠ [] ∧ JoinState.alpine.tableOps ≠ [] ∧ JoinState.suse.tableOps ≠ [] := by
  decide +kernel

/-- Tie A: the shape `histStep` models.  `findReleases` never returns from
    inside its per-release loop (every failed request is logged and skipped),
    records a release by one `mkDist` call, the last statement of the loop body,
    and nowhere else; `Parse` looks a release up once and `continue`s when it
    is unknown. -/
theorem debian_enumeration_shape :
    JoinState.debian.loopReturns = 0 ∧ JoinState.debian.loopMkDistCalls = 1 ∧
    JoinState.debian.loopEndsWithMkDist = true ∧ JoinState.debian.otherMkDistCalls = 0 ∧
    JoinState.debian.parseSkipsUnknown = true ∧ JoinState.debian.parseGetDistCalls = 1 := by
  decide +kernel

/-- What the table knows it knows for ever, with the same version: no
    enumeration (whatever the listing and the Release requests do) and no parse
    removes or changes an entry. -/
theorem debian_table_monotone (evs : List HistEvent) (t : RelTable) (c : Bytes) (v : Int)
    (h : t.get c = some v) : (Sm.run histStep t evs).get c = some v :=
  histRun_mono evs t c v h

/-- A release whose Release file was read once, in any enumeration of the
    history (from any initial table), is stamped by a Parse that follows the
    history — however many enumerations in which its Release request failed,
    was skipped, or in which the listing itself failed came after. -/
theorem debian_every_listed_release_stamped_partial (t0 : RelTable) (evs : List HistEvent) (rs : List Bytes) (c : Bytes)
    (hread : readIn c evs) (hc : c ∈ rs) :
    ∃ w st, (histStep (Sm.run histStep t0 evs) (.parse rs)).2 = .parsed st ∧ (c, debianUpdDist c w) ∈ st := by
  obtain ⟨w, hw⟩ := histRun_known evs t0 c hread
  exact ⟨w, _, rfl, mem_filterMap_stamp _ rs c w hc hw⟩

/-- The full statement — every release the mirror LISTS is stamped — fails on
    the code: when the one request for `dists/<c>/Release` fails, the
    enumeration succeeds, and the Parse that follows drops every advisory of
    `c` (finding `debian-release-fault-drops`). -/
theorem debian_every_listed_release_stamped_counterexample (c : Bytes) :
    (histStep (Sm.run histStep [] [.enumerate true [(c, .fault)]]) (.parse [c])).2 = .parsed [] := by
  simp [Sm.run, histStep, RelTable.learn, stampOne, RelTable.get]

/-- The Distribution stamped for a release never changes: once a Parse can
    stamp `c` with version `w`, every Parse after any further history stamps
    it with the same Distribution. -/
theorem debian_stamp_stable (t : RelTable) (evs : List HistEvent) (rs : List Bytes) (c : Bytes) (w : Int)
    (h : t.get c = some w) (hc : c ∈ rs) :
    ∃ st, (histStep (Sm.run histStep t evs) (.parse rs)).2 = .parsed st ∧ (c, debianUpdDist c w) ∈ st :=
  ⟨_, rfl, mem_filterMap_stamp _ rs c w hc (histRun_mono evs t c w h)⟩

/-- End to end over a history: if the table knows `c` with version `w`, then
    after any history an image whose os-release says code name `c`, version
    `w` is given exactly the Distribution the Parse stamps on `c`'s advisories
    (so `debian_all_releases_reported` applies: the verdict is the matcher's
    `Vulnerable`). -/
theorem debian_image_joins_after_history (t : RelTable) (evs : List HistEvent) (rs : List Bytes)
    (m : KV) (c : Bytes) (w : Int) (h : t.get c = some w) (hc : c ∈ rs)
    (hid : get m kID = [100, 101, 98, 105, 97, 110]) (hn : lookup m kVERSION_CODENAME = some c) (hne : c ≠ [])
    (hv : get m kVERSION_ID = itoa w) (hr : ClairModel.Bytes.inInt32 w) :
    ∃ d st, debianFromKV m = .dist d ∧
      (histStep (Sm.run histStep t evs) (.parse rs)).2 = .parsed st ∧ (c, d) ∈ st := by
  obtain ⟨st, h1, h2⟩ := debian_stamp_stable t evs rs c w h hc
  exact ⟨_, st, debian_all_releases m c w hid hn hne hv hr, h1, h2⟩

/-- Tie A: `alpine.Factory.UpdaterSet` assigns its state (`cur`, `etag`,
    `stamp`) only after the walk over the release directories has finished;
    every `default:` arm of the walk's status switches (an answer that is
    neither 200 nor 404) sets `incomplete`, and `if incomplete { return … }`
    stands between the walk and the assignments. -/
theorem alpine_state_written_after_walk :
    JoinState.alpine.stateWrites = [[99, 117, 114], [101, 116, 97, 103], [115, 116, 97, 109, 112]] ∧
    JoinState.alpine.stateWritesAfterWalk = true ∧
    JoinState.alpine.unexpectedStatusMarksIncomplete = true ∧ JoinState.alpine.incompleteReturnsBeforeStateWrites = true := by
  decide +kernel

/-- The Alpine factory (after fix 9c7e43c2): the state (stamp, etag, set)
    changes only by a COMPLETE walk under a new stamp — a failed `last-update`
    request, a 304, an unchanged stamp, a walk that hit a request error, and a
    walk in which some answer was neither 200 nor 404 leave the previous
    enumeration in place; and the set a successful `UpdaterSet` hands out is
    the factory's current set, or the result of such an incomplete walk. -/
theorem alpine_factory_keeps_last_completed_walk (s : AlpState) (e : AlpEvent) :
    (∀ ns, (alpStep s e).2 = .set ns →
      (alpStep s e).1.cur = ns ∨ (∃ st etag, e = .stampIs st etag (some (ns, false)) ∧ (alpStep s e).1 = s)) ∧
    ((alpStep s e).1 ≠ s → ∃ st etag found, e = .stampIs st etag (some (found, true)) ∧ s.stamp ≠ some st ∧
        (alpStep s e).1 = { stamp := some st, etag := etag, cur := found }) :=
  ⟨fun ns h => alpStep_set_is_cur s e ns h, alpStep_cur_change s e⟩

/-- A release left out because its directory answered 5xx does not stay out:
    the incomplete walk is not cached, so the next call — same `last-update`
    stamp, the mirror answering again — walks again and finds it.  (Before the
    fix the first set was stored with the stamp and handed out until the stamp
    changed.) -/
theorem alpine_skipped_release_comes_back (s : AlpState) (st : Nat) (etag : Bytes) (part full : List Bytes)
    (hnew : alpKeeps s st etag = false) :
    let s1 := (alpStep s (.stampIs st etag (some (part, false)))).1
    s1 = s ∧ (alpStep s1 (.stampIs st etag (some (full, true)))).2 = .set full := by
  simp [alpStep, hnew]

/-- A walk over a mirror that serves `v3.3/ … v3.<k>/` contiguously (and
    nothing else) finds exactly these releases: instance for k = 5 with
    `main.json` everywhere and `community.json` from 3.4 on; with a 5xx on
    `v3.4/` the release is left out and the walk is marked incomplete. -/
example : alpWalk (fun maj min => if maj == 3 && 3 ≤ min && min ≤ 5 then .ok else .notFound)
    (fun rel repo => if repo == [109, 97, 105, 110] || (repo == [99, 111, 109, 109, 117, 110, 105, 116, 121] && rel != [118, 51, 46, 51] && rel != [101, 100, 103, 101]) then .ok else .notFound) 16
    = some ([alpUpdaterName [109, 97, 105, 110] [118, 51, 46, 51],
            alpUpdaterName [109, 97, 105, 110] [118, 51, 46, 52], alpUpdaterName [99, 111, 109, 109, 117, 110, 105, 116, 121] [118, 51, 46, 52],
            alpUpdaterName [109, 97, 105, 110] [118, 51, 46, 53], alpUpdaterName [99, 111, 109, 109, 117, 110, 105, 116, 121] [118, 51, 46, 53],
            alpUpdaterName [109, 97, 105, 110] [101, 100, 103, 101]], true) := by
  decide +kernel

example : alpWalk (fun maj min => if maj == 3 && min == 4 then .other else if maj == 3 && 3 ≤ min && min ≤ 5 then .ok else .notFound)
    (fun _ repo => if repo == [109, 97, 105, 110] then .ok else .notFound) 16
    = some ([alpUpdaterName [109, 97, 105, 110] [118, 51, 46, 51], alpUpdaterName [109, 97, 105, 110] [118, 51, 46, 53],
            alpUpdaterName [109, 97, 105, 110] [101, 100, 103, 101]], false) := by
  decide +kernel

/-- Tie A: `osv.Factory.UpdaterSet` answers a 304 with the stored set
    (`case http.StatusNotModified: s = f.cur`) and stores etag and set together,
    once, only when the body was read without error. -/
theorem osv_factory_shape :
    JoinState.osv.notModifiedHandsOutCur = true ∧ JoinState.osv.etagStoredWithCompleteSet = true := by
  decide +kernel

/-- The OSV factory over any history (after fix 0fa08085), against a bucket
    whose validator determines its content: every successful `UpdaterSet` call
    hands out the updaters of exactly the ecosystems the bucket lists at that
    moment — also when the conditional request is answered 304, and also after
    calls that failed or whose body broke off.  (Before the fix a 304 yielded
    the empty set.) -/
theorem osv_factory_hands_out_listed_ecosystems (content : Bytes → List Bytes)
    (evs : List (Option (Bytes × Bool))) (etag : Bytes) (ok : Bool) (ns : List Bytes)
    (hout : (osvStep (Sm.run osvStep {} (evs.map (osvEvOf content))) (.listing etag (content etag) ok)).2 = .set ns) :
    ns = osvUpdaterNames (content etag) :=
  osvStep_answer content _ etag ok ns (osvRun_inv content evs {} (Or.inl rfl)) hout

/-! ## structure of the sources the join relies on -/

/-- The Debian and Ubuntu distribution scanners construct their result with
    `newDist`, not with `mkDist`: scanning an image does not write the release
    map the updater reads (see the fix recorded in findings/C04.txt), and
    `mkDist` records exactly `newDist` of its own arguments (checked by the
    extractor), keyed by its first parameter. -/
theorem scanners_do_not_record :
    JoinReleases.debian.scannerCtor = [110, 101, 119, 68, 105, 115, 116] ∧
    JoinReleases.ubuntu.scannerCtor = [110, 101, 119, 68, 105, 115, 116] ∧
    JoinReleases.debian.mkDistKey = [112, 97, 114, 97, 109, 32, 48] ∧
    JoinReleases.ubuntu.mkDistKey = [112, 97, 114, 97, 109, 32, 48] := by
  decide +kernel

/-- Every release an updater set creates an updater for has a Distribution in
    `releaseToDist` (no advisory is stamped with the empty Distribution), and
    every OVAL platform of Oracle's table names the release of the
    Distribution it maps to (`Oracle Linux <Version>`). -/
theorem updater_releases_have_distribution :
    (∀ rel ∈ JoinReleases.aws.releases, ∃ var, lookupFirst JoinReleases.aws.releaseToDist rel = some var ∧
        (lookupFirst JoinReleases.aws.dists var).isSome = true) ∧
    (∀ rel ∈ JoinReleases.photon.releases, ∃ var, lookupFirst JoinReleases.photon.releaseToDist rel = some var ∧
        (lookupFirst JoinReleases.photon.dists var).isSome = true) ∧
    (∀ p ∈ JoinReleases.oracle.platformToDist, ∃ d, oraclePlatformDist p.1 = some d ∧ p.1 = oraclePlatform d.version) := by
  decide +kernel

def dflt (s : Bytes) : Bool := JoinMatchers.defaultSet.contains s

/-- matchers/defaults registers a matcher for every distribution and language
    ecosystem of this property … -/
theorem default_matchers_cover :
    dflt [97, 108, 112, 105, 110, 101] = true ∧ dflt [97, 119, 115] = true ∧ dflt [100, 101, 98, 105, 97, 110] = true ∧
    dflt [117, 98, 117, 110, 116, 117] = true ∧ dflt [111, 114, 97, 99, 108, 101] = true ∧ dflt [112, 104, 111, 116, 111, 110] = true ∧
    dflt [115, 117, 115, 101] = true ∧ dflt [114, 104, 101, 108] = true ∧ dflt [114, 104, 99, 99] = true ∧
    dflt [112, 121, 116, 104, 111, 110] = true ∧ dflt [106, 97, 118, 97] = true ∧ dflt [114, 117, 98, 121] = true ∧
    dflt [103, 111, 98, 105, 110] = true := by
  decide +kernel

/-- … except npm: `nodejs.Matcher` exists and agrees with the OSV `npm`
    repository (`language_table_checked`), but it is not in the default set, so
    with the defaults an npm advisory reaches no package (finding
    `npm-not-in-defaults`). -/
theorem default_matchers_cover_npm_counterexample :
    dflt [110, 111, 100, 101, 106, 115] = false := by
  decide +kernel

/-! ## the hypotheses are satisfiable -/

/-- The tables are not empty and contain what one expects: Alpine 3.18,
    Debian 12, Ubuntu 22.04 each have a row whose scanner result is a
    Distribution. -/
example : (alpineRows.any fun row => row.rel == [51, 46, 49, 56] && isDist row.scan) = true ∧
    (debianRows.any fun row => row.rel == [49, 50] && isDist row.scan) = true ∧
    (ubuntuRows.any fun row => row.rel == [50, 50, 46, 48, 52] && isDist row.scan) = true := by
  decide +kernel

def exBookworm : Bytes := [98, 111, 111, 107, 119, 111, 114, 109]
def exKV : KV := [(kID, [100, 101, 98, 105, 97, 110]), (kVERSION_CODENAME, exBookworm), (kVERSION_ID, [49, 50])]

/-- `debian_all_releases` applies to the keys of a Debian 12 os-release. -/
example : get exKV kID = [100, 101, 98, 105, 97, 110] ∧ lookup exKV kVERSION_CODENAME = some exBookworm ∧
    get exKV kVERSION_ID = itoa 12 ∧ debianFromKV exKV = .dist (debianUpdDist exBookworm 12) := by
  decide +kernel

def exRec : Rec :=
  { pkg := { name := [108, 105, 98, 115, 115, 108, 51], kind := [98, 105, 110, 97, 114, 121],
             src := some ([111, 112, 101, 110, 115, 115, 108], [115, 111, 117, 114, 99, 101]) },
    dist := some (debianUpdDist exBookworm 12) }

def exVuln : Vuln :=
  { pkgName := [111, 112, 101, 110, 115, 115, 108], pkgKind := [115, 111, 117, 114, 99, 101],
    dist := debianUpdDist exBookworm 12 }

/-- A complete instance of `scan_reports_vulnerable`: Debian 12, package
    `libssl3` built from `openssl`, advisory naming the source package. -/
example : nameJoins exRec exVuln = true ∧
    reported JoinMatchers.debian false false true exRec exVuln = .reported true ∧
    reported JoinMatchers.debian false false false exRec exVuln = .reported false := by
  decide +kernel

end ClairModel.Props.C04
