/-
  C02 — Package discovery is exact for well-formed package databases.

  Theorems about the models of the parsers the repository wrote itself
  (Model/Rfc822.lean = the contract of net/textproto.ReadMIMEHeader,
  Model/Dpkg.lean = dpkg/scanner.go parseStatus and the distroless loop).
  The models are tied to the code by the differential run of go/internal/c02
  (real `Scanner.Scan` on tar layers vs. the model on the same file bytes, and
  real `ReadMIMEHeader` call sequences vs. `calls`).

  Writers are spelled out in Proofs/Rfc822.lean (`Field`, `fieldsLines`) and
  Proofs/Dpkg.lean (`Block`, `docBytes`): a document is any number of leading
  empty lines, stanzas of legal fields in any order — each field with any
  spaces/tabs after the colon and any number of continuation lines — followed
  by one or more empty lines, and optionally a last stanza with nothing after
  it, with or without the final newline.
-/
import ClairModel.Proofs.Dpkg
import ClairModel.Proofs.Apk
import ClairModel.Proofs.OsRelease
import ClairModel.Proofs.PyMeta
import ClairModel.Proofs.RpmPkg
import ClairModel.Proofs.GoBin
import ClairModel.Proofs.Jar
import ClairModel.Proofs.RhelRepo
import ClairModel.Proofs.DistScan
import ClairModel.Proofs.LangScan
import ClairModel.Gen.C02Tables

-- every variable of a property statement is bound explicitly: a misspelt name is an error, not a new variable
set_option autoImplicit false

namespace ClairModel.Props.C02
open ClairModel ClairModel.Bytes ClairModel.Rfc822 ClairModel.Dpkg

/-! ## net/textproto contract -/

/-- A written stanza followed by `gap + 1` empty lines is returned by one
    `ReadMIMEHeader` call as exactly its fields (canonical key, folded value,
    in order) with a nil error; the extra empty lines are empty headers. -/
theorem mime_reads_written_stanza (fs : List Field) (hw : ∀ f ∈ fs, f.WF) (gap : Nat) (rest : List Bytes) :
    callsFrom .start (fieldsLines fs ++ List.replicate (gap + 1) [] ++ rest) =
      ⟨hdrOf fs, .ok⟩ :: (List.replicate gap ⟨[], .ok⟩ ++ callsFrom .start rest) :=
  callsFrom_stanza fs hw gap rest

/-- A stanza at the very end of the file (no empty line after it) is returned
    together with `io.EOF` — the case `parseStatus` used to drop. -/
theorem mime_last_stanza_with_eof (fs : List Field) (hw : ∀ f ∈ fs, f.WF) :
    callsFrom .start (fieldsLines fs) = [⟨hdrOf fs, .eof⟩] :=
  callsFrom_last_stanza fs hw

/-- Splitting the bytes of a document into lines gives the written lines back,
    also when the final newline is missing after a last stanza. -/
theorem lines_of_document (lead : Nat) (bs : List Block) (last : Option (List Field)) (fn : Bool)
    (hb : ∀ b ∈ bs, b.fields ≠ [] ∧ ∀ f ∈ b.fields, f.WF)
    (hw : ∀ fs, last = some fs → fs ≠ [] ∧ ∀ f ∈ fs, f.WF)
    (hfn : fn = false → last ≠ none) :
    splitLines (docBytes lead bs last fn) = docLines lead bs last :=
  splitLines_docBytes lead bs last fn hb hw hfn

/-! ## dpkg status -/

/-- `parseStatus` on the bytes of any document is the fold of the loop body over
    the headers of its stanzas, in order: no stanza is skipped, merged or split,
    whatever the blank-line runs, and the last stanza counts with or without a
    blank line (or even a newline) after it. -/
theorem dpkg_parse_is_fold_of_stanzas (lead : Nat) (bs : List Block) (last : Option (List Field)) (fn : Bool)
    (hb : ∀ b ∈ bs, b.fields ≠ [] ∧ ∀ f ∈ b.fields, f.WF)
    (hw : ∀ fs, last = some fs → fs ≠ [] ∧ ∀ f ∈ fs, f.WF)
    (hfn : fn = false → last ≠ none) :
    parseStatus (docBytes lead bs last fn) = foldHdrs PState.empty (docHdrs bs last) := by
  unfold parseStatus calls
  rw [splitLines_docBytes lead bs last fn hb hw hfn]
  exact parseEvents_docLines lead bs last hb hw

/-- Exactness (partial): if the stanzas of a document state the entries `es`
    (header by header), installed entries are legal, no two installed entries
    share a name and installed entries naming the same source agree on its
    version, then scanning the document reports exactly the installed entries —
    none missing, none invented, fields as stated, in file order.

    The two extra hypotheses are needed: see the counterexamples below. -/
theorem dpkg_scan_exact_partial (lead : Nat) (bs : List Block) (last : Option (List Field)) (fn : Bool)
    (es : List Entry)
    (hb : ∀ b ∈ bs, b.fields ≠ [] ∧ ∀ f ∈ b.fields, f.WF)
    (hw : ∀ fs, last = some fs → fs ≠ [] ∧ ∀ f ∈ fs, f.WF)
    (hfn : fn = false → last ≠ none)
    (hst : AllStates (docHdrs bs last) es)
    (hwf : ∀ e ∈ es, e.installed = true → e.WF)
    (hnd : NoDupNames es) (hag : SourcesAgree es) :
    scanDb (docBytes lead bs last fn) = some (installedPkgs es) := by
  obtain ⟨src, h⟩ := foldHdrs_exact _ es hst hwf hnd hag
  simp [scanDb, dpkg_parse_is_fold_of_stanzas lead bs last fn hb hw hfn, h]

/-- Nothing is invented, for every file whatsoever (well-formed or not):
    each reported package has the name, version and architecture of one header
    `ReadMIMEHeader` returned whose Status holds the words `ok` and `installed`,
    and all three are non-empty. -/
theorem dpkg_nothing_invented (file : Bytes) (pkgs : List Pkg) (h : scanDb file = some pkgs) :
    ∀ p ∈ pkgs, ∃ e ∈ calls file, FromHdr p e.hdr := by
  unfold scanDb at h
  cases hp : parseStatus file with
  | ok ps =>
    rw [hp] at h
    simp only [Option.some.injEq] at h
    subst h
    intro p hpm
    rcases parseEvents_sound (calls file) PState.empty ps hp p hpm with h1 | h1
    · simp [PState.empty] at h1
    · exact h1
  | notDb =>
    rw [hp] at h
    simp only [Option.some.injEq] at h
    subst h
    intro p hpm; simp at hpm
  | fail => rw [hp] at h; cases h

/-- The Status test over the whole dpkg vocabulary (`want flag state`): an entry
    counts as installed exactly when the flag is `ok` and the state is
    `installed`, for every `want` (a held package is installed). -/
theorem dpkg_status_table :
    ∀ want ∈ [asc "install", asc "hold", asc "deinstall", asc "purge", asc "unknown"],
    ∀ flag ∈ [asc "ok", asc "reinstreq"],
    ∀ state ∈ [asc "not-installed", asc "config-files", asc "half-installed", asc "unpacked",
               asc "half-configured", asc "triggers-awaited", asc "triggers-pending", asc "installed"],
      statusInstalled (want ++ 32 :: flag ++ 32 :: state) =
        (flag == asc "ok" && state == asc "installed") := by
  decide

/-- Entries that are not installed are not reported (under the hypotheses of
    the exactness theorem the report is the installed entries only). -/
theorem dpkg_not_installed_not_reported (es : List Entry) (p : Pkg) (h : p ∈ installedPkgs es) :
    ∃ e ∈ es, e.installed = true ∧ p = e.pkg := by
  simp only [installedPkgs, List.mem_map, List.mem_filter] at h
  obtain ⟨e, ⟨he, hi⟩, rfl⟩ := h
  exact ⟨e, he, hi, rfl⟩

/-- The distroless scanner on one `status.d` file whose stanzas are separated by
    single empty lines: one package per stanza, in order, with the fields of
    that stanza (`Source: name (version)` split, the repaired defect), whatever
    the Status field says; the last stanza counts without a blank line after it. -/
theorem distroless_file_exact (bs : List Block) (last : Option (List Field)) (fn : Bool)
    (hb : ∀ b ∈ bs, b.fields ≠ [] ∧ ∀ f ∈ b.fields, f.WF)
    (hg : ∀ b ∈ bs, b.gap = 0)
    (hw : ∀ fs, last = some fs → fs ≠ [] ∧ ∀ f ∈ fs, f.WF)
    (hfn : fn = false → last ≠ none) :
    distrolessFile (docBytes 0 bs last fn) = (docHdrs bs last).map distrolessPkg := by
  unfold distrolessFile calls
  rw [splitLines_docBytes 0 bs last fn hb hw hfn, callsFrom_docLines 0 bs last hb hw]
  simp only [List.replicate_zero, List.nil_append]
  exact distrolessEvents_blocks bs last (fun b hbm => ⟨(hb b hbm).1, hg b hbm⟩) (fun fs h => (hw fs h).1)

/-- The repaired defect on the shape found in distroless/cc images. -/
example : distrolessPkg [(kPackage, asc "libgcc-s1"), (kSource, asc "gcc-10 (10.2.1-6)"),
    (kVersion, asc "10.2.1-6"), (kArchitecture, asc "amd64")] =
    ⟨asc "libgcc-s1", asc "10.2.1-6", asc "amd64", asc "gcc-10", asc "10.2.1-6"⟩ := by decide

/-! ### the full-strength statement is false: recorded findings -/

def hdrLibc (arch : Bytes) : Hdr :=
  [(kPackage, asc "libc6"), (kStatus, asc "install ok installed"),
   (kArchitecture, arch), (kVersion, asc "2.31-13")]

/-- Without `NoDupNames`: the two stanzas of a multi-arch package (same name,
    both installed) collapse into one report — the `bin` map is keyed by name
    (finding `dpkg-multiarch-dup`). -/
theorem dpkg_multiarch_counterexample :
    foldHdrs PState.empty [hdrLibc (asc "amd64"), hdrLibc (asc "i386")] =
      .ok ⟨[⟨asc "libc6", asc "2.31-13", asc "i386", asc "libc6", asc "2.31-13"⟩], []⟩ := by
  decide

def hdrSrc (name ver : String) : Hdr :=
  [(kPackage, asc name), (kStatus, asc "install ok installed"),
   (kArchitecture, asc "all"), (kVersion, asc "5"), (kSource, asc ("s (" ++ ver ++ ")"))]

/-- Without `SourcesAgree`: binary `b` stating `Source: s (2.0)` is reported
    with source version `1.0` taken from an earlier stanza — the `src` map is
    keyed by source name (finding `dpkg-source-version-by-name`). -/
theorem dpkg_source_version_counterexample :
    foldHdrs PState.empty [hdrSrc "a" "1.0", hdrSrc "b" "2.0"] =
      .ok ⟨[⟨asc "a", asc "5", asc "all", asc "s", asc "1.0"⟩, ⟨asc "b", asc "5", asc "all", asc "s", asc "1.0"⟩],
           [(asc "s", asc "1.0")]⟩ := by
  decide

/-! ### the writer side is inhabited and order-free -/

/-- A single-line field written with any spaces/tabs after the colon denotes
    its clean value. -/
theorem simple_field_denotes_value (k sep v : Bytes) (hs : ∀ c ∈ sep, isWs c = true) (hc : Clean v) :
    (simpleField k sep v).value = v :=
  simpleField_value k sep v hs hc

/-- A stanza written as ANY permutation of the fields `Package`, `Status`,
    `Version`, `Architecture` (and `Source` when the entry has one) and any
    other fields (any keys that are not one of these five after
    canonicalisation, any continuation lines), each of the five on one line
    with any spaces/tabs after the colon, states its entry — the hypothesis
    `AllStates` of the exactness theorem holds for every such writer. -/
theorem dpkg_stanza_any_field_order (e : Entry) (status : Bytes) (seps : Fin 5 → Bytes) (extras fs : List Field)
    (hperm : fs.Perm (stdFields e status seps ++ extras))
    (hex : ∀ x ∈ extras, canonLoop true x.key ∉ reservedKeys)
    (hseps : ∀ i, ∀ c ∈ seps i, isWs c = true)
    (hst : statusInstalled status = e.installed)
    (cn : Clean e.name) (cv : Clean e.version) (ca : Clean e.arch) (cs : Clean status) (csrc : Clean e.sourceField) :
    States (hdrOf fs) e :=
  states_of_written e status seps extras fs hperm hex hseps hst cn cv ca cs csrc

/-- Field order is irrelevant: if a key occurs in a stanza's header with a
    single value, `Get` returns it wherever the field stands. -/
theorem field_order_irrelevant (h h' : Hdr) (k v : Bytes) (hp : h.Perm h') (hu : Hdr.Unique h k v) :
    h'.get k = v := by
  apply Hdr.get_of_unique
  exact ⟨(hp.mem_iff).1 hu.1, fun v' hv' => hu.2 v' ((hp.mem_iff).2 hv')⟩

/-- a three-stanza file: continuation line, blank-line run, `Source: x (1.2)`,
    a not-installed stanza, no newline at the end -/
def exampleStatus : Bytes :=
  joinLines [asc "Package: a", asc "Status: install ok installed", asc "Version: 1:2", asc "Architecture: i386",
    asc "Source: x (1.2)", asc "Description: s", asc " long", asc " .", [], [],
    asc "Package: g", asc "Status: purge ok config-files", [],
    asc "Package: b", asc "Status: hold ok installed", asc "Version: 2~"] ++ asc "Architecture: all"

set_option maxRecDepth 8192 in
/-- Sanity: on that file the model evaluates to the two installed packages. -/
example : scanDb exampleStatus =
    some [⟨asc "a", asc "1:2", asc "i386", asc "x", asc "1.2"⟩, ⟨asc "b", asc "2~", asc "all", asc "b", asc "2~"⟩] := by
  decide

/-! ### the hypotheses of the exactness theorem are satisfiable -/

def exFields (name status version arch : String) (extra : List Field) : List Field :=
  [simpleField kPackage [32] (asc name), simpleField kStatus [32] (asc status)] ++ extra ++
  [simpleField kVersion [9] (asc version), simpleField (asc "architecture") [] (asc arch)]

def exBlocks : List Block :=
  [⟨exFields "a" "install ok installed" "1:2" "i386"
      [simpleField kSource [32] (asc "x (1.2)"), ⟨asc "Description", [32], asc "s", [asc " long", asc " ."]⟩], 1⟩,
   ⟨exFields "g" "purge ok config-files" "3" "all" [], 0⟩]

def exLast : List Field := exFields "b" "hold ok installed" "2~" "all" []

def exEntries : List Entry :=
  [⟨asc "a", asc "1:2", asc "i386", true, some (asc "x", some (asc "1.2"))⟩,
   ⟨asc "g", asc "3", asc "all", false, none⟩,
   ⟨asc "b", asc "2~", asc "all", true, none⟩]

theorem exFields_wf : (∀ b ∈ exBlocks, b.fields ≠ [] ∧ ∀ f ∈ b.fields, f.WF) ∧ (exLast ≠ [] ∧ ∀ f ∈ exLast, f.WF) := by
  have wf : ∀ f : Field, f.key ≠ [] → f.key.all validFieldByte = true → f.sep.all isWs = true →
      f.first.all validValueByte = true → f.conts.all (fun l => startsWs l && l.all validValueByte) = true → f.WF := by
    intro f h1 h2 h3 h4 h5
    simp only [List.all_eq_true, Bool.and_eq_true] at h2 h3 h4 h5
    exact ⟨h1, h2, h3, h4, fun l hl => (h5 l hl).1, fun l hl => (h5 l hl).2⟩
  refine ⟨?_, ?_, ?_⟩
  · intro b hb
    simp only [exBlocks, List.mem_cons, List.mem_nil_iff, or_false] at hb
    rcases hb with rfl | rfl
    · refine ⟨by simp [exFields], ?_⟩
      intro f hf
      simp only [exFields, List.cons_append, List.nil_append, List.mem_cons, List.mem_nil_iff, or_false] at hf
      rcases hf with rfl | rfl | rfl | rfl | rfl | rfl <;> (apply wf <;> decide)
    · refine ⟨by simp [exFields], ?_⟩
      intro f hf
      simp only [exFields, List.cons_append, List.nil_append, List.append_nil, List.mem_cons, List.mem_nil_iff, or_false] at hf
      rcases hf with rfl | rfl | rfl | rfl <;> (apply wf <;> decide)
  · simp [exLast, exFields]
  · intro f hf
    simp only [exLast, exFields, List.cons_append, List.nil_append, List.append_nil, List.mem_cons, List.mem_nil_iff, or_false] at hf
    rcases hf with rfl | rfl | rfl | rfl <;> (apply wf <;> decide)

/-- Non-vacuity: a three-stanza document — blank-line run, tab and empty
    separators, a lower-case key, a folded Description, `Source: x (1.2)`, a
    not-installed stanza, no newline at the end — meets every hypothesis of
    `dpkg_scan_exact_partial`; the theorem gives its two installed packages. -/
example : scanDb (docBytes 1 exBlocks (some exLast) false) = some (installedPkgs exEntries) := by
  apply dpkg_scan_exact_partial 1 exBlocks (some exLast) false exEntries exFields_wf.1
  · intro fs h; cases h; exact exFields_wf.2
  · intro _ h; cases h
  · refine .cons ⟨?_, ?_, ?_, ?_, ?_⟩ (.cons ⟨?_, ?_, ?_, ?_, ?_⟩ (.cons ⟨?_, ?_, ?_, ?_, ?_⟩ .nil)) <;> decide
  · intro e he hi
    simp only [exEntries, List.mem_cons, List.mem_nil_iff, or_false] at he
    rcases he with rfl | rfl | rfl
    · refine ⟨by decide, by decide, by decide, ?_⟩
      intro n v h; cases h
      exact ⟨by decide, by decide, fun w hw => by cases hw; decide⟩
    · cases hi
    · refine ⟨by decide, by decide, by decide, ?_⟩
      intro n v h; cases h
  · unfold NoDupNames exEntries
    refine List.pairwise_cons.2 ⟨?_, List.pairwise_cons.2 ⟨?_, List.pairwise_cons.2 ⟨?_, List.Pairwise.nil⟩⟩⟩
    · intro b hb
      simp only [List.mem_cons, List.mem_nil_iff, or_false] at hb
      rcases hb with rfl | rfl <;> decide
    · intro b hb
      simp only [List.mem_cons, List.mem_nil_iff, or_false] at hb
      rcases hb with rfl <;> decide
    · intro b hb; simp at hb
  · unfold SourcesAgree exEntries
    refine List.pairwise_cons.2 ⟨?_, List.pairwise_cons.2 ⟨?_, List.pairwise_cons.2 ⟨?_, List.Pairwise.nil⟩⟩⟩
    · intro b hb
      simp only [List.mem_cons, List.mem_nil_iff, or_false] at hb
      rcases hb with rfl | rfl <;> (intro _ _ n v w _ h2; simp [Entry.explicitSrc] at h2)
    · intro b hb
      simp only [List.mem_cons, List.mem_nil_iff, or_false] at hb
      rcases hb with rfl
      intro _ _ n v w _ h2; simp [Entry.explicitSrc] at h2
    · intro b hb; simp at hb

/-! ## apk installed -/

section apk
open ClairModel.Apk

/-- `Scan` on a written database (records of `K:value` lines, each record
    followed by an empty line) applies every line of every record, in order,
    to that record's package: no record is dropped or merged, and the last
    line of a record counts (the repaired defect). -/
theorem apk_scan_is_fold_of_records (rs : List (List Apk.Line))
    (hw : ∀ r ∈ rs, r ≠ [] ∧ ∀ l ∈ r, l.WF) :
    Apk.scan (Apk.render rs) = scanRecords [] rs := by
  unfold Apk.scan
  exact scanEntries_render rs hw []

/-- Exactness (partial): records written in apk's own order (`P V A [o] [c]`
    with any other lines anywhere, values padded with any white space) are
    reported exactly — one package per record, in order, with name, version,
    architecture, commit and origin as written and the origin's version equal
    to the package's — provided packages of one origin carry one version. -/
theorem apk_scan_exact_partial (rs : List Apk.Record) (hw : ∀ r ∈ rs, r.WF)
    (hl : ∀ r ∈ rs, ∀ l ∈ r.lines, l.WF) (hag : OriginsAgree (rs.map (·.e))) :
    Apk.scan (Apk.render (rs.map Apk.Record.lines)) = rs.map (fun r => r.e.pkg) := by
  rw [apk_scan_is_fold_of_records]
  · exact scanRecords_exact rs hw hag [] (by intro e _ o x _ h; simp [Apk.lookupSrc] at h)
  · intro ls hls
    obtain ⟨r, hr, rfl⟩ := List.mem_map.1 hls
    refine ⟨?_, hl r hr⟩
    simp [Apk.Record.lines]

/-- Without `OriginsAgree`: the second package of an origin is reported with
    the first one's version as its source version (finding
    `apk-origin-version-by-name`). -/
theorem apk_origin_version_counterexample :
    Apk.scan (joinLines [asc "P:a", asc "V:1", asc "o:s", [], asc "P:b", asc "V:2", asc "o:s", []]) =
      [⟨asc "a", asc "1", [], [], some (asc "s", asc "1")⟩, ⟨asc "b", asc "2", [], [], some (asc "s", asc "1")⟩] := by
  decide

/-- Outside apk's order: an `o:` line before the `V:` line gives a source
    without version (finding `apk-origin-before-version`). -/
theorem apk_origin_before_version_counterexample :
    Apk.scan (joinLines [asc "P:a", asc "o:a", asc "V:1", []]) = [⟨asc "a", asc "1", [], [], some (asc "a", [])⟩] := by
  decide

/-- A second empty line at the end of the file is reported as a package
    without any field (finding `apk-blank-entry-phantom`). -/
theorem apk_blank_entry_counterexample :
    Apk.scan (joinLines [asc "P:a", [], []]) = [⟨asc "a", [], [], [], none⟩, Apk.Pkg.empty] := by
  decide

/-- The repaired defect on a concrete file: the `o:` line that ends the first
    record and the `c:` line that ends the second are not lost. -/
example : Apk.scan (joinLines [asc "P:a", asc "V:1", asc "o:s", [], asc "P:b", asc "V:1", asc "c:h", []]) =
    [⟨asc "a", asc "1", [], [], some (asc "s", asc "1")⟩, ⟨asc "b", asc "1", [], asc "h", none⟩] := by
  decide

end apk

/-! ## os-release -/

section osrelease
open ClairModel.OsRelease

/-- A value written in double quotes (with `` ` \ " $ `` escaped, as
    os-release(5) prescribes) is read back — for every byte string that does
    not end with a double quote. -/
theorem osrelease_dquote_roundtrip_partial (v : Bytes) (h : NotEndsWith 34 v) : unquote (dquote v) = v :=
  unquote_dquote v h

/-- A value written in single quotes (`'` as `'\''`) is read back — for every
    byte string that neither starts nor ends with a single quote. -/
theorem osrelease_squote_roundtrip_partial (v : Bytes) (hs : NotStartsWith 39 v) (he : NotEndsWith 39 v) :
    unquote (squote v) = v :=
  unquote_squote v hs he

/-- An unquoted value is taken verbatim. -/
theorem osrelease_bare_roundtrip (v : Bytes) (h1 : NotStartsWith 39 v) (h2 : NotStartsWith 34 v) : unquote v = v :=
  unquote_bare v h1 h2

/-- The escaping itself is always inverted; only the trimming of the
    enclosing quotes loses information. -/
theorem osrelease_unescape_inverts_escape (v : Bytes) :
    unescapeDQ (escapeDQ v) = v ∧ replaceSQ (escapeSQ v) = v :=
  ⟨unescapeDQ_escapeDQ v, replaceSQ_escapeSQ v⟩

/-- Full strength is false: `say "hi"` written as `"say \"hi\""` is read as
    `say "hi\` (every trailing quote is trimmed before unescaping) — finding
    `osrelease-quote-at-end`. -/
theorem osrelease_quote_at_end_counterexample :
    unquote (dquote (asc "say \"hi\"")) = asc "say \"hi\\" ∧
    unquote (squote (asc "rock 'n'")) = asc "rock 'n'\\" := by
  decide

/-- A written file (assignments, one per line, each newline-terminated) parses
    to the map in which the last assignment of each key wins; no line is lost. -/
theorem osrelease_parse_written_file (as : List Assign) (hw : ∀ a ∈ as, a.WF) :
    ∃ m, parse (joinNl (as.map Assign.line)) = some m ∧ ∀ k, mapGet m k = lastValue as k := by
  refine ⟨as.foldl (fun m a => mapSet m a.key a.value) [], ?_, ?_⟩
  · unfold parse
    rw [scanLines_joinNl _ (by
      intro l hl
      obtain ⟨a, ha, rfl⟩ := List.mem_map.1 hl
      exact ⟨(hw a ha).no_nl, (hw a ha).no_cr⟩)]
    exact parseLines_assigns as hw []
  · intro k
    rw [mapGet_foldl]
    rfl

/-- The distribution `toDist` builds states what the file states: every field
    is the last assignment of its key (defaults `Linux`/`linux`;
    `REDHAT_BUGZILLA_PRODUCT` overrides `PRETTY_NAME`, the documented hack). -/
theorem osrelease_dist_of_written_file (as : List Assign) (hw : ∀ a ∈ as, a.WF) :
    ∃ m, parse (joinNl (as.map Assign.line)) = some m ∧
      (toDist m).name = (lastValue as kNAME).getD dLinux ∧
      (toDist m).did = (lastValue as kID).getD dlinux ∧
      (toDist m).version = (lastValue as kVERSION).getD [] ∧
      (toDist m).versionId = (lastValue as kVERSION_ID).getD [] ∧
      (toDist m).codeName = (lastValue as kVERSION_CODENAME).getD [] ∧
      (toDist m).prettyName = (match lastValue as kREDHAT with
        | some v => v
        | none => (lastValue as kPRETTY_NAME).getD []) := by
  obtain ⟨m, hp, hg⟩ := osrelease_parse_written_file as hw
  refine ⟨m, hp, ?_⟩
  simp only [toDist, hg, true_and]
  cases lastValue as kREDHAT <;> rfl

/-- Comment lines and blank lines are ignored. -/
theorem osrelease_noise_ignored (m : List (Bytes × Bytes)) (l : Bytes) (h : Noise l) : parseLine m l = some m :=
  parseLine_noise m l h

/-- Sanity: Debian's file. -/
example : (parse (joinNl [asc "PRETTY_NAME=\"Debian GNU/Linux 11 (bullseye)\"", asc "NAME=\"Debian GNU/Linux\"",
    asc "VERSION_ID=\"11\"", asc "# c", asc "ID=debian"])).map toDist =
    some ⟨asc "Debian GNU/Linux", asc "debian", [], asc "11", [], asc "Debian GNU/Linux 11 (bullseye)"⟩ := by
  decide

end osrelease

/-! ## python METADATA / PKG-INFO -/

section python
open ClairModel.PyMeta

/-- From a written metadata file (legal header fields in any order, an empty
    line, then any body whatsoever) `Scan` reads exactly the header's `Name`
    (lower-cased) and `Version`; nothing in the body or in folded description
    lines can take their place. The version text then goes through
    `pep440.Parse` (C12's model). -/
theorem python_reads_written_metadata (fs : List Field) (hw : ∀ f ∈ fs, f.WF) (body : List Bytes) (tail : Bytes)
    (hb : ∀ l ∈ body, 10 ∉ l ∧ 13 ∉ l) (ht : splitLines tail = []) :
    nameVersion (joinLines (metaLines fs body) ++ tail) =
      (toLower ((hdrOf fs).get PyMeta.kName), (hdrOf fs).get PyMeta.kVersion) := by
  have hclean : ∀ l ∈ metaLines fs body, 10 ∉ l ∧ 13 ∉ l := by
    intro l hl
    simp only [metaLines, List.mem_append, List.mem_cons] at hl
    rcases hl with hl | rfl | hl
    · exact fieldsLines_clean fs hw l hl
    · simp
    · exact hb l hl
  obtain ⟨rest, hr⟩ := firstEvent_metaLines fs hw body
  simp only [nameVersion, firstHeader, calls, splitLines_joinLines _ tail hclean, ht, List.append_nil, hr]

/-- A wheel's `<stem>.dist-info/METADATA` below any directory is picked as a
    package and its package database is `python:<that directory>`. -/
theorem python_wheel_path (dir stem : Bytes) (hs : 47 ∉ stem) :
    classify (wheelPath dir stem) = some .wheel ∧
    packageDB (wheelPath dir stem) = asc "python:" ++ dir :=
  classify_wheel dir stem hs

/-- Sanity: the other layouts and the exclusions. -/
example :
    classify (asc "usr/lib/python3.9/site-packages/foo-1.0.egg-info/PKG-INFO") = some .eggInfo ∧
    classify (asc "site-packages/foo-1.0.egg-info") = some .eggInfo ∧
    classify (asc "a/foo-1.0-py3.9.egg/EGG-INFO/PKG-INFO") = some .egg ∧
    classify (asc "a/.wh.foo-1.0.egg-info") = none ∧
    classify (asc "a/foo-1.0.dist-info/RECORD") = none ∧
    packageDB (asc "foo-1.0.egg-info") = asc "python:." ∧
    packageDB (asc "a/foo-1.0-py3.9.egg/EGG-INFO/PKG-INFO") = asc "python:a/foo-1.0-py3.9.egg" := by
  decide

end python

/-! ## rpm: from header information to packages -/

section rpm
open ClairModel.RpmPkg

/-- Exactness (partial): for the information of any list of headers — any
    names, epochs, versions, releases, architectures; source rpm
    `name-version-release.src.rpm` (name with any number of dashes) or
    `(none)`; modularity label `name:stream:version:context` or none — the scan
    reports exactly one package per header that is not a `gpg-pubkey`, in
    order, with version `[epoch:]version-release`, module `name:stream`, and
    the source name/version split off the source rpm name — provided binaries
    of one source rpm belong to one module stream. -/
theorem rpm_packages_exact_partial (es : List RpmPkg.Entry) (hw : ∀ e ∈ es, e.WF) (hag : ModulesAgree es) :
    RpmPkg.scan (es.map RpmPkg.Entry.info) =
      some ((es.filter (fun e => e.name ≠ sGpgPubkey)).map RpmPkg.Entry.pkg) := by
  unfold RpmPkg.scan
  apply packages_exact es hw hag
  · intro e _ s hl
    simp only [RpmPkg.lookup] at hl
    split at hl
    · rename_i h
      simp only [Option.some.injEq] at hl
      subst hl
      unfold RpmPkg.Entry.pkg RpmPkg.Entry.sourceNEVR at *
      cases hsrc : e.source with
      | none => rfl
      | some x =>
        obtain ⟨n, v, r⟩ := x
        rw [hsrc] at h
        exact absurd h.symm (sourceNEVR_ne_none n v r)
    · cases hl
  · simp [RpmPkg.lookup]

/-- `gpg-pubkey` pseudo packages are never reported, whatever else the header says. -/
theorem rpm_pubkey_not_reported (is : List RpmPkg.Info) (ps : List RpmPkg.Pkg)
    (srcs : List (Bytes × Option RpmPkg.Src)) (h : RpmPkg.packages srcs is = some ps) :
    ∀ p ∈ ps, p.name ≠ sGpgPubkey := by
  induction is generalizing srcs ps with
  | nil => simp only [RpmPkg.packages, Option.some.injEq] at h; subst h; intro p hp; simp at hp
  | cons i is ih =>
    simp only [RpmPkg.packages] at h
    split at h
    · exact ih ps srcs h
    · rename_i hne
      split at h
      · cases hr : RpmPkg.packages srcs is with
        | none => rw [hr] at h; cases h
        | some r =>
          rw [hr] at h
          simp only [Option.map_some, Option.some.injEq] at h
          subst h
          intro p hp
          rcases List.mem_cons.1 hp with rfl | hp
          · exact hne
          · exact ih r srcs hr p hp
      · split at h
        · cases h
        · rename_i n v _
          cases hr : RpmPkg.packages (srcs ++ [(i.sourceNEVR, some ⟨n, v, moduleStream i.module⟩)]) is with
          | none => rw [hr] at h; cases h
          | some r =>
            rw [hr] at h
            simp only [Option.map_some, Option.some.injEq] at h
            subst h
            intro p hp
            rcases List.mem_cons.1 hp with rfl | hp
            · exact hne
            · exact ih r _ hr p hp

/-- Sanity: the epoch is printed in front of version-release when it is not zero. -/
example : RpmPkg.evr ⟨asc "bash", 1, asc "5.1.8", asc "6.el9", [], [], []⟩ = asc "1:5.1.8-6.el9" := by
  simp [RpmPkg.evr, showInt, showNat, asc]

/-- Sanity: bash, a modular npm, a public key. -/
example : RpmPkg.scan [
    ⟨asc "bash", 0, asc "5.1.8", asc "6.el9", asc "bash-5.1.8-6.el9.src.rpm", [], asc "x86_64"⟩,
    ⟨asc "gpg-pubkey", 0, asc "fd431d51", asc "4ae0493b", [], [], []⟩,
    ⟨asc "npm", 0, asc "8.19", asc "1.el8", asc "nodejs-16.18-1.el8.src.rpm", asc "nodejs:16:8070:abc", asc "noarch"⟩] =
  some [⟨asc "bash", asc "5.1.8-6.el9", asc "x86_64", [], some ⟨asc "bash", asc "5.1.8-6.el9", []⟩⟩,
        ⟨asc "npm", asc "8.19-1.el8", asc "noarch", asc "nodejs:16", some ⟨asc "nodejs", asc "16.18-1.el8", asc "nodejs:16"⟩⟩] := by
  decide

end rpm

/-! ## gobin (build information of Go executables) -/

section gobin
open ClairModel.GoBin ClairModel.Version

/-- The detector reports exactly the modules the build information lists, in
    order: the toolchain as `stdlib`, the main module, then every dependency
    (a replaced one as its replacement) — `2 + |deps|` packages, none missing,
    none invented, names and versions as stated. For every build information. -/
theorem gobin_reports_exactly_the_listed_modules (bi : BuildInfo) :
    (toPackages bi).map (fun p => (p.name, p.version)) =
      ("stdlib".toList, toolchainVersion bi.goVersion) :: (mainName bi, mainVersionText bi) ::
        bi.deps.map Mod.effective ∧
    (toPackages bi).length = 2 + bi.deps.length :=
  ⟨toPackages_shape bi, toPackages_length bi⟩

/-- Nothing is invented: every reported package is the toolchain, the main
    module, or one dependency's (replacement's) path and version. -/
theorem gobin_nothing_invented (bi : BuildInfo) (p : GoBin.Pkg) (hp : p ∈ toPackages bi) :
    p.name = "stdlib".toList ∨ p.name = mainName bi ∨
      ∃ d ∈ bi.deps, p.name = d.effective.1 ∧ p.version = d.effective.2 := by
  simp only [toPackages, List.mem_cons, List.mem_map] at hp
  rcases hp with rfl | rfl | ⟨d, hd, rfl⟩
  · exact Or.inl rfl
  · exact Or.inr (Or.inl rfl)
  · exact Or.inr (Or.inr ⟨d, hd, rfl, rfl⟩)

/-- The toolchain version is the text after `go`, up to an experiment suffix
    (`go1.21.5 X:boringcrypto`). -/
theorem gobin_toolchain_version (v suffix : Str) (hv : ∀ c ∈ v, c ≠ ' ') :
    toolchainVersion ('g' :: 'o' :: v) = v ∧
    toolchainVersion ('g' :: 'o' :: (v ++ ' ' :: suffix)) = v := by
  simp only [toolchainVersion, trimGo, beforeSpace]
  exact ⟨takeWhile_nospace v hv, takeWhile_append_space v suffix hv⟩

/-- A main module with a semantic version is reported with exactly that text,
    whatever the build settings say. -/
theorem gobin_tagged_main_version (bi : BuildInfo) (h : Semver.gobinParse bi.mainVersion ≠ none) :
    mainVersionText bi = bi.mainVersion := by
  unfold mainVersionText
  cases hp : Semver.gobinParse bi.mainVersion with
  | none => exact absurd hp h
  | some _ => rfl

/-- A main module built from a work tree (`(devel)`, or no version at all):
    `(devel)` alone without version-control stamps, otherwise the stamps in the
    order of the settings. -/
theorem gobin_devel_main_version (bi : BuildInfo) (h : bi.mainVersion = develText ∨ bi.mainVersion = []) :
    mainVersionText bi =
      if bi.settings.filterMap vcsPart = [] then develText
      else "(devel) (".toList ++ GoBin.joinWith ", ".toList (bi.settings.filterMap vcsPart) ++ [')'] := by
  unfold mainVersionText
  rcases h with h | h
  · rw [h, gobinParse_devel]
    by_cases hv : bi.settings.filterMap vcsPart = []
    · simp [hv, develText]
    · simp [hv]
  · rw [h, gobinParse_empty]
    by_cases hv : bi.settings.filterMap vcsPart = []
    · simp [hv]
    · simp [hv]

/-- The stamps `go build` writes (vcs, a 40-digit revision, the commit time,
    modified or not), between any other settings. -/
theorem gobin_vcs_stamps (vcs rev time : Str) (dirty : Bool) (hrev : rev.length = 40) :
    [("-compiler".toList, "gc".toList), ("vcs".toList, vcs), ("vcs.revision".toList, rev),
     ("GOOS".toList, "linux".toList), ("vcs.time".toList, time),
     ("vcs.modified".toList, if dirty then "true".toList else "false".toList)].filterMap vcsPart =
      [vcs, "commit ".toList ++ rev, "built at ".toList ++ time] ++ (if dirty then ["dirty".toList] else []) := by
  cases dirty <;> simp [List.filterMap, vcsPart, hrev] <;> decide

/-- A dependency is reported as the module compiled in: its replacement's path
    and version when the build replaced it. -/
theorem gobin_replaced_module (path version rpath rversion : Str) :
    (depPkg ⟨path, version, some (rpath, rversion)⟩).name = rpath ∧
    (depPkg ⟨path, version, some (rpath, rversion)⟩).version = rversion ∧
    (depPkg ⟨path, version, none⟩).name = path ∧ (depPkg ⟨path, version, none⟩).version = version :=
  ⟨rfl, rfl, rfl, rfl⟩

/-- A module version written `vA.B.C` (or `A.B.C`), every number of at most
    nine digits, is normalised to kind `semver` with exactly these numbers. -/
theorem gobin_normalized_version (v : Bool) (path a b c : Str) (ha : Digits a) (hb : Digits b) (hc : Digits c)
    (na : a ≠ []) (nb : b ≠ []) (nc : c ≠ []) (la : a.length ≤ 9) (lb : b.length ≤ 9) (lc : c.length ≤ 9) :
    (depPkg ⟨path, (if v then ['v'] else []) ++ a ++ '.' :: (b ++ '.' :: c), none⟩).norm =
      some { kind := "semver".toList,
             v := [0, (natOfDigits a : Int), (natOfDigits b : Int), (natOfDigits c : Int), 0, 0, 0, 0, 0, 0] } :=
  gobinParse_core v a b c ha hb hc na nb nc la lb lc

/-- Sanity: a binary built from a tagged module with one replaced dependency. -/
example : (toPackages ⟨"go1.21.5 X:boringcrypto".toList, "example.com/app".toList, "v1.2.3".toList,
      [⟨"golang.org/x/sys".toList, "v0.15.0".toList, none⟩,
       ⟨"example.com/lib".toList, "v1.0.0".toList, some ("github.com/fork/lib".toList, "v1.0.1".toList)⟩], []⟩).map
      (fun p => (String.ofList p.name, String.ofList p.version)) =
    [("stdlib", "1.21.5"), ("example.com/app", "v1.2.3"), ("golang.org/x/sys", "v0.15.0"), ("github.com/fork/lib", "v1.0.1")] := by
  decide

end gobin

/-! ## java archives (java/jar Parse) -/

section jar
open ClairModel.Jar
open ClairModel.OsRelease (joinNl NotEndsWith)

/-- pom.properties as Maven writes it — the three `key=value` lines once each in
    any order, any lines that are no assignment of these keys (comments, empty
    lines, other keys) before, between and after them — states exactly
    `groupId:artifactId` and the version. Hypotheses the proof forced: the
    values are not empty, the three lines carry no white space at their ends
    (the parser trims the line, not the value). -/
theorem jar_pom_properties_exact (vals : Key → Bytes) (k1 k2 k3 : Key) (n0 n1 n2 n3 : List Bytes)
    (d12 : k1 ≠ k2) (d13 : k1 ≠ k3) (d23 : k2 ≠ k3)
    (hne : ∀ k, vals k ≠ [])
    (hn0 : ∀ l ∈ n0, Neutral l) (hn1 : ∀ l ∈ n1, Neutral l) (hn2 : ∀ l ∈ n2, Neutral l)
    (ht : ∀ k, Apk.trimSpace (keyLine k (vals k)) = keyLine k (vals k))
    (hc : ∀ l ∈ n0 ++ keyLine k1 (vals k1) :: (n1 ++ keyLine k2 (vals k2) :: (n2 ++ keyLine k3 (vals k3) :: n3)),
            10 ∉ l ∧ NotEndsWith 13 l) :
    parseProperties (joinNl (n0 ++ keyLine k1 (vals k1) :: (n1 ++ keyLine k2 (vals k2) :: (n2 ++ keyLine k3 (vals k3) :: n3)))) =
      some (vals .group ++ 58 :: vals .artifact, vals .version) := by
  unfold parseProperties
  rw [OsRelease.scanLines_joinNl _ hc]
  have h3 := propsLoop_three k1 k2 k3 (vals k1) (vals k2) (vals k3) n0 n1 n2 n3 d12 d13 d23
    (hne k1) (hne k2) (hne k3) hn0 hn1 hn2 (ht k1) (ht k2) (ht k3)
  simp only [Gav.empty] at h3
  simp only [h3]
  have e1 := hne .group
  have e2 := hne .artifact
  have e3 := hne .version
  cases k1 <;> cases k2 <;> cases k3 <;>
    first
    | exact absurd rfl d12
    | exact absurd rfl d13
    | exact absurd rfl d23
    | simp [Key.set, Gav.complete, e1, e2, e3]

/-- Sanity: the hypotheses hold for a file with a comment, the keys in Maven's
    order and an m2e line. -/
example : parseProperties (Jar.asc "#Generated by Maven\nversion=3.12.0\ngroupId=org.apache.commons\nartifactId=commons-lang3\nm2e.projectName=x\n") =
    some (Jar.asc "org.apache.commons:commons-lang3", Jar.asc "3.12.0") := by decide

/-- An unpopulated pom.properties (a key missing) states nothing, and then none
    of the archive's pom.properties files is used. -/
example : parseProperties (Jar.asc "groupId=g\nartifactId=a\n") = none := by decide

/-- A manifest whose main section is a written stanza (fields with any legal
    keys, separators and continuation lines, each line ended by a newline) and
    nothing after it: the parser decides on exactly the written fields. -/
theorem jar_manifest_main_section_exact (fs : List Field) (hw : ∀ f ∈ fs, f.WF) (data : Bytes)
    (hd : data = joinLines (fieldsLines fs)) (hn : index data sNameHeader = none) :
    parseManifest data = manifestOfHeader (hdrOf fs) :=
  parseManifest_stanza fs hw data hd hn

/-- The same when per-entry sections follow, with or without an empty line in
    between (both occur in the wild): only the main section counts. -/
theorem jar_manifest_with_sections_exact (fs : List Field) (hw : ∀ f ∈ fs, f.WF) (data : Bytes) (i : Nat)
    (hn : index data sNameHeader = some i)
    (hd : data.take (i + 1) = joinLines (fieldsLines fs) ∨ data.take (i + 1) = joinLines (fieldsLines fs) ++ [10]) :
    parseManifest data = manifestOfHeader (hdrOf fs) :=
  parseManifest_sections fs hw data i hn hd

/-- Priority lists: the first attribute of the list whose value is not empty
    and has no space decides; earlier ones that are empty or carry a
    presentation text are passed over, later ones are not looked at. -/
theorem jar_manifest_first_usable (h : Hdr) (pre : List String) (k : String) (post : List String)
    (hpre : ∀ p ∈ pre, usable h p = false) (hk : usable h k = true) :
    firstUsable h (pre ++ k :: post) = usableValue h k := by
  induction pre with
  | nil => simp [firstUsable, hk]
  | cons p ps ih =>
    simp only [List.cons_append, firstUsable, hpre p (List.mem_cons_self ..)]
    exact ih (fun q hq => hpre q (List.mem_cons_of_mem _ hq))

/-- The version is the first non-empty one of the version attributes, spaces or not. -/
theorem jar_manifest_first_version (h : Hdr) (pre : List String) (k : String) (post : List String)
    (hpre : ∀ p ∈ pre, mget h p = []) (hk : mget h k ≠ []) :
    firstNonEmpty h (pre ++ k :: post) = mget h k := by
  induction pre with
  | nil =>
    have : (mget h k).isEmpty = false := by cases hm : mget h k with
      | nil => exact absurd hm hk
      | cons _ _ => rfl
    simp [firstNonEmpty, this]
  | cons p ps ih =>
    simp only [List.cons_append, firstNonEmpty, hpre p (List.mem_cons_self ..)]
    exact ih (fun q hq => hpre q (List.mem_cons_of_mem _ hq))

set_option maxRecDepth 20000 in
/-- Sanity: an OSGi bundle's manifest (`Bundle-SymbolicName` with a directive,
    a presentation title with spaces), per-entry sections after it. -/
example : parseManifest (Jar.asc "Manifest-Version: 1.0\r\nImplementation-Title: Commons Lang\r\nBundle-SymbolicName: org.x.lang3;singleton:=true\r\nBundle-Name: lang3\r\nBundle-Version: 3.12\r\n\r\nName: x\r\nBundle-Version: 0\r\n") =
    .ok (Jar.asc "org.x.lang3:lang3") (Jar.asc "3.12") := by decide

set_option maxRecDepth 20000 in
/-- The full statement fails for folded lines: a value continued on a line
    that starts with one space (how `java.util.jar` folds at 72 bytes) is read
    with a space at the fold — the MIME reader's rule, not the manifest's
    (recorded finding jar-manifest-continuation-space). -/
theorem jar_manifest_continuation_counterexample :
    parseManifest (Jar.asc "Manifest-Version: 1.0\r\nBundle-SymbolicName: org.a\r\nBundle-Version: 1.0.0-lo\r\n ng\r\n\r\n") =
      .ok (Jar.asc "org.a") (Jar.asc "1.0.0-lo ng") := by decide

/-- `<artifact>-<version>.jar`: any artifact of printable characters, a version
    that starts with a digit, consists of letters, digits, dots and dashes and
    holds no dash followed by a digit, is read back as written. -/
theorem jar_file_name_exact (a v : Bytes) (d : Nat) (w : Bytes) (ha : a ≠ []) (hag : ∀ c ∈ a, isGraph c = true)
    (hv : v = d :: w) (hd : isDigitB d = true) (hw : ∀ c ∈ w, verChar c = true)
    (hnd : NoDashDigit (v ++ sDotJar)) :
    checkName (a ++ 45 :: (v ++ sDotJar)) = some (a, v) :=
  checkName_written a v d w ha hag hv hd hw hnd

/-- The hypothesis about the dash is needed: `x-1.0-2.jar` is read as artifact
    `x-1.0`, version `2` (Maven would say `x`, `1.0-2`). -/
theorem jar_file_name_dash_digit_counterexample :
    checkName (Jar.asc "x-1.0-2.jar") = some (Jar.asc "x-1.0", Jar.asc "2") := by decide

/-- pom.properties files win: with `META-INF` present and every member called
    pom.properties populated, the archive is reported as exactly these Maven
    coordinates, in member order, whatever the manifest and the name say. -/
theorem jar_maven_identity (base : Bytes) (ms : List Node) (infos : List (Bytes × Bytes))
    (hm : hasMetaInf ms = true) (hp : hasProps ms = true) (hc : collectProps ms = some infos) :
    own base ms = some (infos.map fun nv => ⟨nv.1, nv.2, .maven, none⟩) := by
  simp [own, extractProperties, hm, hp, hc]

/-- Without pom.properties the manifest's main section decides. -/
theorem jar_manifest_identity (base : Bytes) (ms : List Node) (d n v : Bytes)
    (hm : hasMetaInf ms = true) (hp : hasProps ms = false) (hf : findManifest ms = some d)
    (hpm : parseManifest d = .ok n v) :
    own base ms = some [⟨n, v, .jar, none⟩] := by
  simp [own, extractProperties, hm, hp, manifestStep, hf, hpm]

/-- A manifest that says nothing useful (or fails the sanity checks) leaves
    the file name. -/
theorem jar_name_identity (base : Bytes) (ms : List Node) (d : Bytes)
    (hm : hasMetaInf ms = true) (hp : hasProps ms = false) (hf : findManifest ms = some d)
    (hpm : parseManifest d = .insane ∨ parseManifest d = .unpopulated) :
    own base ms = some (nameStep base) := by
  rcases hpm with hpm | hpm <;> simp [own, extractProperties, hm, hp, manifestStep, hf, hpm]

/-- No `META-INF` at all: not a jar — nothing is reported for it, the archives
    bundled in it included (unless its name starts with `javax`). -/
theorem jar_without_metainf_not_reported (path : Bytes) (ms : List Node)
    (hm : hasMetaInf ms = false) (hj : isPrefix sJavax (lastComp path) = false) :
    scan path ms = [] := by
  unfold scan
  split <;> simp [maxNesting, parse, own, extractProperties, hm, hj]

/-- What is reported for an archive: what it says about itself, then, for
    every bundled archive in member order, what that one reports — marked with
    the member it came from (whose SHA-1 becomes the RepositoryHint). -/
theorem jar_bundled_archives_reported (path : Bytes) (ms : List Node) (is : List Info)
    (hp : picked path = true) (ho : own (lastComp path) ms = some is) :
    scan path ms = is ++ innerWith (parse 6 false) true ms := by
  simp [scan, hp, maxNesting, parse, ho]

/-- Only files with a jar/war/ear/jpi/hpi extension that are no whiteouts are
    looked at. -/
theorem jar_only_archives_examined (path : Bytes) (ms : List Node) (h : picked path = false) :
    scan path ms = [] := by
  simp [scan, h]

/-- The nesting limit: at the eighth level an archive is still identified,
    what is bundled in it is not examined. -/
theorem jar_nesting_limit (top : Bool) (base : Bytes) (ms : List Node) : parse 0 top base ms = own base ms := rfl

end jar

/-! ## rhel repository scanner (content manifests) -/

section rhelrepo
open ClairModel.RhelRepo

/-- A layer with one content manifest: the repositories reported are exactly
    the CPEs the mapping gives for the listed content sets — every one of them
    that unbinds (none missing), nothing else (none invented), each once —
    whatever the mapping and the list (content sets unknown to the mapping,
    repositories sharing CPEs, repeated content sets). -/
theorem rhelrepo_exact (m : Mapping) (dir : Nat) (name : Bytes) (rs : List Bytes) :
    ∃ cs, scan m [⟨dir, name, .sets rs⟩] = .repos cs ∧ cs.Nodup ∧
      ∀ c, c ∈ cs ↔ ∃ r ∈ rs, ∃ l, lookup m r = some l ∧ (c, true) ∈ l := by
  refine ⟨cpesOf m rs, ?_, nodup_dedup _, mem_cpesOf m rs⟩
  simp [scan, globOrder_single]

/-- No manifest, a manifest that is not JSON, or one without content sets: no
    repositories (and no error). -/
theorem rhelrepo_nothing_stated (m : Mapping) (dir : Nat) (name : Bytes) :
    scan m [] = .repos [] ∧ scan m [⟨dir, name, .syntaxError⟩] = .repos [] ∧
    scan m [⟨dir, name, .sets []⟩] = .repos [] := by
  refine ⟨rfl, ?_, ?_⟩ <;> simp [scan, globOrder_single, cpesOf, dedup]

/-- The full statement fails for layers with more than one manifest: only the
    first in `fs.Glob` order is read (recorded finding
    rhel-repo-first-manifest-only). -/
theorem rhelrepo_first_manifest_only_counterexample :
    scan [([1], [([10], true)]), ([2], [([20], true)])]
      [⟨0, [98], .sets [[2]]⟩, ⟨0, [97], .sets [[1]]⟩] = .repos [[10]] := by
  decide

end rhelrepo

/-! ## distribution scanners that read release files themselves -/

section distscan
open ClairModel.DistScan

/-- `etc/redhat-release` as Red Hat writes it — the phrase, optionally `Server`
    or `Atomic Host`, `release`, the major number, then anything that does not
    go on with a digit (`.6 (Ootpa)`, ` Beta`) — reports exactly that major
    release (name, version, CPE `cpe:/o:redhat:enterprise_linux:N`), for every
    number below 2^63. -/
theorem rhel_release_file_exact (variant d rest : Bytes)
    (hv : variant = [] ∨ variant = DistScan.asc "Server " ∨ variant = DistScan.asc "Atomic Host ")
    (hd : Digits d) (hr : NoDigitHead rest) (hn : natOfDigits d < 9223372036854775808) (o : Option Bytes) :
    rhelScan false (some (sRhel ++ variant ++ DistScan.asc "release " ++ d ++ rest)) o =
      .dist (mkRelease (natOfDigits d)) :=
  rhelScan_redhat_release_first _ _ o (rhelOfFile_release variant d rest hv hd hr hn)

/-- The phrase followed directly by the number (`PRETTY_NAME`,
    `REDHAT_BUGZILLA_PRODUCT` of os-release) does as well. -/
theorem rhel_bare_number_exact (d rest : Bytes) (hd : Digits d) (hr : NoDigitHead rest)
    (hn : natOfDigits d < 9223372036854775808) :
    rhelOfFile (sRhel ++ d ++ rest) = some (.dist (mkRelease (natOfDigits d))) :=
  rhelOfFile_bare d rest hd hr hn

/-- A layer with `etc/oracle-release` is not RHEL, whatever its other files say;
    a redhat-release without the phrase leaves the decision to os-release. -/
theorem rhel_oracle_and_fallback (a b : Option Bytes) (f g : Bytes) (h : rhelOfFile f = none) :
    rhelScan true a b = .none ∧
    rhelScan false (some f) (some g) = (match rhelOfFile g with | some r => r | none => .none) :=
  ⟨rhelScan_oracle a b, rhelScan_falls_back f g h⟩

/-- A release number that does not fit an int64 is an error of the scan, not a
    distribution (the only way this scanner fails on file content). -/
theorem rhel_number_overflow (d rest : Bytes) (hd : Digits d) (hr : NoDigitHead rest)
    (hn : 9223372036854775808 ≤ natOfDigits d) :
    rhelOfFile (sRhel ++ DistScan.asc "release " ++ d ++ rest) = some .err :=
  rhelOfFile_overflow d rest hd hr hn

/-- alpine os-release: `ID=alpine`, `VERSION_ID=<major.minor>.<patch>` → release
    `<major.minor>` with the file's NAME and PRETTY_NAME; `PRETTY_NAME="Alpine
    Linux edge"` → release `edge`. Stated on the parsed map; by
    `osrelease_parse_written_file` the map of a written file holds the last
    assignment of each key. -/
theorem alpine_osrelease_exact (m : List (Bytes × Bytes)) (mm patch name pretty : Bytes)
    (hid : DistScan.get m "ID" = DistScan.asc "alpine") (hv : DistScan.get m "VERSION_ID" = mm ++ 46 :: patch)
    (hp : 46 ∉ patch) (hname : DistScan.get m "NAME" = name) (hpretty : DistScan.get m "PRETTY_NAME" = pretty) :
    alpineOfMap m = some { name := name, did := DistScan.asc "alpine",
                           version := if pretty = edgePretty then DistScan.asc "edge" else mm,
                           versionId := [], codeName := [], prettyName := pretty, cpe := [] } := by
  by_cases he : pretty = edgePretty
  · simp only [he, if_true]
    exact he ▸ alpineOfMap_edge m mm patch name pretty hid hv hp hname hpretty he
  · simp only [he, if_false]
    exact alpineOfMap_release m mm patch name pretty hid hv hp hname hpretty he

/-- alpine `etc/issue` (`Welcome to Alpine Linux 3.18` + newline + anything
    without another capital A): release `3.18`. -/
theorem alpine_issue_exact (pre a b rest : Bytes) (hpre : 65 ∉ pre) (ha : Digits a) (hb : Digits b)
    (hrest : rest = [] ∨ ∃ r, rest = 10 :: r) (hA : 65 ∉ rest) :
    alpineOfIssue (pre ++ sAlpineLinux ++ a ++ 46 :: b ++ rest) =
      some { name := DistScan.asc "Alpine Linux", did := DistScan.asc "alpine", version := a ++ 46 :: b,
             versionId := [], codeName := [], prettyName := DistScan.asc "Alpine Linux v" ++ (a ++ 46 :: b), cpe := [] } :=
  alpineOfIssue_release_noA pre a b rest hpre ha hb hrest hA

/-- Another distribution's os-release yields nothing from the alpine and debian
    scanners. -/
theorem dist_other_id_nothing (m : List (Bytes × Bytes)) :
    (DistScan.get m "ID" ≠ DistScan.asc "alpine" → alpineOfMap m = none) ∧
    (DistScan.get m "ID" ≠ DistScan.asc "debian" → debianOfMap m = none) :=
  ⟨alpineOfMap_other m, debianOfMap_other m⟩

/-- debian os-release: `VERSION_CODENAME` and a numeric `VERSION_ID` are the
    release; without `VERSION_CODENAME` (Debian 8 and older) the name is the
    word in parentheses that ends `VERSION`. -/
theorem debian_release_exact (m : List (Bytes × Bytes)) (name d pre : Bytes)
    (hid : DistScan.get m "ID" = DistScan.asc "debian") (hv : DistScan.get m "VERSION_ID" = d) (hd : Digits d)
    (hn : natOfDigits d ≤ 2147483647) (hw : name ≠ [] ∧ ∀ c ∈ name, isLetter c = true)
    (hc : OsRelease.mapGet m (DistScan.asc "VERSION_CODENAME") = some name ∨
          (OsRelease.mapGet m (DistScan.asc "VERSION_CODENAME") = none ∧ DistScan.get m "VERSION" = pre ++ 40 :: (name ++ [41]))) :
    debianOfMap m = some (debianDist name (natOfDigits d)) := by
  rcases hc with hc | ⟨hc, hver⟩
  · exact debianOfMap_codename m name d hid hc hw.1 hv hd hn
  · exact debianOfMap_version_fallback m pre name d hid hc hver hw hv hd hn

/-- ubuntu: the three assignments (`DISTRIB_ID`/`ID`, the release, the code
    name) once each in any order, values bare or in double quotes, any other
    lines around them, leave the loop with exactly the stated release and
    code name; `etc/lsb-release` is preferred over `etc/os-release`. -/
theorem ubuntu_release_exact (idKey verKey nameKey : Bytes) (hk : KeysOK idKey verKey nameKey) (k1 k2 k3 : UKey)
    (r1 r2 r3 : Bytes) (n0 n1 n2 n3 : List Bytes) (d12 : k1 ≠ k2) (d13 : k1 ≠ k3) (d23 : k2 ≠ k3)
    (hn0 : ∀ l ∈ n0, UNeutral idKey verKey nameKey l) (hn1 : ∀ l ∈ n1, UNeutral idKey verKey nameKey l)
    (hn2 : ∀ l ∈ n2, UNeutral idKey verKey nameKey l) (hn3 : ∀ l ∈ n3, UNeutral idKey verKey nameKey l)
    (hu : lower (trimQ (valOf .id k1 k2 r1 r2 r3)) = DistScan.asc "ubuntu") :
    ubuntuLoop idKey verKey nameKey ⟨false, [], []⟩
      (n0 ++ uLine idKey verKey nameKey k1 r1 :: (n1 ++ uLine idKey verKey nameKey k2 r2 :: (n2 ++ uLine idKey verKey nameKey k3 r3 :: n3))) =
      some ⟨true, trimQ (valOf .ver k1 k2 r1 r2 r3), trimQ (valOf .name k1 k2 r1 r2 r3)⟩ :=
  ubuntuLoop_three idKey verKey nameKey hk k1 k2 k3 r1 r2 r3 n0 n1 n2 n3 d12 d13 d23 hn0 hn1 hn2 hn3 hu

/-- Sanity: Ubuntu's own lsb-release. -/
example : ubuntuScan (some (DistScan.asc "DISTRIB_ID=Ubuntu\nDISTRIB_RELEASE=22.04\nDISTRIB_CODENAME=jammy\nDISTRIB_DESCRIPTION=\"Ubuntu 22.04.3 LTS\"\n")) none =
    .dist (ubuntuDist (DistScan.asc "22.04") (DistScan.asc "jammy")) := by decide

/-- Sanity: RHEL 8's release file and an Alpine os-release. -/
example : rhelScan false (some (DistScan.asc "Red Hat Enterprise Linux release 8.6 (Ootpa)\n")) none = .dist (mkRelease 8) := by decide

end distscan

/-! ## nodejs and ruby -/

section langscan
open ClairModel.LangScan
open ClairModel.OsRelease (joinNl NotEndsWith)

/-- Every `<dir>node_modules/<name>/package.json` is looked at, whatever the
    directory and the (possibly scoped, possibly nested) package name; a
    package.json outside `node_modules` (the application's own manifest) and a
    whiteout are not. -/
theorem nodejs_paths_exact (dir name p : Bytes) :
    nodePick (dir ++ LangScan.asc "node_modules/" ++ name ++ LangScan.asc "/package.json") = true ∧
    (LangScan.contains p (LangScan.asc "node_modules/") = false → nodePick p = false) ∧
    nodePick (dir ++ LangScan.asc "node_modules/.wh.package.json") = false :=
  ⟨nodePick_written dir name, nodePick_outside p, nodePick_whiteout dir⟩

/-- A gemspec as `gem install` writes it — one line `  s.name = "n".freeze`,
    one line `  s.version = "v".freeze` (any variable name without a dot, any
    white space padding, single or double quotes, with or without `.freeze`),
    in either order, between any lines that assign neither — is read as
    exactly (n, v). Hypotheses the proof forced: the two values are not empty
    and hold no white space or quote character; white space before the `=`;
    every line shorter than 64 KiB (see `ruby_long_line_counterexample`). -/
theorem ruby_gemspec_exact (n0 n1 n2 : List Bytes) (a b : Shape) (wa : a.WF) (wb : b.WF)
    (hn0 : ∀ l ∈ n0, GNeutral l) (hn1 : ∀ l ∈ n1, GNeutral l) (hn2 : ∀ l ∈ n2, GNeutral l)
    (hc1 : ∀ l ∈ n0 ++ a.line (LangScan.asc "name") :: (n1 ++ b.line (LangScan.asc "version") :: n2),
      10 ∉ l ∧ NotEndsWith 13 l ∧ l.length < 65536)
    (hc2 : ∀ l ∈ n0 ++ b.line (LangScan.asc "version") :: (n1 ++ a.line (LangScan.asc "name") :: n2),
      10 ∉ l ∧ NotEndsWith 13 l ∧ l.length < 65536) :
    gemspec (joinNl (n0 ++ a.line (LangScan.asc "name") :: (n1 ++ b.line (LangScan.asc "version") :: n2))) = some ⟨a.v, b.v⟩ ∧
    gemspec (joinNl (n0 ++ b.line (LangScan.asc "version") :: (n1 ++ a.line (LangScan.asc "name") :: n2))) = some ⟨a.v, b.v⟩ :=
  ⟨gemspec_written n0 n1 n2 a b wa wb hn0 hn1 hn2 hc1, gemspec_written_swapped n0 n1 n2 a b wa wb hn0 hn1 hn2 hc2⟩

/-- The length hypothesis is needed: one line of 64 KiB (a long `s.files`
    list) and the gem is not reported (recorded finding
    ruby-gemspec-long-line-skipped). -/
theorem ruby_long_line_counterexample (l : Bytes) (h : l.length ≥ 65536) (rest : Bytes) (h10 : 10 ∉ l) :
    gemspec (l ++ 10 :: rest) = none := by
  unfold gemspec
  have : tooLong (splitOn 10 (l ++ 10 :: rest)) = true := by
    rw [PyMeta.splitOn_append' 10 l rest, splitOn_no_sep 10 l h10]
    cases hs : splitOn 10 rest with
    | nil => exact absurd hs (splitOn_ne_nil 10 rest)
    | cons x xs =>
      have : decide (l.length ≥ maxToken) = true := by simp [maxToken]; omega
      simp [tooLong, this]
  simp [this]

end langscan

/-! ## Tables and expressions regenerated from the sources (Gen/C02Tables.lean) -/

section tables
open ClairModel.Gen

/-- The jar model reads the priority lists, the accepted extensions, the
    nesting limit and the section marker that the source reads today; the
    file-name, manifest-version, gemspec, release-file and rpm file patterns in
    the source are the expressions the models (`Jar.checkName`, `Jar.hasDigit`,
    `LangScan.gemPick`/`matchAssign`, `DistScan.rhelTail`/`majorMinor`/
    `edgeTail`/`parenWordAtEnd`, finding os-owned-files-outside-patterns) were
    written against. A change of any of them in /repo stops this theorem. -/
theorem c02_tables_tie :
    C02Tables.jarGroupKeys = Jar.groupKeys ∧ C02Tables.jarArtifactKeys = Jar.artifactKeys ∧
    C02Tables.jarVersionKeys = Jar.versionKeys ∧
    C02Tables.jarValidExt = [".jar", ".war", ".ear", ".jpi", ".hpi"] ∧
    C02Tables.jarMaxNesting = Jar.maxNesting ∧ C02Tables.jarMinSize = 22 ∧
    Jar.asc C02Tables.jarNameHeader = Jar.sNameHeader ∧
    C02Tables.jarNameRegexp = "([[:graph:]]+)-([[:digit:]][\\-.[:alnum:]]*(?:-SNAPSHOT)?)\\.jar" ∧
    C02Tables.jarManifestVer = "[[:digit:]]+(\\.[[:digit:]]+)*" ∧
    C02Tables.rubyGemspecPath = ".*/specifications/.+\\.gemspec" ∧
    C02Tables.rubyNameLine = "^\\S+\\.\\s*name\\s*=\\s*(?P<name>\\S+)$" ∧
    C02Tables.rubyVersionLine = "^\\S+\\.\\s*version\\s*=\\s*(?P<version>\\S+)$" ∧
    C02Tables.rhelRelease = "Red Hat Enterprise Linux (?:Server|Atomic Host)?\\s*(?:release)?\\s*(\\d+)(?:\\.\\d)?" ∧
    C02Tables.alpineIssue = "Alpine Linux ([[:digit:]]+\\.[[:digit:]]+)" ∧
    C02Tables.alpineEdgeIssue = "Alpine Linux [[:digit:]]+\\.\\w+ \\(edge\\)" ∧
    C02Tables.debianCodename = "\\(\\w+\\)$" ∧
    C02Tables.rpmFilePatterns = ["^.*/[^/]+\\.jar$", "^.*/site-packages/[^/]+\\.egg-info/PKG-INFO$", "^.*/package.json$",
      "^.*/[^/]+\\.gemspec$", "^/usr/s?bin/[^/]+$", "^/usr/libexec/[^/]+/[^/]+$"] := by
  decide

end tables

end ClairModel.Props.C02
