/-
  C06 — Untrusted layer content cannot hang or crash the indexer.
  Property theorems only; helper lemmas live in Proofs/.
-/
import ClairModel.Model.TarSeg

namespace ClairModel.Props.C06
open ClairModel

end ClairModel.Props.C06
