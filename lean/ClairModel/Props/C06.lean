/-
  C06 — Untrusted layer content cannot hang or crash the indexer.
  Property theorems only; helper lemmas live in Proofs/.

  The models (Model/TarSeg.lean, ...) are tied to pkg/tarfs/parse.go, ... by the
  differential run of `./check C06` (the real functions and the model answer
  the same mutated inputs, including the number of ReadAt calls made).
-/
import ClairModel.Proofs.TarSeg
import ClairModel.Proofs.RpmHeader
import ClairModel.Proofs.RpmDb
import ClairModel.Proofs.RpmFiles
import ClairModel.Proofs.DockerLex
import ClairModel.Proofs.TarLinks
import ClairModel.Gen.Tar
import ClairModel.Gen.C06Guards

namespace ClairModel.Props.C06
open ClairModel

/-! ## tar segment finder (pkg/tarfs/parse.go) -/

/-- `parseNumber` never yields a value outside int64, whatever the field bytes. -/
theorem parseNumber_range (b : TarSeg.Bytes) (v : Int) (h : TarSeg.parseNumber b = some v) :
    -(TarSeg.two63 : Int) ≤ v ∧ v < (TarSeg.two63 : Int) :=
  TarSeg.parseNumber_range b v h

/-- Only the base-256 form (high bit of the first byte) can produce a negative number. -/
theorem parseNumber_text_nonneg (c0 : UInt8) (rest : TarSeg.Bytes) (v : Int)
    (hb : (c0 &&& 0x80 != 0) = false) (h : TarSeg.parseNumber (c0 :: rest) = some v) : 0 ≤ v :=
  TarSeg.parseNumber_text_nonneg c0 rest v hb h

/-- Time: `findSegments` (a definition Lean accepts without fuel, i.e. it
    terminates on every byte string) makes at most two reads per 512-byte block
    of the input plus two. -/
theorem findSegments_reads_linear (data : TarSeg.Bytes) :
    (TarSeg.findSegments data).reads ≤ 2 * (data.length / 512) + 2 := by
  have := TarSeg.scan_reads_le data 0 0 false
  simpa [TarSeg.findSegments] using this

/-- Memory: at most one segment per block of input. -/
theorem segments_le_blocks (data : TarSeg.Bytes) (ss : List TarSeg.Segment)
    (h : (TarSeg.findSegments data).out = .ok ss) : ss.length ≤ data.length / 512 :=
  TarSeg.scan_segs_le data 0 0 false ss h

/-- Every segment is block aligned, at least one block long, and ends less
    than one block after the end of the input: no reader is ever created over a
    region the archive does not have (only the padding of the last entry may be
    missing). -/
theorem segments_within_input (data : TarSeg.Bytes) (ss : List TarSeg.Segment)
    (h : (TarSeg.findSegments data).out = .ok ss) :
    ∀ s ∈ ss, s.start % 512 = 0 ∧ 512 ≤ s.size ∧ s.size % 512 = 0 ∧ s.start + s.size < data.length + 512 := by
  intro s hs
  have := TarSeg.scan_within data 0 0 false ss (Nat.le_refl _) h s hs
  omega

/-- Segments are reported in archive order and do not overlap. -/
theorem segments_disjoint_sorted (data : TarSeg.Bytes) (ss : List TarSeg.Segment)
    (h : (TarSeg.findSegments data).out = .ok ss) : TarSeg.Sorted ss :=
  TarSeg.scan_sorted data 0 0 false ss (Nat.le_refl _) h

/-- A ustar header block for a regular file whose size field is the base-256
    encoding of −512. -/
def negSizeHeader : TarSeg.Bytes :=
  List.replicate 124 0 ++ [0xff, 0xff, 0xff, 0xff, 0xff, 0xff, 0xff, 0xff, 0xff, 0xff, 0xfe, 0x00] ++
  List.replicate 20 0 ++ [48] ++ List.replicate 100 0 ++ TarSeg.magicPAX ++ TarSeg.version00 ++ List.replicate 247 0

/-- Before the fix (no `sz < 0` check) one iteration on that block leaves the
    block pointer where it was and appends a segment: the loop never ends and
    allocates without bound.  (`fixed:` d60fc8cb) -/
theorem findSegments_loops_counterexample (st : TarSeg.St) (hz : st.zeroes = false) :
    TarSeg.iterUnguarded negSizeHeader st =
      some { blk := st.blk, cur := st.blk, zeroes := false, nsegs := st.nsegs + 1 } := by
  have hh : TarSeg.header false negSizeHeader = .next (-512) .data := by decide +kernel
  have hzb : TarSeg.isZeroBlock negSizeHeader = false := by decide +kernel
  have hn : TarSeg.nBlkOf (-512) = -1 := by decide
  cases st
  simp only at hz
  subst hz
  simp only [TarSeg.iterUnguarded, hzb, hh, hn]
  simp
  omega

/-- The code as fixed rejects that block. -/
theorem negative_size_rejected : TarSeg.header true negSizeHeader = .fail .negSize := by
  decide +kernel

/-- a well-formed header block (3-byte regular file) passes every check of one
    loop iteration (whole-archive examples are in corpus/C06/01-tar.ops, answered
    identically by the model driver and the real code on every run) -/
def okHeader : TarSeg.Bytes :=
  List.replicate 124 0 ++ [48, 48, 48, 48, 48, 48, 48, 48, 48, 48, 51, 0] ++
  List.replicate 20 0 ++ [48] ++ List.replicate 100 0 ++ TarSeg.magicPAX ++ TarSeg.version00 ++ List.replicate 247 0

example : TarSeg.header true okHeader = .next 3 .data := by decide +kernel

/-- Tie A: the constants the model of `findSegments` uses are the ones in the
    current source of pkg/tarfs/parse.go (block size, field offsets, magic
    strings, version, length of the size field, the two typeflag lists), and the
    source still has the two checks the termination / bounds theorems rest on. -/
theorem tar_constants_match_source :
    TarSeg.blockSz = Gen.Tar.blockSz ∧ TarSeg.magicOff = Gen.Tar.magicOff ∧ TarSeg.versionOff = Gen.Tar.versionOff ∧
    TarSeg.typeflagOff = Gen.Tar.typeflag ∧ TarSeg.sizeOff = Gen.Tar.sizeOff ∧ TarSeg.sizeLen = Gen.Tar.sizeLen ∧
    TarSeg.magicPAX = Gen.Tar.magicPAX ∧ TarSeg.magicGNU = Gen.Tar.magicGNU ∧ TarSeg.magicOldGNU = Gen.Tar.magicOldGNU ∧
    TarSeg.version00 = Gen.Tar.version ∧ TarSeg.prependFlags = Gen.Tar.prependFlags ∧ TarSeg.dataFlags = Gen.Tar.dataFlags ∧
    Gen.Tar.rejectsNegativeSize = true ∧ Gen.Tar.probesLastContentByte = true := by
  decide

/-! ## opening a member through links (pkg/tarfs/tarfs.go `open`) -/

/-- Time: opening a member (a definition Lean accepts without fuel: both loops
    count their hops against the number of inodes) looks names up at most
    2·(members + 1) + 4 times, whatever the links say: a chain of symbolic links
    is given up after one hop per inode, a chain of hard links likewise. -/
theorem tarfs_open_lookups_linear (a : TarLinks.Archive) (i : Nat) :
    (TarLinks.openMember a i).2 ≤ 2 * (a.length + 1) + 4 := by
  have := TarLinks.openAt_lookups a i 0
  unfold TarLinks.openMember
  simp only [TarLinks.inodes] at this ⊢
  omega

/-- two symbolic links naming each other, and a hard link naming itself: both
    are reported as invalid instead of being followed forever (daa67834) -/
theorem tarfs_open_cycles_rejected :
    (TarLinks.openMember [.sym 1, .sym 0] 0).1 = .invalid ∧ (TarLinks.openMember [.hard 0] 0).1 = .invalid := by
  constructor
  · simp [TarLinks.openMember, TarLinks.openAt, TarLinks.getInode, TarLinks.inodes]
  · simp [TarLinks.openMember, TarLinks.openAt, TarLinks.hardLoop, TarLinks.getInode, TarLinks.inodes]

/-! ## rpm header (rpm/internal/rpm/header.go) and Info.Load (rpm/native_db.go) -/

/-- If `Header.Parse` accepts a blob then every index entry it verified lies
    inside the data arena: 0 ≤ offset ≤ dataSize, 1 ≤ count ≤ dataSize, a known
    type, aligned for its type; with a region, the region entry is a 16-byte BIN
    value inside the arena and the rest are verified. -/
theorem rpm_accept_bounds (b : RpmHeader.Bytes) (h : RpmHeader.Header) (hp : RpmHeader.parse b = some h) :
    (h.region = 0 → ∀ e ∈ h.entries, RpmHeader.Bounded h.data.length e) ∧
    (h.region ≠ 0 → ∃ e0 rest, h.entries = e0 :: rest ∧ e0.typ = 7 ∧ e0.count = 16 ∧ 0 ≤ e0.offset ∧
        e0.offset + 16 ≤ (h.data.length : Int) ∧ ∀ e ∈ rest, RpmHeader.Bounded h.data.length e) :=
  RpmHeader.parse_bounds b h hp

/-- Memory: the slices `ReadData` makes for a verified entry hold at most 16
    bytes per counted element, and the count is at most the size of the data
    arena: no allocation beyond 16 × (size of the header). -/
theorem readData_alloc_le (n : Nat) (e : RpmHeader.Entry) (hb : RpmHeader.Bounded n e) :
    RpmHeader.allocOf e ≤ 16 * n :=
  RpmHeader.allocOf_le n e hb

/-- `Header.Parse` followed by `Info.Load` never panics, whatever the bytes:
    the type assertions of `Load` (regenerated from the source: Gen.Rpm.loadAsserts)
    are all checked, every value it indexes with `[0]` has count ≥ 1 by
    `verifyInfo`/`verifyRegion`, empty file names are skipped before `name[1:]`
    and the file name loop that follows runs under `recover`. -/
theorem load_no_panic (b : RpmHeader.Bytes) : RpmHeader.run b ≠ .panic := by
  unfold RpmHeader.run
  split
  · simp
  · rename_i h hp
    have hg : Gen.Rpm.filenamesGuardsEmpty = true := by decide
    have hchk : ∀ a ∈ Gen.Rpm.loadAsserts, a.2.2 = true := by decide
    rw [hg]
    exact RpmHeader.loadLoop_no_panic _ _ hchk _ _ (RpmHeader.parse_count_pos b h hp)

/-- The 28-byte header of DESIGN §5 row 16: one entry, `TagName` typed INT32. -/
def nameInt32Header : RpmHeader.Bytes :=
  [0, 0, 0, 1,  0, 0, 0, 4,   0, 0, 3, 232,  0, 0, 0, 4,  0, 0, 0, 0,  0, 0, 0, 1,   0, 0, 0, 1]

example : (RpmHeader.parse nameInt32Header).isSome = true := by decide +kernel

/-- With the bare assertions `v.(string)` of the code before the fix
    (`fixed:` 309787f9) that header is accepted by `Parse` (no region, so no
    type check) and `Load` panics. -/
theorem load_panics_counterexample :
    (RpmHeader.parse nameInt32Header).map (RpmHeader.load RpmHeader.uncheckedAsserts true) = some .panic := by
  decide +kernel

/-- ... and with the type check ON (immutable region) a `TagName` typed
    STRING_ARRAY passes `checkTagType` (same class) and panicked the same way. -/
def nameStrArrayHeader : RpmHeader.Bytes :=
  [0, 0, 0, 2,  0, 0, 0, 18,
   0, 0, 0, 64,  0, 0, 0, 7,  0, 0, 0, 2,  0, 0, 0, 16,
   0, 0, 3, 232,  0, 0, 0, 8,  0, 0, 0, 0,  0, 0, 0, 1,
   97, 0,
   0, 0, 0, 64,  0, 0, 0, 7,  255, 255, 255, 224,  0, 0, 0, 16]

theorem load_panics_typechecked_counterexample :
    (RpmHeader.parse nameStrArrayHeader).map (RpmHeader.load RpmHeader.uncheckedAsserts true) = some .panic := by
  decide +kernel

/-- The code as fixed reports an error for both. -/
theorem load_rejects_witnesses :
    RpmHeader.run nameInt32Header = .loadErr ∧ RpmHeader.run nameStrArrayHeader = .loadErr := by
  decide +kernel

/-! ## the file names of Info.Load (rpm/native_db.go) -/

/-- Tie A: the six alternatives `RpmFiles.filePattern` models are the ones in
    the current source, and the loop that indexes `dirname[dirindex[j]]` with
    values from the header still runs under the deferred `recover`. -/
theorem rpm_file_patterns_match_source :
    Gen.Rpm.filePatterns = RpmFiles.expectedPatterns ∧ Gen.Rpm.fileLoopUnderRecover = true := by
  decide

/-- The file-name loop never takes `Info.Load` down: an index outside
    `dirindex` or `dirname` (fewer indexes than base names, an index that is
    negative or past the directory list) ends in the `recover` and leaves no
    file names. -/
theorem rpm_filenames_no_panic (h : RpmHeader.Header) : RpmFiles.fileNames h ≠ .panic := by
  unfold RpmFiles.fileNames RpmFiles.fileNamesOf
  have hr : Gen.Rpm.fileLoopUnderRecover = true := by decide
  rw [hr]
  split <;> simp

/-- ... and it gets through exactly when every base name has an index and the
    index names a directory: the malformed arrays are precisely the ones that
    are caught. -/
theorem rpm_fileloop_ok_iff (dirnames : List RpmFiles.Bytes) (dirindexes : List Int) (basenames acc : List RpmFiles.Bytes) :
    (RpmFiles.fileLoop dirnames dirindexes basenames 0 acc).isSome = true ↔
      ∀ k, k < basenames.length → ∃ ix, dirindexes[k]? = some ix ∧ 0 ≤ ix ∧ ix.toNat < dirnames.length := by
  have := RpmFiles.fileLoop_isSome_iff dirnames dirindexes basenames 0 acc
  simpa [RpmFiles.IndexesOK] using this

/-- `name[1:]` is only taken of names that matched `filePatterns`, and no
    empty string matches. -/
theorem rpm_file_pattern_nonempty (s : RpmFiles.Bytes) (h : RpmFiles.filePattern s = true) : 1 ≤ s.length := by
  cases s with
  | nil => exact absurd h (by decide)
  | cons _ _ => simp

/-- Steps and count: one iteration per base name, at most one recorded name
    each (on top of what the `TagFilenames` arm recorded). -/
theorem rpm_filenames_count_le (dirnames : List RpmFiles.Bytes) (dirindexes : List Int) (basenames acc out : List RpmFiles.Bytes)
    (h : RpmFiles.fileLoop dirnames dirindexes basenames 0 acc = some out) : out.length ≤ acc.length + basenames.length :=
  RpmFiles.fileLoop_length_le _ _ _ _ _ _ h

/-- `path.Join` never returns more than its two arguments and the separator
    (`path.Clean` only removes). -/
theorem rpm_join_length_le (dir base : RpmFiles.Bytes) : (RpmFiles.join dir base).length ≤ dir.length + base.length + 1 :=
  RpmFiles.join_length_le dir base

/-- FULL STATEMENT (memory proportional to the header) — violated by the
    unchanged code: every base name is joined with a directory name that many
    base names may share, so the recorded names together can be far larger than
    the data they come from.  24 base names `x.jar` under one 48-byte directory:
    the three arrays take 289 bytes of header data, the names recorded 1272.
    (`finding:` rpm-filenames-quadratic; the harness replays a 12 KB header that
    makes `Info.Load` allocate several thousand times its size.) -/
def sharedDir : RpmFiles.Bytes := 47 :: List.replicate 47 97
def jarBase : RpmFiles.Bytes := [120, 46, 106, 97, 114]

theorem rpm_filenames_quadratic_counterexample :
    ((RpmFiles.fileLoop [sharedDir] (List.replicate 24 0) (List.replicate 24 jarBase) 0 []).map
        fun fs => (fs.map (·.length)).sum) = some 1272 ∧
    sharedDir.length + 1 + 24 * (jarBase.length + 1) + 24 * 4 = 289 := by
  decide +kernel

/-- what IS bounded: a recorded name is at most as long as its directory, its
    base name and the separator, so the total is at most
    (#base names) × (longest directory + longest base name + 1). -/
theorem rpm_filenames_partial (d b : RpmFiles.Bytes) : ((RpmFiles.join d b).drop 1).length ≤ d.length + b.length := by
  have := RpmFiles.join_length_le d b
  simp only [List.length_drop]
  omega

/-! ## the Dockerfile lexer (rhel/dockerfile/lex.go) -/

/-- Time: the lexer (a definition Lean accepts without fuel: every item
    consumes at least one rune) yields at most one item per byte of the file,
    plus the final EOF, whatever the escape rune is. -/
theorem dlex_items_le (esc : Nat) (b : DockerLex.Bytes) : (DockerLex.lex esc b).length ≤ b.length + 1 := by
  have h1 := (DockerLex.lexAll_bounds esc (DockerLex.decodeAll b) 0).1
  have h2 := DockerLex.decodeAll_length_le b
  unfold DockerLex.lex
  omega

/-- Memory: the values of all items together hold at most as many runes as
    the file has (every rune written to the builder, the re-written escape rune
    included, stands for a rune read), i.e. at most 4 bytes per byte read. -/
theorem dlex_runes_le (esc : Nat) (b : DockerLex.Bytes) :
    DockerLex.written (DockerLex.lex esc b) ≤ (DockerLex.decodeAll b).length ∧ (DockerLex.decodeAll b).length ≤ b.length :=
  ⟨(DockerLex.lexAll_bounds esc (DockerLex.decodeAll b) 0).2, DockerLex.decodeAll_length_le b⟩

/-! ## rpm/bdb and rpm/ndb walkers -/

/-- bdb: `Parse` + `AllHeaders` (definitions Lean accepts without fuel) link at
    most one overflow page per page of the file into the headers they hand out:
    every chain hop marks a page that was not marked before, so the walk is
    linear in the file whatever the page links say. -/
theorem bdb_walk_linear (file : RpmDb.Bytes) (rs : List RpmDb.Hdr)
    (h : RpmDb.Bdb.allHeaders file = some (some rs)) : RpmDb.hops rs ≤ file.length / 512 + 1 := by
  unfold RpmDb.Bdb.allHeaders at h
  split at h; · cases h
  rename_i db hp
  obtain ⟨hps, hfile⟩ := RpmDb.Bdb.parse_pageSz file db hp
  split at h
  · injection h with h
    have := RpmDb.Bdb.pages_count db 0 _ [] _ rs h
    rw [RpmDb.Bdb.count_replicate_false] at this
    simp only [RpmDb.hops_nil, Nat.zero_add, RpmDb.Bdb.pageBound, hfile] at this
    have : file.length / db.pageSz ≤ file.length / 512 := Nat.div_le_div_left hps (by decide)
    omega
  · injection h with h; cases h

/-- A three-page database whose page 2 is not an overflow page. -/
def bdbStuckWitness : RpmDb.Bytes :=
  List.replicate 12 0 ++ [0x61, 0x15, 0x06, 0x00] ++ List.replicate 4 0 ++ [0, 2, 0, 0] ++ [0, 8] ++
  List.replicate 6 0 ++ [2, 0, 0, 0] ++ List.replicate 476 0 ++
  List.replicate 512 0 ++
  List.replicate 25 0 ++ [9] ++ List.replicate 486 0

/-- ... and one whose page 2 is an overflow page that names itself as the next page. -/
def bdbCycleWitness : RpmDb.Bytes :=
  List.replicate 12 0 ++ [0x61, 0x15, 0x06, 0x00] ++ List.replicate 4 0 ++ [0, 2, 0, 0] ++ [0, 8] ++
  List.replicate 6 0 ++ [2, 0, 0, 0] ++ List.replicate 476 0 ++
  List.replicate 512 0 ++
  List.replicate 16 0 ++ [2, 0, 0, 0] ++ List.replicate 5 0 ++ [7] ++ List.replicate 486 0

/-- Before the fix (`fixed:` ef45a299) the chain loop did not move on either:
    on the first the loop variable stays 2 (`continue`), on the second it stays 2
    and a section is appended on every turn (unbounded memory). -/
theorem bdb_chain_loops_counterexample :
    (RpmDb.Bdb.parse bdbStuckWitness).map (fun db => RpmDb.Bdb.chainIterUnfixed db 2) = some (some (2, false)) ∧
    (RpmDb.Bdb.parse bdbCycleWitness).map (fun db => RpmDb.Bdb.chainIterUnfixed db 2) = some (some (2, true)) := by
  decide +kernel

/-- ndb: every slot `Parse` keeps was read from inside the file, so there are
    at most (size − 32) / 16 of them. -/
theorem ndb_slots_within_file (file : RpmDb.Bytes) (ss : List RpmDb.Ndb.Slot)
    (h : RpmDb.Ndb.parse file = some ss) : ss.length * 16 + 32 ≤ file.length := by
  unfold RpmDb.Ndb.parse at h
  split at h; · cases h
  split at h; · cases h
  split at h; · cases h
  have := RpmDb.Ndb.slots_len file _ 32 [] ss h (by omega)
  simp only [List.length_nil] at this
  omega

/-- ndb: a header is only handed out for a blob that lies inside the file
    (start, declared block count and trailer all read successfully). -/
theorem ndb_blob_within_file (file : RpmDb.Bytes) (s : RpmDb.Ndb.Slot) (id : Nat) (sec : RpmDb.Section)
    (h : RpmDb.Ndb.getHeader file s id = some sec) :
    s.blkOffset * 16 + s.blkCount * 16 ≤ file.length ∧ sec.start = s.blkOffset * 16 + 16 ∧ sec.start ≤ file.length :=
  RpmDb.Ndb.getHeader_within file s id sec h

/-! ## the repaired defects stay repaired (Tie A over the sources of today) -/

/-- Every check a `fix:` commit of this property put into the repository is
    still in the source, by its shape in the function it lives in (regenerated
    on every run: Gen.C06Guards): the hop bounds and the size check of tarfs, the
    finalizer order of `Layer.Init`, the restart condition of dpkg's
    `parseStatus`, the length guards of the apk and os-release readers, the three
    limits of java/jar, the concurrency default of `NewLayerScanner`, the close on
    a failed ping of `sqlite.Open`, the clamped hint of ndb `Parse`, the slot-area
    check of `XDB.Parse`, the cached "no database" answer of the rpm files cache,
    the file-wide seen set of bdb, the bound on expanded Dockerfile values. The
    witnesses of the defects are replayed by the harness as well; this obligation
    fails as soon as a guard is edited away, whatever the generators draw. -/
theorem fixed_defect_guards_present : Gen.C06Guards.all.all (·.2) = true := by
  decide

end ClairModel.Props.C06
