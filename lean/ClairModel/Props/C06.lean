/-
  C06 — Untrusted layer content cannot hang or crash the indexer.
  Property theorems only; helper lemmas live in Proofs/.

  The models (Model/TarSeg.lean, ...) are tied to pkg/tarfs/parse.go, ... by the
  differential run of `./check C06` (the real functions and the model answer
  the same mutated inputs, including the number of ReadAt calls made).
-/
import ClairModel.Proofs.TarSeg

namespace ClairModel.Props.C06
open ClairModel

/-! ## tar segment finder (pkg/tarfs/parse.go) -/

/-- `parseNumber` never yields a value outside int64, whatever the field bytes. -/
theorem parseNumber_range (b : TarSeg.Bytes) (v : Int) (h : TarSeg.parseNumber b = some v) :
    -(TarSeg.two63 : Int) ≤ v ∧ v < (TarSeg.two63 : Int) :=
  TarSeg.parseNumber_range b v h

/-- Only the base-256 form (high bit of the first byte) can produce a negative number. -/
theorem parseNumber_text_nonneg (c0 : UInt8) (rest : TarSeg.Bytes) (v : Int)
    (hb : (c0 &&& 0x80 != 0) = false) (h : TarSeg.parseNumber (c0 :: rest) = some v) : 0 ≤ v :=
  TarSeg.parseNumber_text_nonneg c0 rest v hb h

/-- Time: `findSegments` (a definition Lean accepts without fuel, i.e. it
    terminates on every byte string) makes at most two reads per 512-byte block
    of the input plus two. -/
theorem findSegments_reads_linear (data : TarSeg.Bytes) :
    (TarSeg.findSegments data).reads ≤ 2 * (data.length / 512) + 2 := by
  have := TarSeg.scan_reads_le data 0 0 false
  simpa [TarSeg.findSegments] using this

/-- Memory: at most one segment per block of input. -/
theorem segments_le_blocks (data : TarSeg.Bytes) (ss : List TarSeg.Segment)
    (h : (TarSeg.findSegments data).out = .ok ss) : ss.length ≤ data.length / 512 :=
  TarSeg.scan_segs_le data 0 0 false ss h

/-- Every segment is block aligned, at least one block long, and ends less
    than one block after the end of the input: no reader is ever created over a
    region the archive does not have (only the padding of the last entry may be
    missing). -/
theorem segments_within_input (data : TarSeg.Bytes) (ss : List TarSeg.Segment)
    (h : (TarSeg.findSegments data).out = .ok ss) :
    ∀ s ∈ ss, s.start % 512 = 0 ∧ 512 ≤ s.size ∧ s.size % 512 = 0 ∧ s.start + s.size < data.length + 512 := by
  intro s hs
  have := TarSeg.scan_within data 0 0 false ss (Nat.le_refl _) h s hs
  omega

/-- Segments are reported in archive order and do not overlap. -/
theorem segments_disjoint_sorted (data : TarSeg.Bytes) (ss : List TarSeg.Segment)
    (h : (TarSeg.findSegments data).out = .ok ss) : TarSeg.Sorted ss :=
  TarSeg.scan_sorted data 0 0 false ss (Nat.le_refl _) h

/-- A ustar header block for a regular file whose size field is the base-256
    encoding of −512. -/
def negSizeHeader : TarSeg.Bytes :=
  List.replicate 124 0 ++ [0xff, 0xff, 0xff, 0xff, 0xff, 0xff, 0xff, 0xff, 0xff, 0xff, 0xfe, 0x00] ++
  List.replicate 20 0 ++ [48] ++ List.replicate 100 0 ++ TarSeg.magicPAX ++ TarSeg.version00 ++ List.replicate 247 0

/-- Before the fix (no `sz < 0` check) one iteration on that block leaves the
    block pointer where it was and appends a segment: the loop never ends and
    allocates without bound.  (`fixed:` d60fc8cb) -/
theorem findSegments_loops_counterexample (st : TarSeg.St) (hz : st.zeroes = false) :
    TarSeg.iterUnguarded negSizeHeader st =
      some { blk := st.blk, cur := st.blk, zeroes := false, nsegs := st.nsegs + 1 } := by
  have hh : TarSeg.header false negSizeHeader = .next (-512) .data := by decide +kernel
  have hzb : TarSeg.isZeroBlock negSizeHeader = false := by decide +kernel
  have hn : TarSeg.nBlkOf (-512) = -1 := by decide
  cases st
  simp only at hz
  subst hz
  simp only [TarSeg.iterUnguarded, hzb, hh, hn]
  simp
  omega

/-- The code as fixed rejects that block. -/
theorem negative_size_rejected : TarSeg.header true negSizeHeader = .fail .negSize := by
  decide +kernel

end ClairModel.Props.C06
