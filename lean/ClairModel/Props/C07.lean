/-
  C07 — Indexing never claims success it did not achieve, under any fault.

  Property theorems only. The model (Model/Indexer.lean) is the controller
  `run` loop with its six state functions over a store machine, every
  datastore / realizer / scanner call answered by a fault oracle (ordinary
  error, Canceled / DeadlineExceeded errors, cancellation of the caller's
  context during or after a call, process crash, effect-then-error). It is
  tied to /repo by the extracted state table (Gen/Controller.lean) and by the
  fault-enumeration correspondence of `./check C07`.

  `sem` (what each scanner finds in each layer, the coalescers) is arbitrary
  throughout; scanners are deterministic functions of (scanner, layer).
-/
import ClairModel.Lib.Sm
import ClairModel.Proofs.IndexerFF
import ClairModel.Proofs.IndexerHist
import ClairModel.Proofs.ScanPar
import ClairModel.Proofs.IndexerExt
import ClairModel.Proofs.RunClock
import ClairModel.Proofs.ScanSched
import ClairModel.Gen.Controller

-- every variable of a property statement is bound explicitly: a misspelt name is an error, not a new variable
set_option autoImplicit false

namespace ClairModel.Props.C07
open ClairModel ClairModel.Indexer

/-! ## The persistent half: what the store's records mean, at every crash point -/

/-- The store invariant holds after any history of reconfigurations and Index
    calls, each under an arbitrary fault oracle (any number of failures of any
    kind at any positions, including a crash = abandoning the call at any
    point). Since a crash is a fault of the oracle, every prefix of every call
    sequence is covered. -/
theorem reachable_inv (sem : Sem) (ops : List Op) : Inv sem (Sm.run (step sem) {} ops).st :=
  Sm.invariant_run (step := step sem) (Inv := fun (wd : World) => Inv sem wd.st)
    (fun (wd : World) op h => by
      cases op with
      | config cfg => exact h
      | index m o d => exact (index_spec sem o wd.cfg m wd.st d h).inv
      | delete ms => exact Store.inv_deleteManifests ms h)
    ops ({} : World) (inv_empty sem)

/-- A manifest is recorded as indexed by a scanner only if the manifest was
    persisted, its content was written to the search index, a report is stored,
    and that scanner ran on every layer with all of its results stored. -/
theorem scanned_implies_complete (sem : Sem) (ops : List Op) (m : Manifest) (s : Scanner)
    (h : (m, s) ∈ (Sm.run (step sem) {} ops).st.scannedManifest) :
    let st := (Sm.run (step sem) {} ops).st
    m ∈ st.manifests ∧ (∃ b, (m, b) ∈ st.index) ∧ (st.report? m).isSome ∧
    ∀ l, l ∈ m → (l, s) ∈ st.scannedLayer ∧ ∀ r, r ∈ sem.scan s l → (⟨l, s, r⟩ : ArtRow) ∈ st.rows := by
  intro st
  have hi := reachable_inv sem ops
  refine ⟨hi.manifestPersisted m s h, hi.manifestIndexed m s h, hi.manifestReport m s h, ?_⟩
  intro l hl
  have hls := hi.manifestLayers m s h l hl
  exact ⟨hls, hi.layerComplete l s hls⟩

/-- A layer is marked scanned by a scanner only after that scanner's artifacts
    for it are stored: the stored rows of a marked (layer, scanner) pair are
    exactly what the scanner finds in the layer. -/
theorem layer_marked_after_stored (sem : Sem) (ops : List Op) (l : Layer) (s : Scanner)
    (h : (l, s) ∈ (Sm.run (step sem) {} ops).st.scannedLayer) (r : Row) :
    (⟨l, s, r⟩ : ArtRow) ∈ (Sm.run (step sem) {} ops).st.rows ↔ r ∈ sem.scan s l :=
  ⟨fun hr => (reachable_inv sem ops).rowsSound _ hr, fun hr => (reachable_inv sem ops).layerComplete l s h r hr⟩

/-- Nothing is ever un-recorded by an Index call, whatever fails. -/
theorem index_only_grows (sem : Sem) (o : Oracle) (cfg : Cfg) (m : Manifest) (st : Store) (d : Bool) (hi : Inv sem st) :
    Le st (index sem o cfg m st d).st :=
  (index_spec sem o cfg m st d hi).le

/-- Indexing one manifest never changes the report or the scanned marks of another. -/
theorem other_manifests_untouched (sem : Sem) (o : Oracle) (cfg : Cfg) (m m' : Manifest) (st : Store) (d : Bool)
    (hi : Inv sem st) (hne : m' ≠ m) :
    (index sem o cfg m st d).st.report? m' = st.report? m' ∧
    ∀ s, (m', s) ∈ (index sem o cfg m st d).st.scannedManifest ↔ (m', s) ∈ st.scannedManifest :=
  ⟨(index_spec sem o cfg m st d hi).frame.report m' hne, fun s => (index_spec sem o cfg m st d hi).frame.scanned m' s hne⟩

/-- `LayerScanner.Scan` with any number of scanner goroutines (Model/ScanPar):
    every goroutine runs the `scanLayer` program for its (layer, scanner) pair,
    the store calls are atomic and interleave arbitrarily, each call may
    succeed, fail, or take effect and fail. Whatever the interleaving and the
    failures, the store invariant is kept: in particular a layer is never
    marked scanned before all of that scanner's artifacts for it are stored. -/
theorem scan_interleavings_keep_invariant (sem : Sem) (st : Store) (hi : Inv sem st)
    (ps : List (Layer × Scanner)) (ops : List ScanPar.POp) :
    Inv sem (Sm.run (ScanPar.step sem) (ScanPar.spawn st ps) ops).st :=
  (ScanPar.pinv_run sem ops _ (ScanPar.pinv_spawn sem st ps hi)).inv

/-- The same for the whole of `LayerScanner.Scan` as the code runs it
    (Model/ScanSched: the main loop with its per-layer context check, digest
    de-duplication and `SetLimit`, closures that first look at the group's
    context, errgroup cancellation after the first error, calls failing once the
    group or the caller is cancelled), under any schedule of its participants,
    any concurrency limit, any fault of any call: the store invariant is kept
    and no record is removed. This machine is the one the harness drives the
    real goroutines through (hook points `layerscanner.*`), step by step. -/
theorem scan_schedules_keep_invariant (sem : Sem) (run : List Scanner) (limit : Nat) (w : W) (m : Manifest)
    (hi : Inv sem w.st) (sched : List ScanSched.Grant) :
    Inv sem (ScanSched.runSched sem run limit (ScanSched.init w m) sched).w.st ∧
    Le w.st (ScanSched.runSched sem run limit (ScanSched.init w m) sched).w.st :=
  let h := ScanSched.runSched_spec sem run limit sched (ScanSched.init w m) (ScanSched.init_sinv hi m)
  ⟨h.1.inv, h.2⟩

/-! ## The reporting half -/

/-- If Index returns a nil error and a report marked successful, the manifest
    is recorded as scanned by every configured scanner and the stored report is
    the returned one (hence, by `scanned_implies_complete`, everything was
    persisted) — provided no call is answered with a DeadlineExceeded-class
    error while the caller's context is live. Every other fault is allowed. -/
theorem claimed_success_is_complete_partial (sem : Sem) (o : Oracle) (cfg : Cfg) (m : Manifest) (st : Store) (d : Bool)
    (hi : Inv sem st) (hnd : NoDeadline o) (rep : Report)
    (herr : (index sem o cfg m st d).err = none) (hrep : (index sem o cfg m st d).report = some rep)
    (hs : rep.success = true) :
    (index sem o cfg m st d).st.manifestScanned m cfg.scanners = true ∧
    (index sem o cfg m st d).st.report? m = some rep :=
  (index_spec sem o cfg m st d hi).success hnd herr rep hrep hs

/-- A failed call is reported: if any datastore / realizer / scanner call of
    the Index call failed, Index returns an error — under the same hypothesis. -/
theorem failure_reported_partial (sem : Sem) (o : Oracle) (cfg : Cfg) (m : Manifest) (st : Store) (d : Bool)
    (hi : Inv sem st) (hnd : NoDeadline o) (hf : (index sem o cfg m st d).e.failed = true) :
    (index sem o cfg m st d).err ≠ none :=
  (index_spec sem o cfg m st d hi).failed hnd hf

/-! ## The statement at full strength is false of the code: witnesses -/

namespace Witness
/-- Scanners find nothing; one package scanner. -/
def sem0 : Sem := { scan := fun _ _ => [], real := fun _ => false, coal := fun _ _ => [], merge := fun _ => [] }
def cfg0 : Cfg := [{ ps := [⟨"a", "1", .pkg⟩], ds := [], rs := [], fs := [] }]
def faultAt (p : Nat) (f : Fault) : Oracle := fun q => if q = p then f else .ok
def clean : Oracle := fun _ => .ok
end Witness
open Witness

/-- Full-strength `failure_reported` fails: manifest [1], the layer fetch
    (call 5: M M P R L Z) returns DeadlineExceeded with the context live; a
    call failed, yet Index returns a nil error and a report that is neither
    successful nor carries an error. (finding deadline-swallowed) -/
theorem failure_reported_counterexample :
    let r := index sem0 (faultAt 5 .deadline) cfg0 [1] {} false
    r.e.failed = true ∧ r.err = none ∧ r.report.map (fun x => (x.success, x.err)) = some (false, false) := by
  decide

/-- Full-strength `claimed_success_is_complete` fails: SetIndexFinished (call
    20: M M P R, L Z R, L S K R, A B D B F C R, X R, Y) returns DeadlineExceeded; Index returns a nil error and a report with
    Success = true, but the manifest is not recorded as scanned. -/
theorem claimed_success_counterexample :
    let r := index sem0 (faultAt 20 .deadline) cfg0 [1] {} false
    r.err = none ∧ r.report.map (·.success) = some true ∧ r.st.manifestScanned [1] cfg0.scanners = false := by
  decide

/-- "scanned ⇒ the stored report is a successful one" is false, and a retry
    does not converge: index manifest [1]; index it again with ManifestScanned
    failing once (call 0); the third, fault-free call returns a nil error and
    the unsuccessful report that the failed attempt persisted over the finished
    one, and the manifest stays recorded as scanned. (finding report-clobbered) -/
theorem retry_converges_counterexample :
    let r1 := index sem0 clean cfg0 [1] {} false
    let r2 := index sem0 (faultAt 0 .err) cfg0 [1] r1.st false
    let r3 := index sem0 clean cfg0 [1] r2.st false
    r1.report.map (·.success) = some true ∧
    r3.err = none ∧ r3.report.map (fun x => (x.success, x.err)) = some (false, true) ∧
    r3.st.manifestScanned [1] cfg0.scanners = true := by
  decide

/-- The same through a lost reply: SetIndexFinished commits but the caller sees
    an error (call 20); the manifest is recorded as scanned while the stored
    report is the error report. -/
theorem lost_reply_counterexample :
    let r := index sem0 (faultAt 20 .commitErr) cfg0 [1] {} false
    r.st.manifestScanned [1] cfg0.scanners = true ∧
    (r.st.report? [1]).map (fun x => (x.success, x.err)) = some (false, true) := by
  decide

/-! ## Scanners whose configuration failed -/

/-- The deployment the theorems speak of is the one the driver runs when every
    scanner's `Configure` succeeded: `indexOff` (the model of `Libindex.Index`
    with the scanners `configAndFilter` dropped) with nothing dropped is `index`. -/
theorem index_without_dropped_scanners (sem : Sem) (o : Oracle) (cfg : Cfg) (m : Manifest) (st : Store) (d : Bool) :
    indexOff (fun _ => false) sem o cfg m st d = index sem o cfg m st d :=
  indexOff_none sem o cfg m st d

/-- `configAndFilter` drops a scanner exactly when it has a `Configure` method
    (ConfigurableScanner or RPCScanner) and that returns an error; `Configure`
    is called on exactly the scanners having one, through the RPC interface
    (with the HTTP client) when the scanner is an RPCScanner, with the
    deployment's function iff one was supplied for (kind, name). -/
theorem configAndFilter_spec (x : Impl) :
    (configOne x).2 = !((x.rpc || x.configurable) && x.fails) ∧
    (configOne x).1 = if x.rpc || x.configurable then some ⟨x.s, x.rpc, x.haveCfg, x.rpc⟩ else none :=
  ⟨configOne_kept x, configOne_event x⟩

/-- With a dropped scanner the statement is false of the code: package scanner
    `a` (Configure fails) and distribution scanner `b`; a fault-free Index of
    [1] returns a nil error and Success, the manifest is recorded as scanned by
    `a` — which never ran: no scan entry, layer 1 not recorded as scanned by it.
    (finding unconfigured-scanner-marked) -/
theorem unconfigured_scanner_counterexample :
    let a : Scanner := ⟨"a", "1", .pkg⟩
    let cfg : Cfg := [{ ps := [a], ds := [⟨"b", "1", .dist⟩], rs := [], fs := [] }]
    let r := indexOff (fun s => s == a) Witness.sem0 Witness.clean cfg [1] {} false
    r.err = none ∧ r.report.map (·.success) = some true ∧ r.st.manifestScanned [1] cfg.scanners = true ∧
    r.e.scans = [(1, ⟨"b", "1", .dist⟩)] ∧ r.st.layerScanned 1 a = false := by
  decide

/-! ## libindex.New -/

/-- `libindex.New` returns a Libindex exactly when Locker, Store, FetchArena and
    the HTTP client are present, no scanner constructor of an ecosystem fails in
    either of the two walks (`EcosystemsToScanners` in New and in
    NewLayerScanner) and `Store.RegisterScanners` succeeds. -/
theorem new_succeeds_iff (i : NewIn) :
    (newLib i).ok = true ↔
      i.locker = true ∧ i.store = true ∧ i.arena = true ∧ i.client = true ∧ i.registerErr = false ∧
      (∀ k, i.ctorErr = some k → 2 * i.nctor ≤ k) :=
  newLib_ok_iff i

/-- A failed `New` configured no scanner and hands out nothing to run; the
    store was written to (RegisterScanners) only if the arguments were complete
    and the first walk over the scanner constructors succeeded. -/
theorem new_failure_is_clean (i : NewIn) (h : (newLib i).ok = false) :
    (newLib i).events = [] ∧ (newLib i).running = [] ∧
    ((newLib i).registered = true → i.locker = true ∧ i.store = true ∧ i.arena = true ∧ i.client = true ∧
      ∀ k, i.ctorErr = some k → i.nctor ≤ k) :=
  newLib_failed i h

/-! ## The retry branch of `run` and its clock -/

/-- `controller.run` over ANY table of state functions (Model/RunClock: each
    call returns what a script says — any next state with any error class, the
    context cancelled during the call or during the wait, SetIndexReport
    failing): the retry branch waits at most once per DeadlineExceeded-class
    result, the first wait of a run lasts zero, every later one lasts `jitter()`
    (1 to 5 seconds). -/
theorem retry_waits (fuel : Nat) (script : List RunClock.Iter) :
    let ws := RunClock.waits (RunClock.run fuel script {}).1
    (ws = [] ∨ ∃ n, ws = false :: List.replicate n true) ∧ ws.length ≤ RunClock.dlCount script :=
  RunClock.run_waits fuel script {}

/-- With a table whose error returns all go to Terminal — the in-tree table,
    `gen_error_returns_terminal` — `run` never sleeps: it waits at most once,
    for a zero duration, and leaves the loop (which is why a DeadlineExceeded
    result is never retried: finding deadline-swallowed). -/
theorem retry_never_sleeps (fuel : Nat) (script : List RunClock.Iter)
    (h : ∀ it, it ∈ script → it.err ≠ none → it.next = .terminal) :
    RunClock.waits (RunClock.run fuel script {}).1 = [] ∨ RunClock.waits (RunClock.run fuel script {}).1 = [false] := by
  have h1 := (RunClock.run_waits fuel script {}).1
  have h2 := RunClock.run_terminal_errors fuel script {} h
  rcases h1 with h1 | ⟨n, h1⟩
  · exact Or.inl h1
  · right
    rw [h1] at h2 ⊢
    cases n with
    | zero => rfl
    | succ k => simp [List.replicate] at h2

/-- The finding in the loop itself: a state function returns (Terminal,
    DeadlineExceeded) on a live context — `run` persists the report, waits zero,
    clears the error and returns nil with a report that carries no error. -/
theorem run_swallows_deadline_counterexample :
    RunClock.run 3 [{ next := .terminal, err := some .dl }] {} =
      ([.call .checkManifest, .persist none false false true, .wait false],
       { cur := .checkManifest, jit := true }, none) := by
  decide

/-! ## Retry -/

/-- After any failure or crash — an Index call under an arbitrary oracle
    without lost-reply faults, on a manifest that was not already recorded as
    indexed — a later fault-free Index call on the resulting store returns a nil
    error and exactly the report a fault-free run on an empty store produces,
    and records the manifest as scanned. The starting store is any store
    reachable under a fixed configuration with stored reports intact (`Good`,
    an invariant of fault-free operation, see C08). -/
theorem retry_converges_partial (sem : Sem) (o o' : Oracle) (cfg : Cfg) (m : Manifest) (st : Store) (d : Bool)
    (hg : Good sem cfg st) (hnc : NoCommitErr o) (hnew : st.manifestScanned m cfg.scanners = false) (hff : FF o') :
    let st1 := (index sem o cfg m st d).st
    let r := index sem o' cfg m st1 false
    r.err = none ∧ r.report = some (freshReport sem cfg m) ∧
    r.st.manifestScanned m cfg.scanners = true ∧ r.st.report? m = some (freshReport sem cfg m) := by
  intro st1 r
  have hg1 : Good sem cfg st1 := good_index_faulty sem o cfg m st d hg hnc hnew
  exact index_ff_result sem o' cfg m st1 hff hg1

/-- Full strength, through deletion: after an Index call on `m` under ANY
    oracle — lost replies and failed attempts on an already indexed manifest
    included, the two cases `retry_converges_partial` has to exclude — deleting
    the manifest (`Libindex.DeleteManifests`) and indexing it again fault-free
    returns a nil error and the report of a fault-free run on an empty store,
    and records it. So the state finding report-clobbered leaves behind is
    repaired by a delete, and by nothing less. -/
theorem delete_then_retry_converges (sem : Sem) (o o' : Oracle) (cfg : Cfg) (m : Manifest) (st : Store) (d : Bool)
    (hg : Good sem cfg st) (hff : FF o') :
    let st1 := ((index sem o cfg m st d).st.deleteManifests [m])
    let r := index sem o' cfg m st1 false
    r.err = none ∧ r.report = some (freshReport sem cfg m) ∧
    r.st.manifestScanned m cfg.scanners = true ∧ r.st.report? m = some (freshReport sem cfg m) := by
  intro st1 r
  exact index_ff_result sem o' cfg m st1 hff (good_delete_after_index sem o cfg m st d hg)

/-- A fault-free Index call on an empty store returns `freshReport`. -/
theorem fresh_run (sem : Sem) (o : Oracle) (cfg : Cfg) (m : Manifest) (hff : FF o) (hne : cfg.scanners ≠ []) :
    (index sem o cfg m {} false).err = none ∧ (index sem o cfg m {} false).report = some (freshReport sem cfg m) := by
  have := index_ff_result sem o cfg m {} hff (good_empty sem cfg hne)
  exact ⟨this.1, this.2.1⟩

/-! ## The extracted state table is the model's -/

/-- `stateToStateFunc` of state.go is the table `stateFn` dispatches on. -/
theorem gen_stateToStateFunc : Gen.Controller.stateToStateFunc = stateFuncTable := by decide

/-- Every state function returns exactly the (state, error?) pairs the model's
    functions return. -/
theorem gen_returns : Gen.Controller.returns = returnTable := by decide

/-- In particular every error return goes to Terminal (which is why the retry
    branch of `run` cannot retry). -/
theorem gen_error_returns_terminal : ∀ e, e ∈ Gen.Controller.returns → e.2.2 = ["Terminal"] := by decide

/-- State names (IndexReport.State strings) in iota order. -/
theorem gen_stateNames :
    Gen.Controller.stateNames =
      [CState.terminal, .checkManifest, .fetchLayers, .scanLayers, .coalesce, .indexManifest, .indexError, .indexFinished].map CState.name ∧
    Gen.Controller.stateConsts = Gen.Controller.stateNames := by decide

end ClairModel.Props.C07
