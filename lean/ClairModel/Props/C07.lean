import ClairModel.Model.Indexer

namespace ClairModel.Props.C07
open ClairModel ClairModel.Indexer

/-- placeholder while the harness is brought up -/
theorem fuel_enough : fuel = 8 := rfl

end ClairModel.Props.C07
