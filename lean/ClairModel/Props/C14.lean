/-
  C14 — Feed parsers translate advisories faithfully, with documented severities.

  Part 1 (this section): severities.  The per-source switch tables and the
  tables of docs/concepts/severity_mapping.md are both regenerated from /repo
  on every run (Gen/Severity.lean); the theorems below are stated over them.
-/
import ClairModel.Proofs.Feeds
import ClairModel.Gen.Severity

namespace ClairModel.Props.C14
open ClairModel.Feeds ClairModel.Gen.Severity

/-- The six Severity constants of severity.go are, in order, the six strings the
    documentation lists. -/
theorem severity_names_match_doc : sevNames = docSevNames ∧ sevNames.length = 6 := by decide

/-- Debian: for EVERY string the switch of debian/severity.go returns the
    documented severity (documented strings read case-insensitively, as the code
    lower-cases; any other string → the `*` row), and each documented string
    itself maps to its documented value. -/
theorem severity_matches_doc_debian :
    (∀ s, normalize codeDebianMode codeDebian codeDebianDefault s = docLookup codeDebianMode docDebian s) ∧
    (∀ p ∈ docRows docDebian, normalize codeDebianMode codeDebian codeDebianDefault p.1 = p.2) :=
  ⟨normalize_eq_doc _ _ _ _ (by decide), by decide⟩

/-- Ubuntu (ubuntu/updater.go normalizeSeverity), exact comparison. -/
theorem severity_matches_doc_ubuntu :
    (∀ s, normalize codeUbuntuMode codeUbuntu codeUbuntuDefault s = docLookup codeUbuntuMode docUbuntu s) ∧
    (∀ p ∈ docRows docUbuntu, normalize codeUbuntuMode codeUbuntu codeUbuntuDefault p.1 = p.2) :=
  ⟨normalize_eq_doc _ _ _ _ (by decide), by decide⟩

/-- Oracle (oracle/normalizeseverity.go), exact comparison. -/
theorem severity_matches_doc_oracle :
    (∀ s, normalize codeOracleMode codeOracle codeOracleDefault s = docLookup codeOracleMode docOracle s) ∧
    (∀ p ∈ docRows docOracle, normalize codeOracleMode codeOracle codeOracleDefault p.1 = p.2) :=
  ⟨normalize_eq_doc _ _ _ _ (by decide), by decide⟩

/-- SUSE (suse/normalizeseverity.go), exact comparison. -/
theorem severity_matches_doc_suse :
    (∀ s, normalize codeSuseMode codeSuse codeSuseDefault s = docLookup codeSuseMode docSuse s) ∧
    (∀ p ∈ docRows docSuse, normalize codeSuseMode codeSuse codeSuseDefault p.1 = p.2) :=
  ⟨normalize_eq_doc _ _ _ _ (by decide), by decide⟩

/-- Photon (photon/normalizeseverity.go), exact comparison. -/
theorem severity_matches_doc_photon :
    (∀ s, normalize codePhotonMode codePhoton codePhotonDefault s = docLookup codePhotonMode docPhoton s) ∧
    (∀ p ∈ docRows docPhoton, normalize codePhotonMode codePhoton codePhotonDefault p.1 = p.2) :=
  ⟨normalize_eq_doc _ _ _ _ (by decide), by decide⟩

/-- Amazon (aws/normalizeseverity.go), exact comparison. -/
theorem severity_matches_doc_aws :
    (∀ s, normalize codeAwsMode codeAws codeAwsDefault s = docLookup codeAwsMode docAws s) ∧
    (∀ p ∈ docRows docAws, normalize codeAwsMode codeAws codeAwsDefault p.1 = p.2) :=
  ⟨normalize_eq_doc _ _ _ _ (by decide), by decide⟩

/-- Red Hat (rhel/internal/common NormalizeSeverity; used by the OVAL and the VEX
    parser), lower-casing comparison. -/
theorem severity_matches_doc_rhel :
    (∀ s, normalize codeRhelMode codeRhel codeRhelDefault s = docLookup codeRhelMode docRhel s) ∧
    (∀ p ∈ docRows docRhel, normalize codeRhelMode codeRhel codeRhelDefault p.1 = p.2) :=
  ⟨normalize_eq_doc _ _ _ _ (by decide), by decide⟩

/-- OSV `database_specific.severity` (updater/osv severityFromDBString), `EqualFold` comparison. -/
theorem severity_matches_doc_osv_db :
    (∀ s, normalize codeOsvDbMode codeOsvDb codeOsvDbDefault s = docLookup codeOsvDbMode docOsvDb s) ∧
    (∀ p ∈ docRows docOsvDb, normalize codeOsvDbMode codeOsvDb codeOsvDbDefault p.1 = p.2) :=
  ⟨normalize_eq_doc _ _ _ _ (by decide), by decide⟩

/-- Alpine: the parser's constant severity is the documented `*` row and the
    table documents nothing else. -/
theorem severity_matches_doc_alpine :
    codeAlpineConst = docDefault docAlpine ∧ docRows docAlpine = [] := by decide

/-- OSV CVSS v3: for EVERY base score (in tenths) the rating switch of
    `fromCVSS3` yields the documented band; outside the documented bands it
    reports an error. The score itself is C18's. -/
theorem severity_matches_doc_osv_cvss3 (k : Nat) : rate codeOsvV3Bands k = docRate docOsvV3 k :=
  rate_eq_docRate _ _ (by decide) k

/-- OSV CVSS v2, likewise for `fromCVSS2`. -/
theorem severity_matches_doc_osv_cvss2 (k : Nat) : rate codeOsvV2Bands k = docRate docOsvV2 k :=
  rate_eq_docRate _ _ (by decide) k

/-- The documented bands cover every score 0.0 … 10.0 (so the switch never
    takes its error branch on a score in range). -/
theorem osv_bands_total :
    (∀ k, k ≤ 100 → (rate codeOsvV3Bands k).isSome) ∧ (∀ k, k ≤ 100 → (rate codeOsvV2Bands k).isSome) := by
  have h3 : ∀ k ∈ List.range 101, (rate codeOsvV3Bands k).isSome := by decide
  have h2 : ∀ k ∈ List.range 101, (rate codeOsvV2Bands k).isSome := by decide
  exact ⟨fun k hk => h3 k (List.mem_range.2 (by omega)), fun k hk => h2 k (List.mem_range.2 (by omega))⟩

/-- Every severity any of the switches can return, for any input string or
    score, is one of the six defined values. -/
theorem severity_in_range :
    (∀ s, normalize codeDebianMode codeDebian codeDebianDefault s < sevNames.length) ∧
    (∀ s, normalize codeUbuntuMode codeUbuntu codeUbuntuDefault s < sevNames.length) ∧
    (∀ s, normalize codeOracleMode codeOracle codeOracleDefault s < sevNames.length) ∧
    (∀ s, normalize codeSuseMode codeSuse codeSuseDefault s < sevNames.length) ∧
    (∀ s, normalize codePhotonMode codePhoton codePhotonDefault s < sevNames.length) ∧
    (∀ s, normalize codeAwsMode codeAws codeAwsDefault s < sevNames.length) ∧
    (∀ s, normalize codeRhelMode codeRhel codeRhelDefault s < sevNames.length) ∧
    (∀ s, normalize codeOsvDbMode codeOsvDb codeOsvDbDefault s < sevNames.length) ∧
    codeAlpineConst < sevNames.length ∧
    (∀ k v, rate codeOsvV3Bands k = some v → v < sevNames.length) ∧
    (∀ k v, rate codeOsvV2Bands k = some v → v < sevNames.length) :=
  ⟨fun s => normalize_lt _ _ _ _ s (by decide) (by decide),
   fun s => normalize_lt _ _ _ _ s (by decide) (by decide),
   fun s => normalize_lt _ _ _ _ s (by decide) (by decide),
   fun s => normalize_lt _ _ _ _ s (by decide) (by decide),
   fun s => normalize_lt _ _ _ _ s (by decide) (by decide),
   fun s => normalize_lt _ _ _ _ s (by decide) (by decide),
   fun s => normalize_lt _ _ _ _ s (by decide) (by decide),
   fun s => normalize_lt _ _ _ _ s (by decide) (by decide),
   by decide,
   fun k v h => rate_lt _ _ k v (by decide) h,
   fun k v h => rate_lt _ _ k v (by decide) h⟩

end ClairModel.Props.C14
