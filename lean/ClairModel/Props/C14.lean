/-
  C14 — Feed parsers translate advisories faithfully, with documented severities.

  Part 1 (this section): severities.  The per-source switch tables and the
  tables of docs/concepts/severity_mapping.md are both regenerated from /repo
  on every run (Gen/Severity.lean); the theorems below are stated over them.
-/
import ClairModel.Proofs.Feeds
import ClairModel.Proofs.FeedVex
import ClairModel.Proofs.FeedOvalScope
import ClairModel.Gen.Severity
import ClairModel.Gen.Feeds

-- every variable of a property statement is bound explicitly: a misspelt name is an error, not a new variable
set_option autoImplicit false

namespace ClairModel.Props.C14
open ClairModel.Feeds ClairModel.Gen.Severity ClairModel.Gen.Feeds

/-- The six Severity constants of severity.go are, in order, the six strings the
    documentation lists. -/
theorem severity_names_match_doc : sevNames = docSevNames ∧ sevNames.length = 6 := by decide

/-- Debian: for EVERY string the switch of debian/severity.go returns the
    documented severity (documented strings read case-insensitively, as the code
    lower-cases; any other string → the `*` row), and each documented string
    itself maps to its documented value. -/
theorem severity_matches_doc_debian :
    (∀ s, normalize codeDebianMode codeDebian codeDebianDefault s = docLookup codeDebianMode docDebian s) ∧
    (∀ p ∈ docRows docDebian, normalize codeDebianMode codeDebian codeDebianDefault p.1 = p.2) :=
  ⟨normalize_eq_doc _ _ _ _ (by decide), by decide⟩

/-- Ubuntu (ubuntu/updater.go normalizeSeverity), exact comparison. -/
theorem severity_matches_doc_ubuntu :
    (∀ s, normalize codeUbuntuMode codeUbuntu codeUbuntuDefault s = docLookup codeUbuntuMode docUbuntu s) ∧
    (∀ p ∈ docRows docUbuntu, normalize codeUbuntuMode codeUbuntu codeUbuntuDefault p.1 = p.2) :=
  ⟨normalize_eq_doc _ _ _ _ (by decide), by decide⟩

/-- Oracle (oracle/normalizeseverity.go), exact comparison. -/
theorem severity_matches_doc_oracle :
    (∀ s, normalize codeOracleMode codeOracle codeOracleDefault s = docLookup codeOracleMode docOracle s) ∧
    (∀ p ∈ docRows docOracle, normalize codeOracleMode codeOracle codeOracleDefault p.1 = p.2) :=
  ⟨normalize_eq_doc _ _ _ _ (by decide), by decide⟩

/-- SUSE (suse/normalizeseverity.go), exact comparison. -/
theorem severity_matches_doc_suse :
    (∀ s, normalize codeSuseMode codeSuse codeSuseDefault s = docLookup codeSuseMode docSuse s) ∧
    (∀ p ∈ docRows docSuse, normalize codeSuseMode codeSuse codeSuseDefault p.1 = p.2) :=
  ⟨normalize_eq_doc _ _ _ _ (by decide), by decide⟩

/-- Photon (photon/normalizeseverity.go), exact comparison. -/
theorem severity_matches_doc_photon :
    (∀ s, normalize codePhotonMode codePhoton codePhotonDefault s = docLookup codePhotonMode docPhoton s) ∧
    (∀ p ∈ docRows docPhoton, normalize codePhotonMode codePhoton codePhotonDefault p.1 = p.2) :=
  ⟨normalize_eq_doc _ _ _ _ (by decide), by decide⟩

/-- Amazon (aws/normalizeseverity.go), exact comparison. -/
theorem severity_matches_doc_aws :
    (∀ s, normalize codeAwsMode codeAws codeAwsDefault s = docLookup codeAwsMode docAws s) ∧
    (∀ p ∈ docRows docAws, normalize codeAwsMode codeAws codeAwsDefault p.1 = p.2) :=
  ⟨normalize_eq_doc _ _ _ _ (by decide), by decide⟩

/-- Red Hat (rhel/internal/common NormalizeSeverity; used by the OVAL and the VEX
    parser), lower-casing comparison. -/
theorem severity_matches_doc_rhel :
    (∀ s, normalize codeRhelMode codeRhel codeRhelDefault s = docLookup codeRhelMode docRhel s) ∧
    (∀ p ∈ docRows docRhel, normalize codeRhelMode codeRhel codeRhelDefault p.1 = p.2) :=
  ⟨normalize_eq_doc _ _ _ _ (by decide), by decide⟩

/-- OSV `database_specific.severity` (updater/osv severityFromDBString), `EqualFold` comparison. -/
theorem severity_matches_doc_osv_db :
    (∀ s, normalize codeOsvDbMode codeOsvDb codeOsvDbDefault s = docLookup codeOsvDbMode docOsvDb s) ∧
    (∀ p ∈ docRows docOsvDb, normalize codeOsvDbMode codeOsvDb codeOsvDbDefault p.1 = p.2) :=
  ⟨normalize_eq_doc _ _ _ _ (by decide), by decide⟩

/-- Alpine: the parser's constant severity is the documented `*` row and the
    table documents nothing else. -/
theorem severity_matches_doc_alpine :
    codeAlpineConst = docDefault docAlpine ∧ docRows docAlpine = [] := by decide

/-- OSV CVSS v3: for EVERY base score (in tenths) the rating switch of
    `fromCVSS3` yields the documented band; outside the documented bands it
    reports an error. The score itself is C18's. -/
theorem severity_matches_doc_osv_cvss3 (k : Nat) : rate codeOsvV3Bands k = docRate docOsvV3 k :=
  rate_eq_docRate _ _ (by decide) k

/-- OSV CVSS v2, likewise for `fromCVSS2`. -/
theorem severity_matches_doc_osv_cvss2 (k : Nat) : rate codeOsvV2Bands k = docRate docOsvV2 k :=
  rate_eq_docRate _ _ (by decide) k

/-- The documented bands cover every score 0.0 … 10.0 (so the switch never
    takes its error branch on a score in range). -/
theorem osv_bands_total :
    (∀ k, k ≤ 100 → (rate codeOsvV3Bands k).isSome) ∧ (∀ k, k ≤ 100 → (rate codeOsvV2Bands k).isSome) := by
  have h3 : ∀ k ∈ List.range 101, (rate codeOsvV3Bands k).isSome := by decide
  have h2 : ∀ k ∈ List.range 101, (rate codeOsvV2Bands k).isSome := by decide
  exact ⟨fun k hk => h3 k (List.mem_range.2 (by omega)), fun k hk => h2 k (List.mem_range.2 (by omega))⟩

/-- Every severity any of the switches can return, for any input string or
    score, is one of the six defined values. -/
theorem severity_in_range :
    (∀ s, normalize codeDebianMode codeDebian codeDebianDefault s < sevNames.length) ∧
    (∀ s, normalize codeUbuntuMode codeUbuntu codeUbuntuDefault s < sevNames.length) ∧
    (∀ s, normalize codeOracleMode codeOracle codeOracleDefault s < sevNames.length) ∧
    (∀ s, normalize codeSuseMode codeSuse codeSuseDefault s < sevNames.length) ∧
    (∀ s, normalize codePhotonMode codePhoton codePhotonDefault s < sevNames.length) ∧
    (∀ s, normalize codeAwsMode codeAws codeAwsDefault s < sevNames.length) ∧
    (∀ s, normalize codeRhelMode codeRhel codeRhelDefault s < sevNames.length) ∧
    (∀ s, normalize codeOsvDbMode codeOsvDb codeOsvDbDefault s < sevNames.length) ∧
    codeAlpineConst < sevNames.length ∧
    (∀ k v, rate codeOsvV3Bands k = some v → v < sevNames.length) ∧
    (∀ k v, rate codeOsvV2Bands k = some v → v < sevNames.length) :=
  ⟨fun s => normalize_lt _ _ _ _ s (by decide) (by decide),
   fun s => normalize_lt _ _ _ _ s (by decide) (by decide),
   fun s => normalize_lt _ _ _ _ s (by decide) (by decide),
   fun s => normalize_lt _ _ _ _ s (by decide) (by decide),
   fun s => normalize_lt _ _ _ _ s (by decide) (by decide),
   fun s => normalize_lt _ _ _ _ s (by decide) (by decide),
   fun s => normalize_lt _ _ _ _ s (by decide) (by decide),
   fun s => normalize_lt _ _ _ _ s (by decide) (by decide),
   by decide,
   fun k v h => rate_lt _ _ k v (by decide) h,
   fun k v h => rate_lt _ _ k v (by decide) h⟩

/-! ## Part 2: the flat formats (Alpine secdb, Debian tracker, Amazon updateinfo)

  The models are functions of the decoded document; `…Stated` reads the
  entries the document states (Proofs/Feeds.lean).  "Exactly one
  vulnerability per stated entry, carrying its identifier, package, fixed
  version and release": the result is the list of stated entries, in order,
  each mapped to its vulnerability. -/

/-- Alpine: one vulnerability per (package, fixed version, identifier) of the
    secdb — also for the "0" version the format uses for "not affected", which
    is carried as `FixedInVersion = "0"` (the Alpine matcher never reports it;
    checked on the implementation by the harness). -/
theorem secdb_exact (linkPrefix : String) (sevConst : Nat) (updater dist : String) (pkgs : List SecdbPkg) :
    secdbParse linkPrefix sevConst updater dist pkgs = (secdbStated pkgs).map fun t =>
      ({ updater := updater, name := t.2.2, links := linkPrefix ++ t.2.2, nsev := sevConst, hasPkg := true,
         pkgName := t.1, pkgKind := "source", fixed := t.2.1, dist := dist } : Vuln) := by
  simp [secdbParse, secdbStated, unpackSecFixes, List.map_flatMap, List.map_map, Function.comp_def]

/-- Debian: one vulnerability per (source package, identifier, known release)
    with that release's distribution, fixed version, urgency and its severity. -/
theorem debian_exact (linkPrefix : String) (sev : String → Nat) (known : List (String × String))
    (data : List (String × List DebVuln)) :
    debianParse linkPrefix sev known data = (debStated known data).map fun e =>
      ({ updater := "debian/updater", name := e.id, desc := e.desc, links := linkPrefix ++ e.id, sev := e.urgency,
         nsev := sev e.urgency, dist := e.dist, fixed := e.fixed, hasPkg := true, pkgName := e.src, pkgKind := "source" } : Vuln) := by
  simp only [debianParse, debStated, List.map_flatMap]
  congr 1; funext src; congr 1; funext v
  rw [List.map_filterMap]
  congr 1; funext r
  cases getDist known r.release <;> rfl

/-- Debian: the stated entries are exactly the (source, identifier, release)
    triples of the document whose release is known — entries for unknown
    releases (sid, unreleased) yield nothing, nothing else is dropped. -/
theorem debian_release_filter (known : List (String × String)) (data : List (String × List DebVuln)) (e : DebStated) :
    e ∈ debStated known data ↔ ∃ src ∈ data, ∃ v ∈ src.2, ∃ r ∈ v.releases,
      getDist known r.release = some e.dist ∧
      e = { src := src.1, id := v.id, desc := v.desc, dist := e.dist, fixed := r.fixed, urgency := r.urgency } := by
  simp only [debStated, List.mem_flatMap, List.mem_filterMap, Option.map_eq_some_iff]
  constructor
  · rintro ⟨src, hs, v, hv, r, hr, d, hd, rfl⟩
    exact ⟨src, hs, v, hv, r, hr, hd, rfl⟩
  · rintro ⟨src, hs, v, hv, r, hr, hd, he⟩
    exact ⟨src, hs, v, hv, r, hr, e.dist, hd, he.symm⟩

/-- Amazon: one vulnerability per (update, package) with `[epoch:]version-release`
    as fixed version, the package's arch and an arch-equals constraint. -/
theorem aws_exact (sev : String → Nat) (updater dist : String) (ups : List AlasUpdate) :
    awsParse sev updater dist ups = (awsStated ups).map fun t =>
      ({ updater := updater, name := t.1.id, desc := t.1.desc, links := " ".intercalate t.1.refs, sev := t.1.severity,
         nsev := sev t.1.severity, dist := dist, archOp := 1, hasPkg := true, pkgName := t.2.name, pkgKind := "binary",
         pkgArch := t.2.arch, fixed := alasVersion t.2, issued := t.1.issued } : Vuln) := by
  simp [awsParse, awsStated, List.map_flatMap, List.map_map, Function.comp_def]

/-! ## Part 3: OVAL -/

/-- The regular expressions the OVAL models hard-code are still the ones in the
    sources (module comment, Red Hat definition identifier, valid dpkg version). -/
theorem oval_regex_sources :
    ovalModuleCommentRegex = "(Module )(.*)( is enabled)" ∧
    ovalDefinitionTypeRegex = "^oval\\:com\\.redhat\\.([a-z]+)\\:def\\:\\d+$" ∧
    ovalValidVersionRegex = "\\A([0-9]+:)?[-_A-Za-z0-9.+:~]+(-[A-Za-z0-9+.~]+)?\\z" := by decide

/-- `walkCriterion` returns exactly the criterions of the tree, whatever the
    nesting: membership is "occurs at some node", and nothing is duplicated or
    lost (the length is the number of criterions). -/
theorem oval_walk_leaves (c : Criteria) :
    (∀ x, x ∈ walk c ↔ Occurs x c) ∧ (walk c).length = critCount c :=
  ⟨fun x => walk_mem x c, walk_length c⟩

/-- `RPMDefsToVulns` (oracle, suse, photon, rhel): when no referenced rpminfo
    test lacks its `<object>`, the result is, definition by definition, one
    vulnerability per (prototype of the definition, criterion that resolves to
    an rpminfo object [and a state with EVR], enabled module); a definition
    whose prototype function fails or returns nothing contributes nothing. -/
theorem oval_rpm_exact (root : OvalRoot) (proto : ProtoFn) (defs : List OvalDef)
    (h : ∀ d ∈ defs, ∀ c ∈ walk d.criteria, leafOk "rpminfo_test" "rpminfo_object" "rpminfo_state" root c = true) :
    rpmDefsToVulns root proto defs = some (defs.flatMap (rpmDefSpec root proto)) :=
  rpmDefsToVulns_eq root proto defs h

/-- Criterions whose test is missing or of another kind (platform, signature,
    uname, text-file tests) resolve to nothing. -/
theorem oval_other_tests_skipped (tk ok sk : String) (root : OvalRoot) (c : Criterion)
    (h : ∀ t, assoc? root.tests c.testRef = some t → t.kind ≠ tk) :
    resolveLeaf tk ok sk root c = .skip := by
  unfold resolveLeaf
  cases ht : assoc? root.tests c.testRef with
  | none => rfl
  | some t => simp [h t ht]

/-- A state without EVR (signature key, release version checks) makes the criterion resolve to nothing. -/
theorem oval_state_without_evr_skipped (tk ok sk : String) (root : OvalRoot) (c : Criterion) (t : OvalTest)
    (sref : String) (rest : List String) (st : OvalState)
    (ht : assoc? root.tests c.testRef = some t) (hs : t.stateRefs = sref :: rest)
    (hst : assoc? root.states sref = some st) (he : st.evr = none) (ho : t.objRefs ≠ []) :
    resolveLeaf tk ok sk root c = .skip := by
  unfold resolveLeaf
  simp only [ht]
  split
  · rfl
  · cases hobj : t.objRefs with
    | nil => exact absurd hobj ho
    | cons oref _ =>
      simp only
      cases assoc? root.objects oref with
      | none => rfl
      | some o =>
        simp only
        split
        · rfl
        · simp [hs, hst, he]

/-- Red Hat: a definition of type `unaffected` or `none` (and `cve` when
    unpatched vulnerabilities are ignored) yields nothing, whatever its criteria. -/
theorem oval_rhel_unaffected_nothing (root : OvalRoot) (sev : String → Nat) (updater dist : String) (ign : Bool)
    (d : OvalDef) (t : String) (ht : rhelDefType d.id = some t)
    (hs : t = ovalDefUnaffected ∨ t = ovalDefNone ∨ (ign = true ∧ t = ovalDefCve)) :
    rpmDefSpec root (protoRhel sev updater dist ign ovalDefUnaffected ovalDefNone ovalDefCve) d = [] := by
  unfold rpmDefSpec protoRhel
  simp only [ht]
  rw [if_pos (by rcases hs with h | h | ⟨h1, h2⟩ <;> simp [*])]
  simp

/-- With at most one module comment in the definition the walk is exact: there
    is one module `m` (that comment's module, or "" when there is none) and the
    definition yields one vulnerability per (package criterion, prototype), each
    carrying `m`.  (`_partial`: the hypothesis excludes definitions with
    several module comments, see the counterexample.) -/
theorem oval_rpm_modules_exact_partial (root : OvalRoot) (proto : ProtoFn) (d : OvalDef) (ps : List Vuln)
    (hp : proto d = some ps) (hm : (enabledModules (walk d.criteria)).length ≤ 1) :
    ∃ m, modulesOf (walk d.criteria) = [m] ∧
      rpmDefSpec root proto d =
        (resolvedLeaves "rpminfo_test" "rpminfo_object" "rpminfo_state" root (walk d.criteria)).flatMap fun l =>
          ps.map fun p => rpmVuln p l.1 l.2.1 m := by
  have : ∃ m, modulesOf (walk d.criteria) = [m] := by
    unfold modulesOf
    cases hmods : enabledModules (walk d.criteria) with
    | nil => exact ⟨"", rfl⟩
    | cons m rest =>
      rw [hmods] at hm
      cases rest with
      | nil => exact ⟨m, rfl⟩
      | cons _ _ => simp at hm
  obtain ⟨m, hmm⟩ := this
  refine ⟨m, hmm, ?_⟩
  unfold rpmDefSpec
  simp [hp, hmm]

/-- The full statement fails with two module streams in one definition:
    `OR[AND[Module nodejs:12, nodejs], AND[Module nodejs:14, npm]]` states the pairs
    (nodejs, nodejs:12) and (npm, nodejs:14); the walk also returns
    (nodejs, nodejs:14) and (npm, nodejs:12).  Finding `oval-module-flattening`. -/
theorem oval_module_flattening_counterexample :
    let root : OvalRoot :=
      { tests := [("t1", { kind := "rpminfo_test", objRefs := ["o1"], stateRefs := [] }),
                  ("t2", { kind := "rpminfo_test", objRefs := ["o2"], stateRefs := [] })],
        objects := [("o1", { kind := "rpminfo_object", name := "nodejs" }), ("o2", { kind := "rpminfo_object", name := "npm" })],
        states := [], variables := [] }
    let crit : Criteria := .node
      [.node [] [⟨"m1", "Module nodejs:12 is enabled"⟩, ⟨"t1", "nodejs is earlier than 1"⟩],
       .node [] [⟨"m2", "Module nodejs:14 is enabled"⟩, ⟨"t2", "npm is earlier than 2"⟩]] []
    let d : OvalDef := { id := "oval:com.redhat.rhsa:def:1", title := "RHSA", desc := "", severity := "", refUrls := [], advRefs := [],
                         bugs := [], cveHrefs := [], platforms := [], cpes := [], criteria := crit }
    ((rpmDefSpec root (protoSingle (fun _ => 0) "u" "d") d).map fun v => (v.pkgName, v.pkgModule)) =
      [("nodejs", "nodejs:12"), ("nodejs", "nodejs:14"), ("npm", "nodejs:12"), ("npm", "nodejs:14")] := by
  decide

/-- Red Hat OVAL: a definition whose type is not skipped and whose affected CPEs
    all unbind gets one prototype per non-empty CPE, in order, carrying the
    advisory's title, description, issue date, links, severity string, the
    documented severity, the updater's distribution and the repository
    (CPE, key `rhel-cpe-repository`); a CPE that does not unbind makes the
    definition yield nothing. -/
theorem oval_rhel_repositories (sev : String → Nat) (updater dist key : String) (ign : Bool) (d : OvalDef) (t : String)
    (ht : rhelDefType d.id = some t)
    (hs : ¬ (t = ovalDefUnaffected ∨ t = ovalDefNone ∨ (ign = true ∧ t = ovalDefCve))) :
    ((∀ c ∈ d.cpes, c.1 = "" ∨ c.2 = true) →
      protoRhel sev updater dist ign ovalDefUnaffected ovalDefNone ovalDefCve key d =
        some (((d.cpes.filter fun c => c.1 ≠ "").map (·.1)).map fun c =>
          ({ updater := updater, name := d.title, desc := d.desc, links := ovalLinks d, sev := d.severity, nsev := sev d.severity,
             dist := dist, issued := d.issued, repo := c ++ "|" ++ key ++ "|" } : Vuln))) ∧
    ((∃ c ∈ d.cpes, c.1 ≠ "" ∧ c.2 = false) →
      protoRhel sev updater dist ign ovalDefUnaffected ovalDefNone ovalDefCve key d = none) := by
  have hcp : ∀ l : List (String × Bool), (∀ c ∈ l, c.1 = "" ∨ c.2 = true) → rhelCpes l = some ((l.filter fun c => c.1 ≠ "").map (·.1)) := by
    intro l
    induction l with
    | nil => intro _; rfl
    | cons c rest ih =>
      intro h
      obtain ⟨s, ok⟩ := c
      have hc := h (s, ok) (List.mem_cons_self ..)
      have ih' := ih (fun c' hc' => h c' (List.mem_cons_of_mem _ hc'))
      simp only [rhelCpes]
      by_cases hs : s = ""
      · simp [hs, ih']
      · have hok : ok = true := by rcases hc with h1 | h1; exact absurd h1 hs; exact h1
        simp [hs, hok, ih']
  have hbad : ∀ l : List (String × Bool), (∃ c ∈ l, c.1 ≠ "" ∧ c.2 = false) → rhelCpes l = none := by
    intro l
    induction l with
    | nil => rintro ⟨c, hc, _⟩; cases hc
    | cons c rest ih =>
      rintro ⟨c', hc', hne, hf⟩
      obtain ⟨s, ok⟩ := c
      simp only [rhelCpes]
      by_cases hs : s = ""
      · simp only [hs, if_true]
        rcases List.mem_cons.1 hc' with rfl | hr
        · exact absurd hs hne
        · exact ih ⟨c', hr, hne, hf⟩
      · simp only [hs, if_false]
        by_cases hok : ok = true
        · simp only [hok]
          rcases List.mem_cons.1 hc' with h1 | hr
          · rw [h1] at hf; simp at hf; exact absurd hok (by simp [hf])
          · simp [ih ⟨c', hr, hne, hf⟩]
        · simp [hok]
  constructor
  · intro h
    unfold protoRhel
    simp only [ht]
    rw [if_neg hs, hcp _ h]
    simp
  · intro h
    unfold protoRhel
    simp only [ht]
    rw [if_neg hs, hbad _ h]
    rfl

/-- Oracle OVAL: one prototype per known platform string of the definition's
    `affected` elements, in document order, each with that platform's
    distribution (`oracleProtoOf`: title, description, issue date, links,
    severity string and documented severity of the advisory); a definition
    without a known platform is skipped. -/
theorem oval_oracle_platforms (sev : String → Nat) (updater : String) (platformDist : List (String × String)) (d : OvalDef) :
    protoOracle sev updater platformDist d =
      if (oraclePlatformDists platformDist d).isEmpty then none
      else some ((oraclePlatformDists platformDist d).map (oracleProtoOf sev updater d)) := by
  unfold protoOracle
  have : (d.platforms.flatMap fun ps => ps.filterMap fun p => (assoc? platformDist p).map fun dist =>
      ({ updater := updater, name := d.title, desc := d.desc, links := ovalLinks d, sev := d.severity, nsev := sev d.severity,
         dist := dist, issued := d.issued } : Vuln)) = (oraclePlatformDists platformDist d).map (oracleProtoOf sev updater d) := by
    simp only [oraclePlatformDists, List.map_flatMap, List.map_filterMap]
    rfl
  simp only [this]
  cases (oraclePlatformDists platformDist d) <;> simp

/-- Arch operations of OVAL states: `equals`, `not equals` and `pattern match`
    map to the corresponding claircore operations, anything else to none — and
    the state's arch string is carried verbatim. -/
theorem oval_arch_operation (p : Vuln) (name m : String) (st : OvalState) (a : OvalArch) (h : st.arch = some a) :
    (rpmVuln p name (some st) m).pkgArch = a.body ∧
    (rpmVuln p name (some st) m).archOp = (if a.op = 1 then 1 else if a.op = 2 then 2 else if a.op = 11 then 3 else 0) := by
  simp [rpmVuln, h, mapArchOp]

/-! ### OVAL read with the criteria operators -/

/-- AND/OR-aware reading.  `inScope [] t` pairs every criterion of the tree `t`
    (operators included) with the module streams in whose scope it stands: a
    "Module m is enabled" criterion of an AND node scopes over everything below
    that node.  If the definition is uniformly scoped — every criterion stands
    in the scope of all module criterions of the definition — the flat reading
    of `RPMDefsToVulns` is exactly the scoped one: prototypes × package
    criterions × the modules in scope ("" when there is none).
    (`_partial`: exactly this hypothesis; see the two counterexamples.) -/
theorem oval_scoped_exact_partial (root : OvalRoot) (proto : ProtoFn) (d : OvalDef) (t : STree)
    (hd : d.criteria = t.erase) (hu : UniformScope t) :
    rpmDefSpec root proto d = rpmDefScoped root proto d t :=
  rpmDefSpec_eq_scoped root proto d t hd hu

/-- The two shapes the vendors publish are uniformly scoped, whatever the
    nesting below: a definition without module criterions, and a definition
    whose root is an AND node holding every module criterion itself
    (AND[Module m, …, OR[packages …]]). -/
theorem oval_uniform_scope_shapes :
    (∀ t : STree, enabledModules (walk t.erase) = [] → UniformScope t) ∧
    (∀ (subs : List STree) (leaves : List Criterion), enabledModules (walkList (eraseList subs)) = [] →
      UniformScope (.node "AND" subs leaves)) :=
  ⟨uniform_of_noModules, uniform_of_rootAnd⟩

/-- The flat reading never loses a module that is in scope: every module a
    criterion stands in the scope of is among the definition's enabled modules,
    so each stated (package, module ≠ "") pair is returned. -/
theorem oval_scope_modules_never_lost (t : STree) (x : Criterion × List String) (hx : x ∈ inScope [] t)
    (m : String) (hm : m ∈ x.2) : m ∈ modulesOf (walk t.erase) := by
  have := inScope_ctx_sub [] t x hx m hm
  simp only [List.not_mem_nil, false_or] at this
  unfold modulesOf
  split
  · rename_i he
    rw [List.isEmpty_iff.1 he] at this
    cases this
  · exact this

/-- A package outside every module's scope next to a modular one:
    `OR[AND[Module nodejs:12, nodejs], npm]` states (nodejs, nodejs:12) and
    (npm, no module); the walker returns (npm, nodejs:12) instead — the
    non-modular npm is not reported at all.  Finding `oval-module-flattening`. -/
theorem oval_unscoped_package_counterexample :
    let root : OvalRoot :=
      { tests := [("t1", { kind := "rpminfo_test", objRefs := ["o1"], stateRefs := [] }),
                  ("t2", { kind := "rpminfo_test", objRefs := ["o2"], stateRefs := [] })],
        objects := [("o1", { kind := "rpminfo_object", name := "nodejs" }), ("o2", { kind := "rpminfo_object", name := "npm" })],
        states := [], variables := [] }
    let t : STree := .node "OR"
      [.node "AND" [] [⟨"m1", "Module nodejs:12 is enabled"⟩, ⟨"t1", "nodejs is earlier than 1"⟩]]
      [⟨"t2", "npm is earlier than 2"⟩]
    let d : OvalDef := { id := "oval:com.redhat.rhsa:def:1", title := "RHSA", desc := "", severity := "", refUrls := [], advRefs := [],
                         bugs := [], cveHrefs := [], platforms := [], cpes := [], criteria := t.erase }
    ((rpmDefScoped root (protoSingle (fun _ => 0) "u" "d") d t).map fun v => (v.pkgName, v.pkgModule)) =
      [("nodejs", "nodejs:12"), ("npm", "")] ∧
    ((rpmDefSpec root (protoSingle (fun _ => 0) "u" "d") d).map fun v => (v.pkgName, v.pkgModule)) =
      [("nodejs", "nodejs:12"), ("npm", "nodejs:12")] := by
  decide

/-- `DpkgDefsToVulns` (ubuntu): one vulnerability per (prototype, criterion that
    resolves to a dpkginfo object whose state — if any — has a valid version,
    package name of the object or of its constant variable). -/
theorem oval_dpkg_exact (root : OvalRoot) (proto : ProtoFn) (defs : List OvalDef)
    (h : ∀ d ∈ defs, ∀ c ∈ walk d.criteria, leafOk "dpkginfo_test" "dpkginfo_object" "dpkginfo_state" root c = true) :
    dpkgDefsToVulns root proto defs = some (defs.flatMap (dpkgDefSpec root proto)) :=
  dpkgDefsToVulns_eq root proto defs h

/-- Every vulnerability of an OVAL definition carries the prototype's advisory
    fields unchanged — identifier (title), description, links, severity string,
    normalized severity, distribution (release) and repository — and the
    criterion's package name. -/
theorem oval_vuln_carries_proto (p : Vuln) (name m n : String) (st : Option OvalState) :
    let v := rpmVuln p name st m
    let w := dpkgVuln p n st
    (v.name = p.name ∧ v.desc = p.desc ∧ v.links = p.links ∧ v.sev = p.sev ∧ v.nsev = p.nsev ∧ v.dist = p.dist ∧
      v.repo = p.repo ∧ v.updater = p.updater ∧ v.pkgName = name ∧ v.pkgModule = m ∧ v.hasPkg = true) ∧
    (w.name = p.name ∧ w.desc = p.desc ∧ w.links = p.links ∧ w.sev = p.sev ∧ w.nsev = p.nsev ∧ w.dist = p.dist ∧
      w.repo = p.repo ∧ w.updater = p.updater ∧ w.pkgName = n ∧ w.hasPkg = true) := by
  simp only [rpmVuln, dpkgVuln]
  cases st with
  | none => simp
  | some s => obtain ⟨k, evr, arch⟩ := s; cases arch <;> simp

/-- A state's EVR becomes the fixed version, verbatim. -/
theorem oval_vuln_fixed_version (p : Vuln) (name m n : String) (st : OvalState) :
    (rpmVuln p name (some st) m).fixed = st.evr.getD "" ∧ (dpkgVuln p n (some st)).fixed = st.evr.getD "" := by
  simp only [rpmVuln, dpkgVuln]
  obtain ⟨k, evr, arch⟩ := st
  cases arch <;> simp


/-! ## Part 4: OSV -/

/-- SEMVER range, any number of intervals `introduced (fixed | last_affected)?`
    with only the last one possibly open: `Insert` builds exactly one range cell
    per interval, in order, each with the interval's bounds (`semverCell`):
    lower from `introduced` ("0" = −∞), upper and FixedInVersion from `fixed`,
    upper = next patch from `last_affected` — unless the affected entry lists
    versions, in which case a `last_affected` bound is dropped (see
    `osv_semver_ranges_exact_partial`). -/
theorem osv_semver_cells (hasVersions : Bool) (ivs : List Interval) (h : WellShaped ivs) :
    (runEvents .semver hasVersions {} (eventsOf ivs)).vers = ivs.map (semverCell hasVersions) := by
  have := semver_intervals_aux hasVersions ivs {} between_init h
  simpa using this

/-- The cells are the ones the OSV schema states (`specCell`) when the affected
    entry lists no versions or no interval ends with `last_affected`.
    (`_partial`: exactly this hypothesis; finding `osv-last-affected-with-versions`.) -/
theorem osv_semver_ranges_exact_partial (hasVersions : Bool) (ivs : List Interval) (h : WellShaped ivs)
    (hl : hasVersions = false ∨ NoLastAffected ivs) :
    (runEvents .semver hasVersions {} (eventsOf ivs)).vers = ivs.map specCell := by
  rw [osv_semver_cells hasVersions ivs h]
  apply List.map_congr_left
  intro iv hiv
  apply semverCell_eq_spec
  rcases hl with hl | hl
  · exact Or.inl hl
  · exact Or.inr (hl iv hiv)

/-- `introduced 1.0.0, last_affected 1.1.0` with a versions list: the schema
    states the upper bound 1.1.1, `Insert` leaves the range unbounded. -/
theorem osv_last_affected_with_versions_counterexample :
    let ivs : List Interval := [⟨"1.0.0", some (1, 0, 0, false), some (.lastAffected "1.1.0" (some (1, 1, 0, false)))⟩]
    WellShaped ivs ∧
    (runEvents .semver true {} (eventsOf ivs)).vers ≠ ivs.map specCell ∧
    ((runEvents .semver true {} (eventsOf ivs)).vers.map fun c => (finalRange c).upper) = [{ kind := "semver", v0 := 65535 }] ∧
    ((ivs.map specCell).map fun c => (finalRange c).upper) = [{ kind := "semver", v1 := 1, v2 := 1, v3 := 1 }] := by
  intro ivs
  refine ⟨by simp [ivs, WellShaped, Closing.version], by decide, by decide, by decide⟩

/-- `introduced 0, fixed 1.2.3, limit "*"`: a `*` limit means "no limit" in the
    schema, so the range is [0, 1.2.3); `Insert` overwrites the upper bound's
    epoch slot with 65535.  Finding `osv-limit-overrides-fixed`. -/
theorem osv_limit_overrides_fixed_counterexample :
    let evs : List OsvEvent := [{ introduced := "0" }, { fixed := "1.2.3", fixedV := some (1, 2, 3, false) }, { limit := "*" }]
    ((runEvents .semver false {} evs).vers.map fun c => ((finalRange c).upper, c.fixed)) =
      [({ kind := "semver", v0 := 65535, v1 := 1, v2 := 2, v3 := 3 }, "1.2.3")] := by
  decide

/-- Maven / PyPI / RubyGems ECOSYSTEM range: one cell per interval, holding the
    query-string values `introduced` (omitted for "0"), then `fixed` or
    `lastAffected`, and no semver range. -/
theorem osv_encoded_ranges_exact (ivs : List Interval) (h : WellShaped ivs) :
    (runEvents .encoded false {} (eventsOf ivs)).vers = ivs.map encCell := by
  have := enc_intervals_aux ivs {} betweenEnc_init h
  simpa using this

/-- ECOSYSTEM range of any other ecosystem: whatever the events, at most one
    vulnerability per range (after the fix of the duplicate append). -/
theorem osv_other_at_most_one (hasVersions : Bool) (evs : List OsvEvent) :
    (runEvents .other hasVersions {} evs).vers.length ≤ 1 :=
  other_vers_length hasVersions evs {} rfl (by decide)

/-- … and that one cell keeps only the last `fixed`: two intervals are merged,
    the first fixed version is lost.  Finding `osv-ecosystem-intervals-merged`. -/
theorem osv_ecosystem_intervals_merged_counterexample :
    let ivs : List Interval := [⟨"0", none, some (.fixed "1.5.0" none)⟩, ⟨"2.0.0", none, some (.fixed "2.5.0" none)⟩]
    WellShaped ivs ∧ ((runEvents .other false {} (eventsOf ivs)).vers.map fun c => c.fixed) = ["2.5.0"] := by
  intro ivs
  refine ⟨by simp [ivs, WellShaped, Closing.version], by decide⟩

/-- The vulnerability of a SEMVER interval `[a, b)` with parsable bounds and
    `a ≤ b`: the range is `[semver a, semver b)`, FixedInVersion is the `fixed` string. -/
theorem osv_semver_vulnerability (eco : OsvEcosystems) (proto : Vuln) (ecosystem : String)
    (a b : Nat × Nat × Nat × Bool) (si sf : String) (hi : si ≠ "0")
    (hle : (fromSemver a).cmp (fromSemver b) ≠ .gt) :
    cellVuln eco proto ecosystem (specCell ⟨si, some a, some (.fixed sf (some b))⟩) =
      some { proto with range := some { lower := fromSemver a, upper := fromSemver b }, fixed := sf } := by
  simp [cellVuln, specCell, semverCell, semverIntro, semverClose, hi, finalRange, fromSemver] at hle ⊢
  exact hle

/-- Withdrawn advisories (withdrawal date in the past) and advisories without
    `affected` entries yield nothing. -/
theorem osv_withdrawn_unaffected_skipped (eco : OsvEcosystems) (dbSev : String → Nat) (uris : List (String × String))
    (updater repoName : String) (a : OsvAdvisory) (rest : List OsvAdvisory)
    (h : a.withdrawnPast = true ∨ a.affected = []) :
    osvParse eco dbSev uris updater repoName (a :: rest) = osvParse eco dbSev uris updater repoName rest := by
  rcases h with h | h <;> simp [osvParse, osvParseRaw, h]

/-- An advisory all of whose ranges are GIT ranges yields nothing; so does every GIT range. -/
theorem osv_git_nothing (eco : OsvEcosystems) (dbSev : String → Nat) (uris : List (String × String))
    (updater repoName : String) (a : OsvAdvisory) (proto : Vuln) (af : OsvAffected) (r : OsvRange) :
    (gitOnly a = true → osvInsert eco dbSev uris updater repoName a = some []) ∧
    (r.type = "GIT" → osvRange eco proto af r = some []) := by
  constructor
  · intro h; simp [osvInsert, h]
  · intro h; simp [osvRange, h]

/-- The severity `Insert` assigns is one of the six values whenever the CVSS
    ratings it is given are (C18) — the `database_specific` fallback always is. -/
theorem osv_severity_in_range (a : OsvAdvisory) (h : ∀ s ∈ a.severities, s.rating < 6) :
    (osvSeverity (normalize codeOsvDbMode codeOsvDb codeOsvDbDefault) a).2 < 6 := by
  have hcv : ∀ (l : List OsvSeverity) (acc : String × Nat), (∀ s ∈ l, s.rating < 6) → acc.2 < 6 → (osvCvss l acc).2 < 6 := by
    intro l
    induction l with
    | nil => intro acc _ h2; exact h2
    | cons s rest ih =>
      intro acc h1 h2
      simp only [osvCvss]
      split
      · exact ih _ (fun s' hs' => h1 s' (List.mem_cons_of_mem _ hs')) (h1 s (List.mem_cons_self ..))
      · exact ih _ (fun s' hs' => h1 s' (List.mem_cons_of_mem _ hs')) h2
  unfold osvSeverity
  simp only
  split
  · cases a.dbSeverity with
    | none => exact hcv _ _ h (by decide)
    | some s => exact normalize_lt _ _ _ _ s (by decide) (by decide)
  · exact hcv _ _ h (by decide)

/-- SEMVER range of a whole affected entry: for well-shaped intervals `Insert`
    returns exactly the vulnerabilities of the intervals' cells (those with
    lower ≤ upper), each with the affected package. -/
theorem osv_semver_range_exact (eco : OsvEcosystems) (proto : Vuln) (af : OsvAffected) (ivs : List Interval)
    (h : WellShaped ivs) :
    osvRange eco proto af ⟨"SEMVER", eventsOf ivs⟩ =
      some ((ivs.map (semverCell af.hasVersions)).filterMap
        (cellVuln eco { proto with hasPkg := true, pkgName := if eco.known af.ecosystem then af.name else af.purl,
                                   pkgKind := if eco.known af.ecosystem then "binary" else "", pkgHint := af.ecosystem } af.ecosystem)) := by
  have hm : rangeMode eco "SEMVER" af.ecosystem = .semver := by simp [rangeMode]
  simp only [osvRange, hm]
  simp [osv_semver_cells af.hasVersions ivs h]

/-- ECOSYSTEM range of a Maven / PyPI / RubyGems package, likewise. -/
theorem osv_encoded_range_exact (eco : OsvEcosystems) (proto : Vuln) (af : OsvAffected) (ivs : List Interval)
    (h : WellShaped ivs) (he : eco.encoded af.ecosystem = true) :
    osvRange eco proto af ⟨"ECOSYSTEM", eventsOf ivs⟩ =
      some ((ivs.map encCell).filterMap
        (cellVuln eco { proto with hasPkg := true, pkgName := if eco.known af.ecosystem then af.name else af.purl,
                                   pkgKind := if eco.known af.ecosystem then "binary" else "", pkgHint := af.ecosystem } af.ecosystem)) := by
  have hm : rangeMode eco "ECOSYSTEM" af.ecosystem = .encoded := by simp [rangeMode, he]
  have hrun : ∀ hv, (runEvents .encoded hv {} (eventsOf ivs)).vers = (runEvents .encoded false {} (eventsOf ivs)).vers := by
    intro hv
    have : ∀ (evs : List OsvEvent) (s : EvState), runEvents .encoded hv s evs = runEvents .encoded false s evs := by
      intro evs
      induction evs with
      | nil => intro s; rfl
      | cons e rest ih => intro s; simp only [runEvents]; exact ih _
    rw [this]
  simp only [osvRange, hm]
  simp [hrun, osv_encoded_ranges_exact ivs h]

/-- The vulnerability of an encoded cell: no semver range, FixedInVersion is the
    query string of the interval (`fixed=…&introduced=…`). -/
theorem osv_encoded_vulnerability (eco : OsvEcosystems) (proto : Vuln) (ecosystem : String) (iv : Interval)
    (he : eco.encoded ecosystem = true) (hne : (encCell iv).eco ≠ []) :
    cellVuln eco proto ecosystem (encCell iv) =
      some { proto with range := none, fixed := encodeValues (encCell iv).eco } := by
  have hr : (encCell iv).hasRange = false := by
    unfold encCell
    cases iv.close with
    | none => rfl
    | some cl => cases cl <;> rfl
  simp [cellVuln, hr, he, hne]

/-- ECOSYSTEM range of an ecosystem without encoder (crates.io, Packagist, NuGet,
    …), ANY event list: no events, no vulnerability; otherwise exactly one range
    cell, without bounds, whose FixedInVersion is the `fixed` of the last event
    that has one and no `introduced` (`otherUpd` folded over the events). So a
    single interval `introduced a, fixed b` is carried exactly (FixedInVersion
    b); several intervals are not (finding `osv-ecosystem-intervals-merged`). -/
theorem osv_other_range_exact (hasVersions : Bool) (evs : List OsvEvent) :
    (runEvents .other hasVersions {} evs).vers = if evs.isEmpty then [] else [evs.foldl otherUpd {}] := by
  have := runOther_eq hasVersions evs {} rfl (by decide)
  simpa [EvState.vers] using this

/-- … in particular one interval `introduced a (fixed b)?` yields the cell with FixedInVersion b ("" when open). -/
theorem osv_other_single_interval (hasVersions : Bool) (iv : Interval) (hi : iv.intro ≠ "") :
    (runEvents .other hasVersions {} (eventsOf [iv])).vers =
      [{ fixed := match iv.close with | some (.fixed v _) => v | _ => "" }] := by
  rw [osv_other_range_exact]
  cases hc : iv.close with
  | none => simp [eventsOf, Interval.events, hc, introEvent, otherUpd, hi]
  | some cl =>
    cases cl with
    | fixed v p =>
      by_cases hv : v = "" <;> simp [eventsOf, Interval.events, hc, introEvent, otherUpd, hi, Closing.event, hv]
    | lastAffected v p => simp [eventsOf, Interval.events, hc, introEvent, otherUpd, hi, Closing.event]

/-- Severity selection of `Insert`: the LAST `CVSS_V3` / `CVSS_V2` entry gives
    severity string and rating; when there is none (or its vector is empty),
    `database_specific.severity` — if it is a string — gives the string and the
    documented `severityFromDBString` value; otherwise the severity is Unknown. -/
theorem osv_severity_selection (dbSev : String → Nat) (a : OsvAdvisory) :
    (∀ pre s post, a.severities = pre ++ s :: post → (s.type = "CVSS_V3" ∨ s.type = "CVSS_V2") → s.score ≠ "" →
      (∀ x ∈ post, x.type ≠ "CVSS_V3" ∧ x.type ≠ "CVSS_V2") → osvSeverity dbSev a = (s.score, s.rating)) ∧
    ((∀ x ∈ a.severities, x.type ≠ "CVSS_V3" ∧ x.type ≠ "CVSS_V2") →
      osvSeverity dbSev a = match a.dbSeverity with | some s => (s, dbSev s) | none => ("", 0)) := by
  constructor
  · intro pre s post hs ht hne hpost
    have : osvCvss a.severities ("", 0) = (s.score, s.rating) := by
      rw [hs, osvCvss_append]
      simp only [osvCvss]
      rw [if_pos ht, osvCvss_none post _ hpost]
    unfold osvSeverity
    simp [this, hne]
  · intro h
    unfold osvSeverity
    rw [osvCvss_none _ _ h]
    cases a.dbSeverity <;> simp

/-- `Package.RepositoryHint`: the package records of one `Parse` are shared by
    name; when every package name of the dump belongs to one ecosystem, each
    vulnerability carries its affected entry's ecosystem (`shareHints` changes
    nothing). In general a vulnerability shows the ecosystem of the first
    returned vulnerability with the same package name. -/
theorem osv_repository_hint (vs : List Vuln) :
    ((∀ v ∈ vs, ∀ w ∈ vs, v.pkgName = w.pkgName → v.pkgHint = w.pkgHint) → shareHints vs = vs) ∧
    (shareHints vs).length = vs.length ∧
    (∀ v ∈ shareHints vs, ∃ w ∈ vs, w.pkgName = v.pkgName ∧ v.pkgHint = w.pkgHint) := by
  refine ⟨shareHints_id vs, by simp [shareHints], ?_⟩
  intro v hv
  simp only [shareHints, List.mem_map] at hv
  obtain ⟨u, hu, rfl⟩ := hv
  cases hf : vs.find? (fun w => w.pkgName == u.pkgName) with
  | none => exact ⟨u, hu, by simp, by simp⟩
  | some w =>
    have hw := List.mem_of_find?_eq_some hf
    have hn : w.pkgName = u.pkgName := by have := List.find?_some hf; simpa using this
    exact ⟨w, hw, by simp [hn], by simp⟩

/-! ## Part 5: Red Hat VEX (CSAF) -/

/-- Product-tree resolution of the two shapes Red Hat publishes, for ANY list of
    relationships: a product id defined as "package `c` as a component of
    repository `r`" resolves to (c, no module, r); one defined as "package `c`
    as a component of `rm`", where `rm` is "module `m` as a component of
    repository `r`", resolves to (c, m, r).  (`c`, `m`, `r` are not themselves
    defined by relationships.) -/
theorem vex_relationships_resolved (rels : List VexRel) (pid c rm m r cat cat' : String)
    (hc : findRel rels c = none) (hr : findRel rels r = none) :
    (findRel rels pid = some ⟨cat, pid, c, r⟩ → walkRels rels pid = some (c, "", r)) ∧
    (findRel rels pid = some ⟨cat, pid, c, rm⟩ → findRel rels rm = some ⟨cat', rm, m, r⟩ → findRel rels m = none →
      walkRels rels pid = some (c, m, r)) :=
  ⟨fun h => walkRels_two rels pid c r cat h hc hr,
   fun h hrm hm => walkRels_three rels pid c rm m r cat cat' h hc hrm hm hr⟩

/-- A product id without a `default_component_of` relationship yields nothing,
    under either status. -/
theorem vex_unrelated_product_skipped (env : VexEnv) (d : VexDoc) (proto : Vuln) (pid : String)
    (h : findRel d.rels pid = none) :
    knownOne env d proto pid = .skip ∧ resolveFixed d pid = none := by
  simp [knownOne, resolveFixed, walkRels, h]

/-- `fixed` products, dedup across product ids (the main statement).  If every
    product id that resolves is an rpm with an arch qualifier whose entry is kept
    (`GoodFixed`: its repository CPE unbinds, its score parses, it is not
    disregarded), then `fixedVulnerabilities` returns exactly one vulnerability
    per distinct package key (repository, module, name, fixed version), in
    order of first occurrence: the vulnerability of the first product with that
    key, its arch pattern extended by `|arch` for every later product with the
    same key.  (`_partial`: products without arch that repeat a key rebuild
    the entry in place; container images go through the ranger.) -/
theorem vex_products_exact_partial (env : VexEnv) (d : VexDoc) (proto : Vuln) (pids : List String)
    (H : ∀ pid ∈ pids, ∀ p, resolveFixed d pid = some p → GoodFixed env d proto p) :
    ∃ st, fixedVulns env d proto {} pids = some st ∧
      st.entries = grpSpec (freshEntry env d proto) (pids.filterMap (resolveFixed d)) := by
  obtain ⟨st', h1, h2, h3⟩ := fixedLoop_grp env d proto pids { ({} : FxState) with adds := [] } H
  refine ⟨resetLowest st', by simp [fixedVulns, h1], ?_⟩
  rw [resetLowest_noAdds st' (by simpa using h3), h2, grpLoop_eq _ (freshEntry_key env d proto)]
  simp only [List.map_nil, List.nil_append, List.any_nil, Bool.not_false]
  congr 1
  exact List.filter_eq_self.2 (fun _ _ => rfl)

/-- The vulnerability `applyFixed` leaves for a product: fixed version, package
    name, module, binary kind of the product; identifier, description, issue
    date, updater of the entry it started from; with an arch qualifier that arch
    and the pattern-match operation. -/
theorem vex_fixed_vulnerability (env : VexEnv) (d : VexDoc) (p : FxProd) (base : FxEntry) (n : Nat)
    (v : Vuln) (rid : Option Nat) (keep : Bool) (add : Option RangerAdd)
    (h : applyFixed env d p base n = .done v rid keep add) :
    v.fixed = p.fixedIn ∧ v.pkgName = p.pkgName ∧ v.pkgModule = p.modName ∧ v.pkgKind = "binary" ∧ v.hasPkg = true ∧
    v.name = base.v.name ∧ v.desc = base.v.desc ∧ v.issued = base.v.issued ∧ v.updater = base.v.updater ∧ v.dist = base.v.dist ∧
    (p.arch ≠ "" → v.pkgArch = p.arch ∧ v.archOp = 3) := by
  have hs : ∃ repo rng lnk sv ns, v = { startFixed p base.v with repo := repo, range := rng, links := lnk, sev := sv, nsev := ns } := by
    unfold applyFixed at h
    simp only at h
    by_cases hrpm : p.purlType = "rpm"
    · simp only [hrpm, if_true] at h
      split at h
      · cases h
      · rename_i repo _
        obtain ⟨lnk, hv⟩ := finishFixed_frame _ _ _ _ _ _ _ _ _ _ h
        exact ⟨repo, (startFixed p base.v).range, lnk, v.sev, v.nsev, hv⟩
    · simp only [hrpm, if_false] at h
      by_cases hoci : p.purlType = "oci"
      · simp only [hoci, if_true] at h
        split at h
        · obtain ⟨lnk, hv⟩ := finishFixed_frame _ _ _ _ _ _ _ _ _ _ h
          exact ⟨env.goldRepo, _, lnk, v.sev, v.nsev, hv⟩
        · cases h
          exact ⟨env.goldRepo, none, _, _, _, rfl⟩
      · simp only [hoci, if_false] at h
        cases h
        exact ⟨_, _, _, _, _, rfl⟩
  obtain ⟨repo, rng, lnk, sv, ns, rfl⟩ := hs
  unfold startFixed
  by_cases ha : p.arch = "" <;> simp [ha]


/-- `known_affected`: when no product runs into an error (CPE that does not
    unbind, CVSS vector that does not parse) the result is, in order, one
    vulnerability per product id that `knownOne` emits — each product is decided
    on its own. -/
theorem vex_known_affected_exact (env : VexEnv) (d : VexDoc) (proto : Vuln) (pids : List String)
    (H : ∀ pid ∈ pids, knownOne env d proto pid ≠ .err) :
    knownAffected env d proto pids = some (pids.filterMap fun pid => (knownOne env d proto pid).toOption) :=
  knownAffected_eq env d proto pids (fun pid hp he => H pid hp he)

/-- Severity and disregard, shared by both loops.  With an impact threat the
    normalized severity is `NormalizeSeverity(details)` and the product is kept;
    without one the severity stays the prototype's and the product is
    disregarded exactly when it has a score whose base score is 0.0.  The
    severity string becomes the score's vector when there is a score. -/
theorem vex_score_and_impact (env : VexEnv) (d : VexDoc) (pid : String) (v : Vuln) :
    (∀ t, findImpact d pid = some t → findScore d pid = none →
      applyScore env d pid v = some ({ v with nsev := env.sev t.details }, true)) ∧
    (∀ t s vec, findImpact d pid = some t → findScore d pid = some s → scoreVector s = some vec →
      applyScore env d pid v = some ({ v with sev := vec, nsev := env.sev t.details }, true)) ∧
    (∀ s vec, findImpact d pid = none → findScore d pid = some s → scoreVector s = some vec →
      applyScore env d pid v = some ({ v with sev := vec }, !scoreZero s)) ∧
    (findImpact d pid = none → findScore d pid = none → applyScore env d pid v = some (v, true)) ∧
    (∀ s, findScore d pid = some s → scoreVector s = none → applyScore env d pid v = none) := by
  refine ⟨?_, ?_, ?_, ?_, ?_⟩
  · intro t ht hs; simp [applyScore, ht, hs]
  · intro t s vec ht hs hv; simp [applyScore, ht, hs, hv]
  · intro s vec ht hs hv
    cases hz : scoreZero s <;> simp [applyScore, ht, hs, hv, hz]
  · intro ht hs; simp [applyScore, ht, hs]
  · intro s hs hv; simp [applyScore, hs, hv]

/-- Every normalized severity the VEX parser assigns is one of the six values:
    it is the prototype's Unknown or the Red Hat table's value. -/
theorem vex_severity_in_range (env : VexEnv) (d : VexDoc) (pid : String) (v w : Vuln) (k : Bool)
    (hsev : env.sev = normalize codeRhelMode codeRhel codeRhelDefault) (hv : v.nsev < 6)
    (h : applyScore env d pid v = some (w, k)) : w.nsev < 6 := by
  have hn : ∀ s, env.sev s < 6 := by
    intro s; rw [hsev]; exact normalize_lt _ _ _ _ s (by decide) (by decide)
  unfold applyScore at h
  simp only at h
  split at h
  · cases h
  · rename_i v' hv'
    have hv'n : v'.nsev = v.nsev := by
      cases hs : findScore d pid with
      | none => rw [hs] at hv'; cases hv'; rfl
      | some s =>
        rw [hs] at hv'
        cases hvec : scoreVector s with
        | none => simp [hvec] at hv'
        | some vec => simp [hvec] at hv'; rw [← hv']
    split at h
    · cases h; exact hn _
    · split at h
      · split at h <;> (cases h; rw [hv'n]; exact hv)
      · cases h; rw [hv'n]; exact hv

/-- A document whose only vulnerability lists no product under `fixed` or
    `known_affected` (its products are `known_not_affected`,
    `under_investigation`, … — `otherStatus`, which nothing reads) yields no
    vulnerability and is reported as deleted. -/
theorem vex_not_affected_nothing (env : VexEnv) (d : VexDoc) (v : VexVuln)
    (hst : d.status ≠ "deleted") (hv : d.vulns = [v]) (hf : v.fixed = []) (hk : v.known = []) :
    vexParse env [d] = some ([], [d.id]) := by
  simp [vexParse, vexDocs, hst, hv, vexDocVulns, fixedVulns, fixedLoop, hf, hk, knownAffected, resetLowest, lowestAdds, setAssoc]

/-- A deletion record yields no vulnerability and names the advisory as deleted. -/
theorem vex_deleted_record (env : VexEnv) (d : VexDoc) (hst : d.status = "deleted") :
    vexParse env [d] = some ([], [d.id]) := by
  simp [vexParse, vexDocs, hst]

/-- Module of an rpm product: for the purl `pkg:rpmmod/redhat/<name>@<stream>:<version>:<context>`
    the module is `<name>:<stream>` (the version is cut at its first colon). -/
theorem vex_module_name (id name version : String) (cpeH : Option String) :
    moduleName (some { id := id, cpe := cpeH, purl := .ok { type := "rpmmod", ns := "redhat", name := name, version := version } }) =
      name ++ ":" ++ cutBefore ':' version := by
  simp [moduleName]

/-- Fixed version and package name of an rpm purl: `epoch:version` with epoch 0
    when the purl has no epoch qualifier; the purl's name. Kernel packages and
    rpms outside the `redhat` namespace are not ingested. -/
theorem vex_rpm_purl (u : Purl) (h : u.type = "rpm") :
    fixedInVersion u = some (u.epoch.getD "0" ++ ":" ++ u.version) ∧ purlPackageName u = some u.name ∧
    (startsWith u.name "kernel" = true → checkPURL u = false) ∧ (u.ns ≠ "redhat" → checkPURL u = false) := by
  refine ⟨by simp [fixedInVersion, h], by simp [purlPackageName, h], ?_, ?_⟩
  · intro hk; simp [checkPURL, hk]
  · intro hn; simp [checkPURL, h, hn]

end ClairModel.Props.C14
