/-
  C08 — Index results are a function of the manifest, not of indexing history.

  Property theorems only; same model as C07 (Model/Indexer.lean) plus the
  state token (Model/StateToken.lean, `libindex.setState`). Tied to /repo by
  the history correspondence of `./check C08` (Index calls over manifest
  families with shared and repeated layers, interleaved with scanner-set
  changes, each compared with the model and with a cold run).
-/
import ClairModel.Proofs.IndexerHist
import ClairModel.Proofs.IndexerFetch
import ClairModel.Proofs.StateToken

-- every variable of a property statement is bound explicitly: a misspelt name is an error, not a new variable
set_option autoImplicit false

namespace ClairModel.Props.C08
open ClairModel ClairModel.Indexer

/-! ## History independence -/

/-- After any history of Index calls under a fixed configuration — over any
    manifests, sharing or repeating layers in any way, fault-free or faulty —
    a fault-free Index of `m` returns a nil error and the same report as on an
    empty store. Hypothesis the proof forced (`Admissible`): a *faulty* call of
    the history targets a manifest that is not yet recorded as indexed, and
    has no lost-reply fault. (Without it: `stale_after_failed_reindex` of C07,
    finding report-clobbered.) -/
theorem history_independent_partial (sem : Sem) (cfg : Cfg) (hne : cfg.scanners ≠ []) (ops : List Op)
    (ha : Admissible sem { cfg := cfg } ops) (m : Manifest) (o : Oracle) (hff : FF o) :
    let st := (Sm.run (step sem) { cfg := cfg } ops).st
    (index sem o cfg m st false).err = none ∧
    (index sem o cfg m st false).report = (index sem o cfg m {} false).report := by
  intro st
  obtain ⟨hg, _⟩ := good_run sem ops { cfg := cfg } (good_empty sem cfg hne) ha
  have h1 := index_ff_result sem o cfg m st hff hg
  have h2 := index_ff_result sem o cfg m {} hff (good_empty sem cfg hne)
  exact ⟨h1.1, h1.2.1.trans h2.2.1.symm⟩

/-- The report is the closed form `freshReport`: it depends on the manifest's
    layer list (with repeats), the configured ecosystems and what the scanners
    find — not on the store. -/
theorem report_is_function_of_manifest (sem : Sem) (cfg : Cfg) (hne : cfg.scanners ≠ []) (ops : List Op)
    (ha : Admissible sem { cfg := cfg } ops) (m : Manifest) (o : Oracle) (hff : FF o) :
    (index sem o cfg m (Sm.run (step sem) { cfg := cfg } ops).st false).report = some (freshReport sem cfg m) := by
  obtain ⟨hg, _⟩ := good_run sem ops { cfg := cfg } (good_empty sem cfg hne) ha
  exact (index_ff_result sem o cfg m _ hff hg).2.1

/-! ## Deletion (`Libindex.DeleteManifests`) -/

/-- A deleted manifest is forgotten — not persisted, recorded as scanned by no
    scanner, no stored report — so the next Index of it is a full run
    (`history_independent_partial` covers histories with deletions: `Admissible`
    admits every `delete`). -/
theorem delete_forgets_manifest (sem : Sem) (ops : List Op) (m : Manifest) :
    let st := (Sm.run (step sem) {} ops).st
    m ∉ (st.deleteManifest m).manifests ∧ (∀ s, (m, s) ∉ (st.deleteManifest m).scannedManifest) ∧
    (m ∈ st.manifests → (st.deleteManifest m).report? m = none) := by
  intro st
  have hi : Inv sem st :=
    Sm.invariant_run (step := step sem) (Inv := fun (wd : World) => Inv sem wd.st)
      (fun (wd : World) op h => by
        cases op with
        | config cfg => exact h
        | index m o d => exact (index_spec sem o wd.cfg m wd.st d h).inv
        | delete ms => exact Store.inv_deleteManifests ms h)
      ops ({} : World) (inv_empty sem)
  exact Store.deleteManifest_forgets hi m

/-- Deleting `m` leaves every other manifest's report, scanned marks, manifest
    row and search-index rows as they were. -/
theorem delete_keeps_other_manifests (st : Store) (m m' : Manifest) (hne : m' ≠ m) :
    (st.deleteManifest m).report? m' = st.report? m' ∧
    (∀ s, (m', s) ∈ (st.deleteManifest m).scannedManifest ↔ (m', s) ∈ st.scannedManifest) ∧
    (m' ∈ (st.deleteManifest m).manifests ↔ m' ∈ st.manifests) ∧
    (∀ b, (m', b) ∈ (st.deleteManifest m).index ↔ (m', b) ∈ st.index) :=
  Store.deleteManifest_frame st m m' hne

/-- A layer that a remaining manifest refers to keeps its scanned marks and its
    artifacts (so it is not scanned again), and deletion never adds a record. -/
theorem delete_keeps_shared_layers (st : Store) (m m' : Manifest) (l : Layer) (hm' : m' ∈ st.manifests) (hne : m' ≠ m)
    (hl : l ∈ m') :
    (∀ s, (l, s) ∈ (st.deleteManifest m).scannedLayer ↔ (l, s) ∈ st.scannedLayer) ∧
    (∀ s r, (⟨l, s, r⟩ : ArtRow) ∈ (st.deleteManifest m).rows ↔ (⟨l, s, r⟩ : ArtRow) ∈ st.rows) ∧
    Le (st.deleteManifest m) st :=
  ⟨(Store.deleteManifest_keeps_used st m m' l hm' hne hl).1, (Store.deleteManifest_keeps_used st m m' l hm' hne hl).2,
   Store.deleteManifest_le st m⟩

/-! ## Re-index is a lookup -/

/-- Re-submitting a manifest that is recorded as indexed by all configured
    scanners: the call trace is ManifestScanned, IndexReport, SetIndexReport —
    no Realize, no Scan, no artifact write — nothing is fetched or scanned, the
    stored report is returned, and the store is unchanged except that the same
    report is written back. Holds in every reachable store (any earlier faults). -/
theorem reindex_is_lookup (sem : Sem) (o : Oracle) (cfg : Cfg) (m : Manifest) (st : Store) (hff : FF o)
    (hne : cfg.scanners ≠ []) (hi : Inv sem st) (hsc : st.manifestScanned m cfg.scanners = true) :
    ∃ rep, st.report? m = some rep ∧
      (index sem o cfg m st false).err = none ∧
      (index sem o cfg m st false).report = some rep ∧
      (index sem o cfg m st false).st = { st with reports := (m, rep) :: st.reports } ∧
      (index sem o cfg m st false).e.trace = ['R', 'G', 'M'] ∧
      (index sem o cfg m st false).e.scans = [] ∧ (index sem o cfg m st false).e.fetched = [] :=
  index_lookup sem o cfg m st hff hne hi hsc

/-! ## A (layer, scanner version) pair is scanned once -/

/-- Under any faults: a scanner is entered only for a (layer, scanner) pair that
    was not recorded as scanned when the Index call started. -/
theorem scan_only_unmarked (sem : Sem) (o : Oracle) (cfg : Cfg) (m : Manifest) (st : Store) (d : Bool) (hi : Inv sem st)
    (x : Layer × Scanner) (hx : x ∈ (index sem o cfg m st d).e.scans) : x ∉ st.scannedLayer :=
  (index_spec sem o cfg m st d hi).scans x hx

/-- After a manifest was indexed under scanner set `cfg`, indexing it under
    another set `cfg'` (any faults) runs no scanner of `cfg` on any of its
    layers: only new scanners (or new versions) run. -/
theorem new_scanner_rescans_only_new (sem : Sem) (o : Oracle) (cfg cfg' : Cfg) (m : Manifest) (st : Store) (d : Bool)
    (hi : Inv sem st) (hsc : st.manifestScanned m cfg.scanners = true)
    (l : Layer) (s : Scanner) (hx : (l, s) ∈ (index sem o cfg' m st d).e.scans) (hl : l ∈ m) : s ∉ cfg.scanners := by
  intro hs
  have hms := (Store.manifestScanned_iff _ _ _).1 hsc s hs
  exact (index_spec sem o cfg' m st d hi).scans (l, s) hx (hi.manifestLayers m s hms l hl)

/-- Over any fault-free history (any manifests, any reconfigurations to
    non-empty scanner sets, any deletions) every (layer, scanner version) pair
    is passed to Scan at most once — repeats of a layer inside a manifest
    included — and every pair that was scanned is recorded as scanned. A
    deletion removes from the log the pairs whose scanned_layer row it removed
    (the layer was garbage-collected): those may be scanned once more. -/
theorem scan_at_most_once (sem : Sem) (cfg0 : Cfg) (h0 : cfg0.scanners ≠ []) (ops : List Op) (hff : FFOps ops) :
    (Sm.run (step sem) { cfg := cfg0 } ops).scans.Nodup ∧
    ∀ x, x ∈ (Sm.run (step sem) { cfg := cfg0 } ops).scans → x ∈ (Sm.run (step sem) { cfg := cfg0 } ops).st.scannedLayer := by
  have h := scans_run sem ops { cfg := cfg0 } hff ⟨inv_empty sem, h0, List.nodup_nil, fun _ h => by cases h⟩
  exact ⟨h.scans.nodup, h.scans.marked⟩

/-! ## The skip decisions are sound under any faults -/

/-- checkManifest's per-scanner filter (any oracle): when it hands over to
    FetchLayers, every scanner it dropped from the controller's list is
    recorded as having scanned the manifest. -/
theorem checkManifest_filter_sound (sem : Sem) (o : Oracle) (m : Manifest) (w : W) (c : Ctl)
    (hok : (checkManifest o m w c).2.2.2 = none) (hnext : (checkManifest o m w c).2.2.1 = .fetchLayers)
    (s : Scanner) (hs : s ∈ c.vs) :
    s ∈ (checkManifest o m w c).2.1.vs ∨ (m, s) ∈ (checkManifest o m w c).1.st.scannedManifest := by
  have sp := checkManifest_spec sem o m w c
  rcases sp.ok hok with ⟨hn, _⟩ | ⟨_, _, _, _, _, _, hcov⟩
  · rw [hn] at hnext; cases hnext
  · rcases hcov s hs with h | h
    · exact Or.inl h
    · exact Or.inr (sp.step.sm ▸ h)

/-- reduce / fetchLayers (any oracle): when fetchLayers returns without error,
    every layer of the manifest that some configured scanner has not scanned
    was handed to Realize — no scanner is ever given a layer that was skipped.
    `hcov` is what `checkManifest_filter_sound` establishes. -/
theorem fetch_covers_every_needed_layer (sem : Sem) (o : Oracle) (cfg : Cfg) (m : Manifest) (w : W) (c : Ctl)
    (hi : Inv sem w.st) (hcov : ∀ s, s ∈ cfg.scanners → s ∈ c.vs ∨ (m, s) ∈ w.st.scannedManifest)
    (hok : (fetchLayers o m w c).2.2.2 = none)
    (l : Layer) (hl : l ∈ m) (s : Scanner) (hs : s ∈ cfg.scanners) (hun : (l, s) ∉ w.st.scannedLayer) :
    l ∈ (fetchLayers o m w c).1.e.fetched := by
  rcases hcov s hs with h | h
  · exact fetchLayers_covers o m w c hok l hl ⟨s, h, hun⟩
  · exact absurd (hi.manifestLayers m s h l hl) hun

/-! ## What fails: the stored report is keyed by manifest only -/

namespace Witness
/-- A distribution scanner finds item 7 in every layer; package scanners find
    nothing; the coalescer reports the distributions. -/
def sem1 : Sem :=
  { scan := fun s _ => if s.kind = .dist then [⟨.dist, 7⟩] else []
    real := fun _ => false
    coal := fun _ arts => arts.flatMap (·.dists)
    merge := fun bs => bs.flatten }
def cfgA : Cfg := [{ ps := [⟨"a", "1", .pkg⟩], ds := [], rs := [], fs := [] }]
def cfgAB : Cfg := [{ ps := [⟨"a", "1", .pkg⟩], ds := [⟨"b", "1", .dist⟩], rs := [], fs := [] }]
def clean : Oracle := fun _ => .ok
end Witness
open Witness

/-- History independence fails across scanner-set changes: index [1] with
    scanners {a, b}, remove scanner b (or roll it back), index [1] again: the
    short-circuit returns the report stored under {a, b} (it contains b's
    finding 7), while a cold run under {a} reports nothing.
    (finding stale-report-after-scanner-change) -/
theorem history_independent_counterexample :
    let r1 := index sem1 clean cfgAB [1] {} false
    let r2 := index sem1 clean cfgA [1] r1.st false
    let cold := index sem1 clean cfgA [1] {} false
    r2.err = none ∧ r2.report.map (·.body) = some [7] ∧ cold.report.map (·.body) = some [] := by
  decide

/-- The same mechanism without any change of the scanner set: the report is
    coalesced per ecosystem, so it depends on how the ecosystems group the
    scanners; regroup the same two package scanners from one ecosystem into two
    and the lookup returns the report of the old grouping (here the coalescer
    reports how many package scanners its ecosystem has). Neither the
    scanned_manifest rows nor the state token can tell the two configurations
    apart. (finding stale-report-after-scanner-change, regrouping variant) -/
theorem history_independent_counterexample_regrouped :
    let a : Scanner := ⟨"a", "1", .pkg⟩
    let b : Scanner := ⟨"b", "1", .pkg⟩
    let sem : Sem := { scan := fun _ _ => [], real := fun _ => false, coal := fun eco _ => [eco.ps.length], merge := fun bs => bs.flatten }
    let one : Cfg := [{ ps := [a, b], ds := [], rs := [], fs := [] }]
    let two : Cfg := [{ ps := [a], ds := [], rs := [], fs := [] }, { ps := [b], ds := [], rs := [], fs := [] }]
    let r1 := index sem clean one [1] {} false
    let r2 := index sem clean two [1] r1.st false
    let cold := index sem clean two [1] {} false
    one.scanners = two.scanners ∧
    r2.err = none ∧ r2.report.map (·.body) = some [2] ∧ cold.report.map (·.body) = some [1, 1] := by
  decide

/-! ## The by-design exception: a scanner that cannot reach the network -/

namespace Witness
/-- Package scanner `n` finds items 1 and 2 in every layer; while the network
    is down its Scan returns item 1 together with a `*net.AddrError`, which
    `result.Do` swallows: for the indexer the scanner found item 1. -/
def semNet (down : Bool) : Sem :=
  { scan := fun s _ => if s.kind = .pkg then (if down then [⟨.pkg, 1⟩] else [⟨.pkg, 1⟩, ⟨.pkg, 2⟩]) else []
    real := fun _ => false
    coal := fun _ arts => arts.flatMap (·.pkgs)
    merge := fun bs => bs.flatten }
def cfgN : Cfg := [{ ps := [⟨"n", "1", .pkg⟩], ds := [], rs := [], fs := [] }]
end Witness

/-- `result.Do` returns nil for a scanner error that is a `*net.AddrError`
    ("scanner not able to access resources"), and `scanLayer` then stores what
    the scanner returned and records the layer as scanned. So what a scanner
    finds is a function of (scanner, layer) only as long as the scanner's
    access to the network does not change: index [1] while it is down, then
    again after it came back: the second call returns the report without item
    2, a cold run returns it. Every theorem above is for one `Sem`; this is the
    one way the code lets the semantics change under a fixed scanner version,
    and it is by design. Any other scanner error fails the Index call
    (C07 `failure_reported_partial`). -/
theorem addr_error_history_dependence_by_design :
    let r1 := index (semNet true) clean cfgN [1] {} false
    let r2 := index (semNet false) clean cfgN [1] r1.st false
    let cold := index (semNet false) clean cfgN [1] {} false
    r1.err = none ∧ r1.report.map (·.success) = some true ∧
    r2.err = none ∧ r2.report.map (·.body) = some [1] ∧ cold.report.map (·.body) = some [1, 2] := by
  decide

/-! ## The state token -/

open StateToken in
/-- The byte string hashed by `setState` is the same for two scanner lists iff
    they contain the same scanners (name, version, kind): the token changes
    exactly when the set changes, and not when only the order does. Hypotheses:
    names, versions and kinds contain neither NUL nor newline, and no two
    scanners of a list share (kind, name) — `EcosystemsToScanners` de-duplicates
    by name within a kind. The hash (md5) is assumed injective. -/
theorem token_iff_set (vs vs' : List TScanner) (hc : ∀ s, s ∈ vs → CleanS s) (hc' : ∀ s, s ∈ vs' → CleanS s)
    (hn : (vs.map key).Nodup) (hn' : (vs'.map key).Nodup) :
    preimage vs = preimage vs' ↔ ∀ s, s ∈ vs ↔ s ∈ vs' :=
  preimage_eq_iff vs vs' hc hc' hn hn'

namespace Witness
/-- "package", "repository", "rh", "1", "2", "ab", "c", "a", "bc" as bytes. -/
def kPackage : StateToken.Bytes := [112, 97, 99, 107, 97, 103, 101]
def kRepository : StateToken.Bytes := [114, 101, 112, 111, 115, 105, 116, 111, 114, 121]
def nRh : StateToken.Bytes := [114, 104]
end Witness

open StateToken in
/-- The defect that was repaired (`fix:` d5c846fa): with the map keyed by name
    only, a package scanner and a repository scanner of the same name (as the
    built-in rhel_containerscanner pair) collapse, and a version bump ("1" to
    "2") of the package scanner leaves the token unchanged. -/
theorem token_old_counterexample_same_name :
    let p1 : TScanner := ⟨nRh, [49], kPackage⟩
    let p2 : TScanner := ⟨nRh, [50], kPackage⟩
    let r : TScanner := ⟨nRh, [49], kRepository⟩
    preimageOld [p1, r] = preimageOld [p2, r] ∧ preimage [p1, r] ≠ preimage [p2, r] := by
  decide

open StateToken in
/-- ... and fields concatenated without separators run into each other:
    ("ab", "c") and ("a", "bc"). -/
theorem token_old_counterexample_concat :
    let s1 : TScanner := ⟨[97, 98], [99], kPackage⟩
    let s2 : TScanner := ⟨[97], [98, 99], kPackage⟩
    preimageOld [s1] = preimageOld [s2] ∧ preimage [s1] ≠ preimage [s2] := by
  decide

end ClairModel.Props.C08
