/-
  C11 — The layer filesystem view is faithful to the tar archive.
  Property theorems only; helper lemmas live in Proofs/TarFS*.lean.
  The model (Model/TarFS.lean, Model/TarFSPath.lean) is tied to
  pkg/tarfs/tarfs.go by the correspondence run of `./check C11`.
-/
import ClairModel.Proofs.TarFS

namespace ClairModel.Props.C11
open ClairModel ClairModel.TarFS

/-- Other repetition is rejected (1): a member that is not a regular file or
    hard link (a directory, symbolic link or special file) whose name is
    already a key of the lookup table makes `add` fail with ErrExist and leaves
    the view untouched. (Directory members never reach `add` in that case: the
    loop of New skips them, see `prepMember`.) -/
theorem nonregular_over_existing_rejected (fuel : Nat) (fs : FS) (hl : HL) (name : Bytes)
    (ino : Inode) (useHL : Bool) (i : Nat)
    (h : fs.get? name = some i) (hk : ino.kind.mtype ≠ .regular) :
    add (fuel + 1) fs hl name ino useHL = (fs, hl, some .exist) := by
  simp [add, again_nonreg fs ino.kind _ name i h hk]

/-- Other repetition is rejected (2): a regular file (or hard link) over an
    existing directory makes `add` fail with ErrExist and leaves the view
    untouched. -/
theorem file_over_directory_rejected (fuel : Nat) (fs : FS) (hl : HL) (name : Bytes)
    (ino : Inode) (useHL : Bool) (i : Nat)
    (h : fs.get? name = some i) (hk : ino.kind.mtype = .regular)
    (hd : (fs.ino i).kind.mtype = .dir) :
    add (fuel + 1) fs hl name ino useHL = (fs, hl, some .exist) := by
  simp [add, again_over_dir fs ino.kind _ name i h hk hd]

end ClairModel.Props.C11
