/-
  C11 — The layer filesystem view is faithful to the tar archive.
  Property theorems only; helper lemmas live in Proofs/TarFS*.lean.
  The model (Model/TarFS.lean, Model/TarFSPath.lean) is tied to
  pkg/tarfs/tarfs.go by the correspondence run of `./check C11`.
-/
import ClairModel.Proofs.TarFS
import ClairModel.Proofs.TarFSInv
import ClairModel.Proofs.TarFSSub
import ClairModel.Proofs.TarFSExtract
import ClairModel.Proofs.TarFSReject
import ClairModel.Proofs.TarFSDir
import ClairModel.Proofs.TarFSLayer
import ClairModel.Proofs.TarFSThrough
import ClairModel.Proofs.TarFSWitness

-- every variable of a property statement is bound explicitly: a misspelt name is an error, not a new variable
set_option autoImplicit false

namespace ClairModel.Props.C11
open ClairModel ClairModel.TarFS

/-- Containment of names: for every byte string `p` (a member name or a link
    target, with any mixture of "..", absolute prefixes, empty elements and
    bytes that are not UTF-8), `normPath p` is a valid io/fs path: relative,
    without empty, "." or ".." elements, and valid UTF-8. Every name New
    stores went through normPath. -/
theorem normPath_contained (p : Bytes) : validPath (normPath p) = true :=
  normPath_valid p

/-- No escape: in the view New builds from any member list whatsoever, every
    key of the lookup table, every stored member name and every stored target
    of a symbolic or hard link is a contained name (`Contained k` is
    `validPath k = true`, i.e. io/fs.ValidPath: "." or a relative path none of
    whose elements is empty, "." or "..", in valid UTF-8). Since paths are only
    ever resolved through the lookup table and the children tables, no member
    name or link target can make the view refer outside the archive root, and
    every key can be asked for through the io/fs interface. -/
theorem no_escape (ms : List Member) (fs : FS) (h : newFS ms = .ok fs) :
    (∀ x ∈ fs.lookup, validPath x.1 = true) ∧
    (∀ n ∈ fs.inodes, validPath n.name = true ∧
      ((n.kind = .sym ∨ n.kind = .link) → validPath n.link = true)) :=
  ⟨(newFS_inv ms fs h).keys, (newFS_inv ms fs h).inos⟩

/-- The same invariant holds for every view obtained by Sub (to any depth). -/
theorem no_escape_sub (fs fs' : FS) (dir : Bytes) (h : Inv fs) (hs : subFS fs dir = .ok fs') : Inv fs' :=
  subFS_inv fs dir fs' h hs

/-- Sub is faithful (fixed code, 88b9d780): for a view satisfying the
    invariant of `no_escape` and a name that resolves to an inode whose member
    name `d` is not ".", the lookup table of `Sub` consists of "." for the key
    `d` and of `r` for every key `d/r` — nothing else, in particular no key of
    a sibling whose name merely starts with `d`. -/
theorem sub_faithful (fs fs' : FS) (dir : Bytes) (n : Nat) (hinv : Inv fs)
    (hn : getInode fs dir = .ok n) (hs : subFS fs dir = .ok fs') (hbp : (fs.ino n).name ≠ dotP) :
    ∀ (r : Bytes) (i : Nat), (r, i) ∈ fs'.lookup ↔
      (r = dotP ∧ ((fs.ino n).name, i) ∈ fs.lookup) ∨
      (r ≠ dotP ∧ ((fs.ino n).name ++ SL :: r, i) ∈ fs.lookup) :=
  subFS_entries fs fs' dir n hinv hn hs hbp

/-- Sub of the root keeps the whole table (before the fix it kept only names
    starting with a dot). -/
theorem sub_root_faithful (fs fs' : FS) (dir : Bytes) (n : Nat)
    (hn : getInode fs dir = .ok n) (hs : subFS fs dir = .ok fs') (hbp : (fs.ino n).name = dotP) :
    fs'.lookup = fs.lookup :=
  subFS_root fs fs' dir n hn hs hbp

/-- The defect of DESIGN section 5 row 18, kept visible: the filter Sub used
    before the fix maps the key "ab/y" of a sibling to "b/y" in Sub("a"). -/
theorem sub_prefix_counterexample :
    subEntryLegacy [97] ([97, 98, 47, 121], 3) = some ([98, 47, 121], 3) :=
  subEntryLegacy_leaks

/-- Other repetition is rejected (1): a member that is not a regular file or
    hard link (a directory, symbolic link or special file) whose name is
    already a key of the lookup table makes `add` fail with ErrExist and leaves
    the view untouched. (Directory members never reach `add` in that case: the
    loop of New skips them, see `prepMember`.) -/
theorem nonregular_over_existing_rejected (fuel : Nat) (fs : FS) (hl : HL) (name : Bytes)
    (ino : Inode) (useHL : Bool) (i : Nat)
    (h : fs.get? name = some i) (hk : ino.kind.mtype ≠ .regular) :
    add (fuel + 1) fs hl name ino useHL = (fs, hl, some .exist) := by
  simp [add, again_nonreg fs ino.kind _ name i h hk]

/-- Other repetition is rejected (2): a regular file (or hard link) over an
    existing directory makes `add` fail with ErrExist and leaves the view
    untouched. -/
theorem file_over_directory_rejected (fuel : Nat) (fs : FS) (hl : HL) (name : Bytes)
    (ino : Inode) (useHL : Bool) (i : Nat)
    (h : fs.get? name = some i) (hk : ino.kind.mtype = .regular)
    (hd : (fs.ino i).kind.mtype = .dir) :
    add (fuel + 1) fs hl name ino useHL = (fs, hl, some .exist) := by
  simp [add, again_over_dir fs ino.kind _ name i h hk hd]

/-- Last writer wins: a regular file over an existing regular file (or hard
    link) replaces exactly that inode — the lookup table, every other inode
    and the deferred hard links are unchanged, so the name now reads the new
    content. -/
theorem file_over_file_replaces (fuel : Nat) (fs : FS) (hl : HL) (name : Bytes)
    (ino : Inode) (useHL : Bool) (i : Nat)
    (h : fs.get? name = some i) (hk : ino.kind.mtype = .regular)
    (he : (fs.ino i).kind.mtype = .regular) :
    add (fuel + 1) fs hl name ino useHL =
      ({ fs with inodes := fs.inodes.set i { ino with name := name } }, hl, none) := by
  simp [add, again_over_file fs ino.kind _ name i h hk he]

/-- Link resolution: if `m` hops along symbolic links lead from `name` to `t`,
    `t` is not a symbolic link, and `m` is at most the number of inodes, then
    `Open(name)` is `Open(t)`. -/
theorem open_resolves_chain (fs : FS) (m : Nat) (name t : Bytes)
    (hchain : linkIter fs m name = some t) (hend : linkStep fs t = none)
    (hm : m ≤ fs.inodes.length) : openFS fs name = openFS fs t :=
  open_follows_chain fs m name t hchain hend hm

/-- A chain without a repeated inode is never longer than the hop budget:
    `m ≤ inodes` in `open_resolves_chain` holds for every chain of symbolic
    links that is not a cycle. -/
theorem acyclic_chain_within_budget (fs : FS) (idxs : List Nat) (hnd : idxs.Nodup)
    (hsym : ∀ i ∈ idxs, (fs.ino i).kind = .sym) : idxs.length ≤ fs.inodes.length :=
  acyclic_chain_short fs idxs hnd hsym

/-- Cycles give an error, never divergence: when following symbolic links
    from `name` never reaches anything else, `Open(name)` fails with
    ErrInvalid. (`openFS` is a total function; before the fix daa67834 the
    code recursed without bound.) -/
theorem open_cycle_is_error (fs : FS) (name : Bytes)
    (h : ∀ m, ∃ t, linkIter fs m name = some t) : openFS fs name = .err .invalid :=
  openAux_endless _ name h

/-- View = extraction, for archives in which links are only leaves.
    `extract ms = some t` says (Model/TarFSExtract.lean): no member has a
    regular file, link or special file in its directory path; a regular file
    repeats only a regular file's name; links and special files have new
    names; a hard link names a regular file that is already there; `t` is then the tree a sequential extraction into an
    empty root creates (implied parents made, a later file replaces the
    content of an earlier one, a directory member over an existing name
    changes nothing). For every such archive — any member order, any names —
    New succeeds and for every name `k` the view has a key `k` exactly when
    the extraction created `k`: a directory inode for a directory, a regular
    inode whose segment holds the bytes of the last occurrence for a file, a
    link inode with the normalised target for a symbolic or hard link (what
    reading a hard link yields is `hardlink_reads_target`). Moreover the
    view is tree-consistent (`TreeOK`: the lookup table and the children
    tables describe the same tree).

    Partial: archives with members placed through a symbolic link, with a
    file written through a link, or with hard links that precede or miss
    their target are not covered by this
    theorem (the correspondence run and the extraction oracle of the harness
    cover them; see the findings for what fails there). -/
theorem view_eq_extract_partial (ms : List Member) (t : XTree) (hx : extract ms = some t) :
    ∃ fs, newFS ms = .ok fs ∧ TreeOK [] fs ∧
      ∀ k, match alGet t k with
        | none => fs.get? k = none
        | some .dir => ∃ i, fs.get? k = some i ∧ (fs.ino i).kind = .dir
        | some (.file d) => ∃ i, fs.get? k = some i ∧ (fs.ino i).kind = .reg ∧ (fs.ino i).data = some d
        | some (.sym tgt) => ∃ i, fs.get? k = some i ∧ (fs.ino i).kind = .sym ∧ (fs.ino i).link = tgt
        | some (.hard tgt) => ∃ i, fs.get? k = some i ∧ (fs.ino i).kind = .link ∧ (fs.ino i).link = tgt
        | some .special => ∃ i, fs.get? k = some i ∧ (fs.ino i).kind = .special := by
  obtain ⟨fs, hnew, hT, hR⟩ := newFS_plain ms t hx
  refine ⟨fs, hnew, hT, fun k => ?_⟩
  have := hR k (by simp)
  cases hk : alGet t k with
  | none => rw [hk] at this; exact node?_none this
  | some node =>
    rw [hk] at this
    cases node with
    | dir => exact node?_dir this
    | file d => exact node?_file hT this
    | sym tgt => exact node?_sym this
    | hard tgt => exact node?_hard this
    | special => exact node?_special this

/-- In the reference, a regular-file member determines the content of its
    name: the last occurrence wins. -/
theorem extract_last_occurrence (t t' : XTree) (m : Member) (hk : m.kind = .reg)
    (h : xInsert t m = some t') : alGet t' (normPath m.name) = some (.file m.data) := by
  unfold xInsert at h
  simp only [hk] at h
  split at h
  · cases h
  · split at h
    · cases h
    · split at h
      · cases h; rw [alGet_alSet]; simp
      · cases h; rw [alGet_alSet]; simp
      · cases h

/-- Consistent Stat: on a tree-consistent view (in particular the view of
    every archive covered by `view_eq_extract_partial`), for a valid path that
    does not go through a symbolic link (`NoLinkOnPath`: no proper prefix of
    `p` is the key of a link), `Stat(p)` is the header of the key `p`, and
    not-exist when `p` is not a key. -/
theorem view_stat (fs : FS) (h : TreeOK [] fs) (p : Bytes) (hp : validPath p = true)
    (hns : NoLinkOnPath fs p) :
    statFS fs p = match fs.get? p with
      | some i => .ok (fs.info i)
      | none => .error .notexist :=
  h.stat hp hns

/-- A path that is not a valid io/fs path is refused with ErrInvalid, by
    every query, on every view. -/
theorem invalid_path_refused (fs : FS) (p : Bytes) (hp : validPath p = false) :
    getInode fs p = .error .invalid :=
  getInode_invalid fs hp

/-- Consistent Open: a regular file that fits its archive segment reads back
    the bytes of the segment (`readSeg`: `checkSize`, then the reader), a
    directory lists its entries (the same list ReadDir gives), a special file
    is refused, a symbolic link is followed, a hard link reads the segment of
    the file its chain ends at. -/
theorem view_open (fs : FS) (h : TreeOK [] fs) (p : Bytes) (hp : validPath p = true)
    (hns : NoLinkOnPath fs p) :
    openFS fs p = match fs.get? p with
      | none => .err .notexist
      | some i =>
        match (fs.ino i).kind with
        | .dir => .dir (fs.info i) (fs.entries i)
        | .reg =>
          match readSeg (fs.ino i) with
          | .ok d => .file (fs.info i) d
          | .error e => .err e
        | .special => .err .exist
        | .sym => openAux fs fs.inodes.length (fs.ino i).link
        | .link =>
          match linkChain fs fs.inodes.length (getInode fs (fs.ino i).link) with
          | .error e => .err e
          | .ok t =>
            match readSeg (fs.ino t) with
            | .ok d => .file (fs.info i) d
            | .error e => .err e :=
  h.open hp hns

/-- `checkSize` (ce813f23): a member whose header size (PAX `size` record, the
    logical size of a sparse file) exceeds the archive segment that holds it is
    never read: `readSeg` answers ErrInvalid whatever the segment holds, and a
    member that fits reads exactly what its segment holds. -/
theorem oversize_refused (n : Inode) (h : n.md.seg < n.md.hsize) : readSeg n = .error .invalid :=
  readSeg_oversize h

theorem fitting_member_reads_segment (n : Inode) (d : Bytes) (hd : n.data = some d)
    (h : n.md.hsize ≤ n.md.seg) : readSeg n = .ok d :=
  readSeg_fits hd h

/-- Hard links resolve as inside the root: opening a hard link whose target
    name is the key of a regular file (that fits its segment) yields that
    file's bytes (under the link's own header). -/
theorem hardlink_reads_target (fs : FS) (h : TreeOK [] fs) (p : Bytes) (i j : Nat) (d : Bytes)
    (hp : validPath p = true) (hns : NoLinkOnPath fs p)
    (hi : fs.get? p = some i) (hk : (fs.ino i).kind = .link)
    (hns' : NoLinkOnPath fs (fs.ino i).link)
    (hj : fs.get? (fs.ino i).link = some j) (hjk : (fs.ino j).kind = .reg) (hd : (fs.ino j).data = some d)
    (hfit : (fs.ino j).md.hsize ≤ (fs.ino j).md.seg) :
    openFS fs p = .file (fs.info i) d :=
  h.open_hardlink hp hns hi hk hns' hj hjk hd hfit

/-- ... and a hard link to an oversized file is refused like the file. -/
theorem hardlink_oversize_refused (fs : FS) (h : TreeOK [] fs) (p : Bytes) (i j : Nat)
    (hp : validPath p = true) (hns : NoLinkOnPath fs p)
    (hi : fs.get? p = some i) (hk : (fs.ino i).kind = .link)
    (hns' : NoLinkOnPath fs (fs.ino i).link)
    (hj : fs.get? (fs.ino i).link = some j) (hjk : (fs.ino j).kind = .reg)
    (hbig : (fs.ino j).md.seg < (fs.ino j).md.hsize) :
    openFS fs p = .err .invalid :=
  h.open_hardlink_oversize hp hns hi hk hns' hj hjk hbig

theorem view_readdir (fs : FS) (h : TreeOK [] fs) (p : Bytes) (hp : validPath p = true)
    (hns : NoLinkOnPath fs p) :
    readDirFS fs p = match fs.get? p with
      | some i => .ok (fs.entries i)
      | none => .error .notexist :=
  h.readDir hp hns

/-- A directory lists exactly the keys directly below it, under their base
    names and with their types. -/
theorem view_readdir_entries (fs : FS) (h : TreeOK [] fs) (p : Bytes) (j : Nat)
    (hj : fs.get? p = some j) (e : Entry) :
    e ∈ fs.entries j ↔ ∃ k i, fs.get? k = some i ∧ k ≠ dotP ∧ dirOf k = p ∧
      e = { name := baseOf k, mtype := (fs.ino i).kind.mtype } :=
  h.mem_entries hj e

/-- Paging, `n ≤ 0` (fixed code 4525426c): `ReadDir(n)` on a directory handle
    hands out everything that is left in one slice, without an error, and moves
    the position to the end. -/
theorem readdir_n_nonpositive_all {α : Type} (d : DirH α) (n : Int) (hn : n ≤ 0) :
    (d.readDir n).2 = .entries (d.es.drop d.pos) ∧ d.es.length ≤ (d.readDir n).1.pos :=
  readDir_all d n hn

/-- Paging, `n > 0`: the next at most `n` entries in listing order, and
    `io.EOF` exactly when nothing is left. -/
theorem readdir_n_page {α : Type} (d : DirH α) (n : Int) (hn : 0 < n) :
    (d.readDir n).2 = (if d.es.length ≤ d.pos then .eof else .entries ((d.es.drop d.pos).take n.toNat)) :=
  readDir_page d n hn

/-- Paging is complete and repeats nothing: for every sequence of calls on a
    fresh handle (positive page sizes, 0, -1, other negative numbers, mixed) the
    entries handed out, concatenated, are a prefix of the sorted listing; no
    call panics. -/
theorem readdir_paging_prefix {α : Type} (es : List α) (ns : List Int) :
    ∃ k, k ≤ es.length ∧
      ((readPages { es := es } ns).flatMap Page.got) = es.take k ∧
      .panic ∉ readPages ({ es := es } : DirH α) ns := by
  obtain ⟨k, hk, hcat, hnp⟩ := readPages_prefix ns ({ es := es } : DirH α) [] ⟨Nat.zero_le _, by simp⟩
  exact ⟨k, hk, by simpa using hcat, hnp⟩

/-- `io.EOF` is answered only when the whole listing has been handed out (and
    only to a call with `n > 0`). -/
theorem readdir_eof_only_at_end {α : Type} (d : DirH α) (n : Int) (h : (d.readDir n).2 = .eof) :
    d.es.length ≤ d.pos ∧ 0 < n :=
  readDir_eof d n h

/-- The io/fs contract ("if n <= 0, ReadDir returns all the DirEntry values in
    a single slice") as the code before 4525426c broke it: `ReadDir(0)` returned
    no entry and no error, `ReadDir(-2)` panicked. -/
theorem readdir_nonpositive_counterexample :
    (({ es := [1, 2, 3] } : DirH Nat).readDirLegacy 0).2 = .entries [] ∧
    (({ es := [1, 2, 3] } : DirH Nat).readDirLegacy (-2)).2 = .panic ∧
    (({ es := [1, 2, 3] } : DirH Nat).readDir 0).2 = .entries [1, 2, 3] ∧
    (({ es := [1, 2, 3] } : DirH Nat).readDir (-2)).2 = .entries [1, 2, 3] :=
  readdir_zero_counterexample

/-- Listings are sorted by name (for every view, whatever the archive). -/
theorem readdir_sorted (fs : FS) (j : Nat) :
    (fs.entries j).Pairwise (fun a b => bytesLe a.name b.name = true) :=
  entries_sorted fs j

/-- Glob (patterns of literals, `*`, `?`) answers exactly the keys of the
    lookup table that `path.Match` accepts, in sorted order. (That the keys are
    the literal member names is what the finding `literal-names` is about.) -/
theorem glob_exact (fs : FS) (pat n : Bytes) :
    n ∈ globFS fs pat ↔ (∃ i, (n, i) ∈ fs.lookup) ∧ matchPat (pat.length + 2) pat n = true :=
  mem_globFS fs pat n

theorem glob_sorted (fs : FS) (pat : Bytes) :
    (globFS fs pat).Pairwise (fun a b => bytesLe a b = true) :=
  globFS_sorted fs pat

/-- Rejected or the same, for archives without any link: an archive of directory
    and regular-file members that has no defined extraction (a regular file is
    used as a directory, or a regular file replaces a directory) is rejected
    by New with an error. With `view_eq_extract_partial`: on link-free archives
    New succeeds exactly when the extraction is defined, and then presents it
    (a directory member over a regular file is skipped by both). -/
theorem link_free_rejected_or_same (ms : List Member)
    (hk : ∀ m ∈ ms, m.kind = .dir ∨ m.kind = .reg) (hx : extract ms = none) :
    ∃ e, newFS ms = .error e :=
  newFS_plain_fail ms hk hx

/-- Layer.FS is the view: `Layer.Init` with any of the six OCI tar media types
    (and a digest that parses) on a fresh Layer succeeds exactly when New does;
    the Layer then hands out that view and a Reader. -/
theorem layer_fs_is_view (mt : String) (ms : List Member) (fs : FS)
    (hmt : mt ∈ tarMediaTypes) (hnew : newFS ms = .ok fs) :
    ∃ st, layerInit {} mt true ms = (st, none) ∧ layerFS st = .ok fs ∧ layerReader st = none :=
  ⟨_, layerInit_view mt ms fs hmt hnew, by simp [layerFS], by simp [layerReader]⟩

/-- An archive New rejects leaves the Layer uninitialised: the error class of
    New comes through, and FS, Reader and Close all refuse. -/
theorem layer_rejected_archive (mt : String) (ms : List Member) (e : Err)
    (hmt : mt ∈ tarMediaTypes) (hnew : newFS ms = .error e) :
    ∃ st, layerInit {} mt true ms = (st, some (.view e)) ∧ layerFS st = .error .uninit ∧
      layerReader st = some .uninit ∧ (layerClose st).2 = .err :=
  ⟨_, layerInit_reject mt ms e hmt hnew, by simp [layerFS], by simp [layerReader], by simp [layerClose]⟩

/-- Any other media type is refused and leaves the Layer uninitialised. -/
theorem layer_unknown_media_refused (mt : String) (ms : List Member) (hmt : mt ∉ tarMediaTypes) :
    (layerInit {} mt true ms).2 = some .media ∧ (layerInit {} mt true ms).1.init = false :=
  layerInit_other mt ms hmt

/-- Init on an initialised Layer is refused and changes nothing; the first
    Close succeeds and keeps the view, the second panics. -/
theorem layer_init_twice_refused (st : LayerSt) (mt : String) (d : Bool) (ms : List Member)
    (h : st.init = true) : layerInit st mt d ms = (st, some .twice) :=
  layerInit_twice st mt d ms h

theorem layer_close_once (st : LayerSt) (hi : st.init = true) (hc : st.closed = false) :
    (layerClose st).2 = .ok ∧ (layerClose (layerClose st).1).2 = .panic ∧
      layerFS (layerClose st).1 = layerFS st :=
  layerClose_once st hi hc

/-- Layer.Files returns only names that were asked for (normalised to the
    archive root), each with what `fs.ReadFile` of the view yields for it. -/
theorem layer_files_sound (fs : FS) (paths : List Bytes) (cap : Nat) (l : List (Bytes × Bytes))
    (h : layerFiles fs paths cap = .found l) :
    ∀ x ∈ l, x.1 ∈ paths.map normalizeIn ∧ readFileFS fs x.1 = .ok x.2 :=
  layerFiles_sound fs paths cap l h

/-- Links in directory position, what the code does (all views, all names):
    when the directory part of a new member name `p` is the key of a symbolic
    link whose stored target is the key of a directory inode `j`, `add`
    registers the member under the literal name `p` and makes it a child of
    `j`; the name the member has inside that directory does not become a key.
    This is the mechanism behind the findings literal-names, alias-duplicate,
    hardlink-alias-target and dangling-hardlink-ghost (their witnesses follow);
    a change of this behaviour shows in the correspondence run. -/
theorem member_through_symlink_literal (fs : FS) (p : Bytes) (ino : Inode) (s j : Nat) (fuel : Nat)
    (hl : HL) (u : Bool)
    (hroot : fs.get? dotP = some 0) (hrootDir : (fs.ino 0).kind = .dir)
    (hp : validPath p = true) (hfresh : fs.get? p = none)
    (hnl : ino.kind = .link → (fs.get? ino.link).isSome = true)
    (hs : fs.get? (dirOf p) = some s) (hsl : s < fs.inodes.length) (hsk : (fs.ino s).kind = .sym)
    (htc : validPath (fs.ino s).link = true) (htn : (fs.ino s).link ≠ p) (htd : (fs.ino s).link ≠ dotP)
    (hj : fs.get? (fs.ino s).link = some j) (hjl : j < fs.inodes.length) (hjd : (fs.ino j).kind = .dir) :
    ∃ fs', add (fuel + 1) fs hl p ino u = (fs', if u then alDel hl p else hl, none) ∧
      (∀ k, fs'.get? k = if p = k then some fs.inodes.length else fs.get? k) ∧
      fs' = (fs.pend p { ino with name := p }).linkChild j fs.inodes.length :=
  ⟨_, add_through_symlink fuel hl u hroot hrootDir hp hfresh hnl hs hsl hsk htc htn htd hj hjl hjd,
    fun k => through_symlink_keys k, rfl⟩

/-- literal-names: {d/, b -> d, file b/c}. The lookup table (Glob, Sub) has the
    keys b/c, b, d, "." and no key d/c, while the directory d lists c and
    Stat("d/c") finds it: the listing and Glob disagree, and b/c is a name no
    extraction creates. -/
theorem literal_names_counterexample :
    (Witness.viewOf Witness.msLiteral).map
        (fun fs => (fs.lookup.map (·.1), fs.get? Witness.n_dc, Witness.idx fs Witness.n_dc, Witness.childNames fs 1)) =
      some ([Witness.n_bc, Witness.n_b, Witness.n_d, dotP], none, some 3, [Witness.n_c]) :=
  Witness.literal_names

/-- alias-duplicate: {d/, b -> d, file b/c, file d/c}: the directory d has two
    children named c. -/
theorem alias_duplicate_counterexample :
    (Witness.viewOf Witness.msAlias).map (fun fs => Witness.childNames fs 1) = some [Witness.n_c, Witness.n_c] :=
  Witness.alias_duplicate

/-- hardlink-alias-target: {d/, b -> d, file b/c, hc hard link to d/c}: hc does
    not exist in the view although its target d/c does. -/
theorem hardlink_alias_target_counterexample :
    (Witness.viewOf Witness.msHlAlias).map (fun fs => (Witness.idx fs Witness.n_hc, Witness.idx fs Witness.n_dc)) =
      some (none, some 3) :=
  Witness.hardlink_alias_target

/-- dangling-hardlink-ghost: {d/, b -> d, b/h hard link to a missing name}: the
    directory d still lists h, but neither b/h nor d/h is a key and
    Open("d/h") fails. -/
theorem dangling_hardlink_ghost_counterexample :
    (Witness.viewOf Witness.msGhost).map
        (fun fs => (Witness.childNames fs 1, fs.get? Witness.n_bh, fs.get? Witness.n_dh, Witness.openErr fs Witness.n_dh)) =
      some ([Witness.n_h], none, none, some .notexist) :=
  Witness.dangling_hardlink_ghost

/-- link-lexical: {d/e/, d/x = "D", x = "R", s -> d/e, t -> s/../x}: reading t
    yields "R", the root's x; inside the root s/.. is d and t is d/x = "D". -/
theorem link_lexical_counterexample :
    (Witness.viewOf Witness.msLexical).map (fun fs => Witness.contentOf fs [116]) = some (some [82]) :=
  Witness.link_lexical

/-- link-target-through-link: {b/s1 -> ., b/e -> s1/b, file b/b/f}: Open("b/e")
    is a directory (it lists f), but "b/e/f" does not resolve although b/b/f
    does. -/
theorem link_target_through_link_counterexample :
    (Witness.viewOf Witness.msLinkThrough).map
        (fun fs => (Witness.opensAsDir fs [98, 47, 101], Witness.idx fs [98, 47, 101, 47, 102],
          Witness.idx fs [98, 47, 98, 47, 102])) =
      some (true, none, some 4) :=
  Witness.link_target_through_link

/-- sub-links: {file a/f = "data", a/h hard link to a/f}: the view reads "data"
    through a/h; in Sub("a") the key h exists but Open("h") fails with
    not-exist. -/
theorem sub_links_counterexample :
    ((Witness.viewOf Witness.msSubLinks).bind fun fs => (Witness.subOf fs [97]).map fun s =>
        (Witness.contentOf fs [97, 47, 104], Witness.idx s [104], Witness.openErr s [104])) =
      some (some [100, 97, 116, 97], some 3, some .notexist) :=
  Witness.sub_links

/-- sub-nested: {file a/b/c}: Sub("a") reads b/c, Sub("a") then Sub("b") is an
    empty view. -/
theorem sub_nested_counterexample :
    ((Witness.viewOf Witness.msSubNested).bind fun fs => (Witness.subOf fs [97]).bind fun s1 =>
        (Witness.subOf s1 [98]).map fun s2 =>
          (Witness.contentOf s1 [98, 47, 99], s2.lookup.map (·.1), Witness.openErr s2 [99])) =
      some (some [49], [], some .notexist) :=
  Witness.sub_nested

/-- stat-symlink-lstat: {d/, s -> d}: Stat("s") is a symbolic link, Open("s")
    is the directory. -/
theorem stat_symlink_lstat_counterexample :
    (Witness.viewOf Witness.msLstat).map (fun fs => (Witness.statType fs [115], Witness.opensAsDir fs [115])) =
      some (some .symlink, true) :=
  Witness.stat_symlink_lstat

/-- hardlink-stat-size: {file f (4 bytes), h hard link to f}: Stat("h") has
    size 0, reading h yields 4 bytes. -/
theorem hardlink_stat_size_counterexample :
    (Witness.viewOf Witness.msHlSize).map
        (fun fs => (Witness.statSize fs Witness.n_h, (Witness.contentOf fs Witness.n_h).map List.length)) =
      some (some 0, some 4) :=
  Witness.hardlink_stat_size

/-- sparse-oversize-refused: a member whose header size (8193) exceeds its
    segment (2560): Stat reports the size, Open fails with ErrInvalid. -/
theorem sparse_oversize_counterexample :
    (Witness.viewOf Witness.msOversize).map
        (fun fs => (Witness.statSize fs [115, 112], Witness.openErr fs [115, 112])) =
      some (some 8193, some .invalid) :=
  Witness.sparse_oversize

end ClairModel.Props.C11
