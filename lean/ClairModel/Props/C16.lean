/-
  C16 — Offline export and import lose nothing.
-/
import ClairModel.Proofs.JsonBlob

namespace ClairModel.Props.C16
open ClairModel ClairModel.JsonBlob

/-- An empty recording loads as no entries. -/
theorem empty_recording_loads_nothing : loadAll [] = ([], .ok) := by
  decide

end ClairModel.Props.C16
