/-
  C16 — Offline export and import lose nothing.

  Property theorems only; the model is Model/JsonBlob.lean (libvuln/jsonblob:
  Store.Update*, Store.Store, bufShim, Loader.Next; libvuln.OfflineImport's
  loop), helper lemmas are in Proofs/JsonBlob.lean.  The model is tied to the
  code by the correspondence run of `./check C16` (recording histories, Store,
  Load and hand-made files on the real package, line by line).

  Full statement of the property, for reference:

      for every history `ops` of recording calls, every map order and every
      record size:  Store succeeds and Load yields a permutation of ALL the
      recorded updates (same updater, fingerprint, records in order).

  The unchanged code violates it in two ways (`zero_length_lost_counterexample`,
  `oversize_record_store_fails_counterexample`), so the history theorem is
  proved in two forms: `load_store_drops_only_empty` (what really comes back,
  under the size hypothesis) and `load_store_roundtrip_partial` (the full
  conclusion under the two hypotheses the proof needs: no zero-length update, no
  line of 1 MiB or more).
-/
import ClairModel.Proofs.JsonBlob
import ClairModel.Proofs.JsonBlobLoad
import ClairModel.Proofs.JsonBlobFault
import ClairModel.Proofs.JsonBlobImport
import ClairModel.Proofs.OfflineV1
import ClairModel.Gen.OfflineImport

-- every variable of a property statement is bound explicitly: a misspelt name is an error, not a new variable
set_option autoImplicit false

namespace ClairModel.Props.C16
open ClairModel ClairModel.JsonBlob

/-! ### Recording -/

/-- After any history (recordings with arbitrary uuid draws, including colliding
    ones, and flushes) the keys of the store's map are pairwise different and
    none is uuid.Nil: the retry loop on a uuid collision does its job.  This is
    what makes "group consecutive lines by ref" sound for one `Store` call. -/
theorem refs_distinct (ops : List Op) :
    (Sm.run step World.init ops).store.entries.Pairwise (fun a b => a.ref ≠ b.ref) ∧
    ∀ e ∈ (Sm.run step World.init ops).store.entries, e.ref ≠ 0 :=
  ⟨(inv_run ops).distinct, (inv_run ops).nonNil⟩

/-- A history of recording calls writes nothing and leaves in the map exactly
    the updates of the calls that returned, in call order (concurrent recorders
    are such a history: each call's critical section is atomic under `s.Lock`). -/
theorem recorded_updates_are_the_map (ops : List Op) (h : RecOnly ops) :
    (Sm.run step World.init ops).store.entries.map Entry.update = returned World.init ops ∧
    (Sm.run step World.init ops).out = [] := by
  obtain ⟨h1, h2⟩ := run_recOnly ops World.init h
  exact ⟨by rw [h1]; exact List.nil_append _, h2⟩

/-- `DeltaUpdateVulnerabilities` records exactly like `UpdateVulnerabilities`;
    the deleted names are dropped, as coded. -/
theorem delta_records_like_update (w : World) (u f : String) (recs : List Rec) (del : List String)
    (cands : List Nat) :
    step w (.delta u f recs del cands) = step w (.record .vuln u f recs cands) := by
  simp [step, Store.recordDelta]

/-- A recording call that fails before it takes the lock — `diskBuf` cannot
    create its temp file, or the per-update encoder rejects a record — returns
    an error and changes nothing: the map, the latest refs and the output are as
    before.  (Such calls are part of `RecOnly` histories and are not among the
    `returned` updates, so every theorem below about recording histories holds
    with failed calls anywhere in the history.) -/
theorem failed_recording_changes_nothing (w : World) (k : Kind) (u f : String) (recs : List Rec)
    (ops : List Op) :
    step w (.failed k u f recs) = (w, .err) ∧
    returned w (.failed k u f recs :: ops) = returned w ops ∧
    Sm.run step w (.failed k u f recs :: ops) = Sm.run step w ops := by
  refine ⟨rfl, ?_, rfl⟩
  simp [returned, step, Op.update?]

/-! ### Store -/

/-- `Store.Store` returns nil exactly when every line of every entry fits the
    1 MiB scanner buffer of `bufShim`; whatever the map order. -/
theorem store_ok_iff_all_lines_fit (order : List Entry) :
    (storeOut order).2.2 = true ↔ ∀ e ∈ order, ∀ r ∈ e.recs, r.fits = true :=
  storeOut_ok_iff order

/-- When it succeeds it writes, for each entry in map order, one line per record
    in record order, all carrying the entry's ref, updater and fingerprint, and
    empties the map. -/
theorem store_writes_blocks (order : List Entry) (h : ∀ e ∈ order, ∀ r ∈ e.recs, r.fits = true) :
    storeOut order = (order.flatMap (fun e => e.recs.map (mkLine e)), [], true) :=
  storeOut_fits order h

/-- For every reachable store there is a map order (the hypotheses of the
    theorems below are satisfiable). -/
theorem store_order_exists (ops : List Op) :
    ∃ order s' lines ok, (Sm.run step World.init ops).store.store order = some (s', lines, ok) :=
  JsonBlob.store_order_exists ops

/-! ### Store when it fails

  `storeOutF faults order` is `Store.Store` when disk buffers cannot be read
  back: the fault `(ref, k)` makes the buffer of the entry `ref` fail after `k`
  lines (closed or truncated file, I/O error).  A line of 1 MiB or more takes
  the same path in the code (`MarshalJSON` returns the scanner's error). -/

/-- Without faults this is the `Store.Store` of the theorems above. -/
theorem store_without_faults (s : Store) (order : List Nat) : s.storeF order [] = s.store order :=
  storeF_nil s order

/-- `Store.Store` returns nil iff every visited entry is intact: all its lines
    fit the scanner buffer and its disk buffer yields all of them. -/
theorem store_ok_iff_all_entries_intact (faults : List (Nat × Nat)) (order : List Entry) :
    (storeOutF faults order).2.2 = true ↔ ∀ e ∈ order, e.Intact (cutOf faults e.ref) :=
  storeOutF_ok_iff faults order

/-- What a failing `Store.Store` has done when it returns: with the map visited
    in the order `pre ++ e :: post`, every entry of `pre` is written completely,
    the failing entry `e` is written up to (not including) its first line that
    is too long or unreadable — `j` lines, fewer than it has — nothing of `post`
    is written, and the map holds exactly `post`: `e` is deleted although the
    rest of it was never written. -/
theorem store_failure_writes_prefix_and_deletes (faults : List (Nat × Nat)) (order : List Entry)
    (h : (storeOutF faults order).2.2 = false) :
    ∃ pre e post j, order = pre ++ e :: post ∧
      (∀ x ∈ pre, x.Intact (cutOf faults x.ref)) ∧ ¬ e.Intact (cutOf faults e.ref) ∧
      j < e.recs.length ∧ e.written (cutOf faults e.ref) = e.recs.take j ∧
      storeOutF faults order =
        (pre.flatMap (fun x => x.recs.map (mkLine x)) ++ (e.recs.take j).map (mkLine e), post, false) := by
  obtain ⟨pre, e, post, j, h1, h2, h3, h4, h5, h6⟩ := storeOutF_fail faults order h
  refine ⟨pre, e, post, j, h1, h2, h3, h4, h5, ?_⟩
  rw [h6, render_append, render_singleton_truncated]
  rfl

/-- After a failed `Store`, a second `Store` of what is left (any map order
    `post'`, nothing damaged, every line fits) succeeds, and loading the two
    outputs yields — WITHOUT error — every entry completely and in the order
    written, except the entry the first call failed on: it comes back with only
    its first `j` records, and not at all when `j = 0`.  So the only trace of
    the failure is `Store`'s return value; the file loads as if it were whole,
    and the unwritten records of that one entry are gone from the store too. -/
theorem failed_store_retry_load (faults : List (Nat × Nat)) (order : List Entry)
    (hd : order.Pairwise (fun a b => a.ref ≠ b.ref)) (h0 : ∀ e ∈ order, e.ref ≠ 0)
    (hfail : (storeOutF faults order).2.2 = false)
    (post' : List Entry) (hperm : post'.Perm (storeOutF faults order).2.1)
    (hfit : ∀ e ∈ post', ∀ r ∈ e.recs, r.fits = true) :
    ∃ pre e post j, order = pre ++ e :: post ∧ (storeOutF faults order).2.1 = post ∧ j < e.recs.length ∧
      e.written (cutOf faults e.ref) = e.recs.take j ∧
      (storeOut post').2.2 = true ∧
      loadAll ((storeOutF faults order).1 ++ (storeOut post').1) =
        (((pre ++ [e.truncated j] ++ post').filter nonEmpty).map (fun x => some x.loaded), .ok) := by
  obtain ⟨pre, e, post, j, h1, h2, h3, h4, h5, h6⟩ :=
    fail_retry_load faults order hd h0 hfail post' hperm hfit
  exact ⟨pre, e, post, j, h1, h2, h3, h4, by rw [h5], h6⟩

/-- A concrete instance: three records, the disk buffer fails after the first.
    `Store` returns an error, the entry is gone from the map, and the file
    loads — cleanly — as an update of one record. -/
theorem failed_store_truncates_silently_counterexample :
    let ops : List Op := [.record .vuln "a" "fa" [⟨1, 10⟩, ⟨2, 10⟩, ⟨3, 10⟩] [0]]
    let w := Sm.run step World.init ops
    ∃ s' lines, w.store.storeF [1] [(1, 1)] = some (s', lines, false) ∧ s'.entries = [] ∧
      loadAll lines = ([some { updater := "a", fp := "fa", vuln := [⟨1, 10⟩] }], .ok) := by
  refine ⟨_, _, rfl, rfl, by decide⟩

/-! ### Load -/

/-- The loader on a file made of blocks of consecutive lines, one non-empty
    block per entry, neighbouring (indeed all) blocks carrying different non-Nil
    refs: it yields exactly one entry per block, in file order, with the block's
    updater, fingerprint and records in order — nothing lost, duplicated, split
    or merged — and ends without error. -/
theorem load_of_written_blocks (es : List Entry) (hne : ∀ e ∈ es, e.recs ≠ [])
    (hd : es.Pairwise (fun a b => a.ref ≠ b.ref)) (h0 : ∀ e ∈ es, e.ref ≠ 0) :
    loadAll (es.flatMap fun e => e.recs.map (mkLine e)) = (es.map (fun e => some e.loaded), .ok) :=
  loadAll_render es hne hd h0

/-- `Next` reporting true implies `Entry()` is non-nil — in every loader state
    and for every file, damaged ones included (the repaired defect, row 13). -/
theorem next_true_entry_nonnil (l : Loader) (h : l.step.2 = .yes) : l.step.1.e.isSome = true :=
  step_yes_entry l h

/-- No file makes the iteration hand out a nil entry. -/
theorem load_never_yields_nil (lines : List Line) : ∀ x ∈ (loadAll lines).1, x.isSome = true :=
  drain_all_some _ _

/-- ANY file.  What `for l.Next() { l.Entry() }; l.Err()` yields on an arbitrary
    sequence of lines (interleaved refs, Nil refs, unknown Kinds, payloads that
    do not unmarshal, lines that are not a `diskEntry`) is `loadSpec`:
    * leading lines with ref uuid.Nil and an unknown Kind are ignored;
    * if the next line has ref uuid.Nil and a record payload, `Next` panics
      (`l.next` is nil when the record is appended);
    * otherwise the lines before the first bad one are cut into maximal runs of
      consecutive lines with the same ref, one entry per run (updater and
      fingerprint of the run's FIRST line; the run's vulnerability payloads in
      order; its enrichment payloads in order — an unknown Kind adds nothing);
    * at the end of the file every run is reported and `Err()` is nil; at a
      line that does not decode every run is reported — the unfinished one as
      if complete — and `Err()` is the error; at a payload that does not
      unmarshal the last run is NOT reported and `Err()` is the error. -/
theorem load_any_file (lines : List Line) : loadAll lines = loadSpec lines :=
  loadAll_eq_spec lines

/-- `runs` is a partition into maximal runs: concatenated they are the file,
    each is non-empty with one ref throughout, and neighbouring runs differ in
    their ref. -/
theorem runs_partition_maximal (lines : List Line) :
    (runs lines).flatten = lines ∧
    (∀ r ∈ runs lines, ∃ f tl, r = f :: tl ∧ ∀ l ∈ tl, l.ref = f.ref) ∧
    (∀ pre a b post, runs lines = pre ++ a :: b :: post →
      a.head?.map (·.ref) ≠ b.head?.map (·.ref)) :=
  ⟨runs_flatten lines, runs_uniform lines, runs_maximal lines⟩

/-- A file of decodable lines whose first ref is not Nil: exactly one entry per
    maximal run, no error.  Lines of one ref that are not adjacent are NOT put
    together (`A B A` gives three entries): grouping is by neighbourhood only,
    which is why `refs_distinct` and the block shape of what `Store` writes
    matter. -/
theorem load_good_file (ln : Line) (rest : List Line) (hg : ∀ l ∈ ln :: rest, l.body.good = true)
    (h0 : ln.ref ≠ 0) :
    loadAll (ln :: rest) = (((runs (ln :: rest)).filterMap entryOfRun).map some, .ok) :=
  loadAll_good ln rest hg h0

/-- A writer that fails in the middle of a `Write` leaves a torn last line
    (`step w .tear`).  Whatever decodable lines precede it: every entry is
    reported — the last one as if it were complete, although `Store` may have
    written only part of it — and then `Err()` is non-nil.  (A copy of an
    export that is cut inside a line is such a file.  Cut exactly between two
    lines it is simply a shorter valid file: the format has no trailer.) -/
theorem torn_output_ends_in_error (ls : List Line) (hg : ∀ l ∈ ls, l.body.good = true)
    (h0 : ∀ ln rest, ls = ln :: rest → ln.ref ≠ 0) :
    loadAll (ls ++ [tornLine]) = (((runs ls).filterMap entryOfRun).map some, .err) ∧
    (step ⟨{}, ls⟩ .tear).1.out = ls ++ [tornLine] :=
  ⟨loadAll_torn ls hg h0, rfl⟩

/-- `A B A`: three entries, the first and the third carrying the same ref. -/
example :
    loadAll [⟨1, "a", "f", .vuln ⟨0, 0⟩⟩, ⟨2, "b", "f", .vuln ⟨1, 0⟩⟩, ⟨1, "a", "f", .vuln ⟨2, 0⟩⟩] =
      ([some { updater := "a", fp := "f", vuln := [⟨0, 0⟩] },
        some { updater := "b", fp := "f", vuln := [⟨1, 0⟩] },
        some { updater := "a", fp := "f", vuln := [⟨2, 0⟩] }], .ok) := by
  decide

/-- The only way to make `Next` panic: the first line that is not ignored has
    ref uuid.Nil and carries a record.  `Store` never writes such a file
    (`refs_distinct`: no key of the map is Nil). -/
theorem load_panics_iff (lines : List Line) :
    (loadAll lines).2 = .panic ↔
      ∃ ln rest, lines.dropWhile skipped = ln :: rest ∧ ln.ref = 0 ∧ ln.body.isRec = true := by
  rw [loadAll_eq_spec, loadSpec]
  cases hd : lines.dropWhile skipped with
  | nil => simp
  | cons ln rest =>
    simp only
    by_cases h : ln.ref = 0 ∧ ln.body.isRec = true
    · simp only [h, and_self, if_true, true_iff]
      exact ⟨ln, rest, rfl, h.1, h.2⟩
    · simp only [h, if_false]
      constructor
      · intro hp
        exfalso
        revert hp
        cases stopOf (ln :: rest) <;> simp [finish]
      · rintro ⟨a, b, hab, h3, h4⟩
        cases hab
        exact absurd ⟨h3, h4⟩ h

/-- An empty recording loads as no entries: whatever order is given, `Store` on
    a store nothing was recorded into writes nothing, and the empty file yields
    no entry and no error. -/
theorem empty_recording_loads_nothing (order : List Nat) (s' : Store) (lines : List Line) (ok : Bool)
    (h : Store.init.store order = some (s', lines, ok)) :
    ok = true ∧ lines = [] ∧ loadAll lines = ([], .ok) := by
  unfold Store.store at h
  cases ha : arrange Store.init.entries order with
  | none => simp [ha] at h
  | some es =>
    have hes : es = [] := by
      cases es with
      | nil => rfl
      | cons e es => exact absurd (arrange_mem order _ _ ha e (by simp)) (by simp [Store.init])
    subst hes
    simp only [ha, storeOut, Option.some.injEq, Prod.mk.injEq] at h
    obtain ⟨_, hl, hok⟩ := h
    subst hl
    exact ⟨hok.symm, rfl, rfl⟩

/-- The loader before the repair, on the empty file: `l.e = l.next; return true`. -/
def nextPreFixOnEmpty (l : Loader) : Loader × NextOut :=
  ({ l with err := .eof, e := l.next }, .yes)

/-- Before the `fix:` commit an empty file made `Next` report true with a nil
    `Entry()`; `OfflineImport` dereferences it (`importAll` = none). -/
theorem empty_yields_nil_entry_counterexample :
    (nextPreFixOnEmpty (Loader.init [])).2 = .yes ∧
    (nextPreFixOnEmpty (Loader.init [])).1.e = none ∧
    importAll (fun _ => []) [(nextPreFixOnEmpty (Loader.init [])).1.e] = none := by
  decide

/-! ### Store then Load after a recording history -/

/-- What comes back.  For every history of recording calls (any number, any
    updaters/fingerprints, repeated ones, any uuid draws), every map order, if
    every line fits the scanner buffer: `Store` succeeds, empties the map, and
    `Load` yields — without error — a permutation of exactly the recorded updates
    that have at least one record, each with its updater, fingerprint and
    records in order.  So nothing non-empty is lost, nothing is duplicated,
    split or merged; only zero-length updates are dropped. -/
theorem load_store_drops_only_empty (ops : List Op) (hrec : RecOnly ops) (order : List Nat)
    (hfit : ∀ u ∈ returned World.init ops, ∀ r ∈ u.recs, r.fits = true)
    (s' : Store) (lines : List Line) (ok : Bool)
    (hst : (Sm.run step World.init ops).store.store order = some (s', lines, ok)) :
    ok = true ∧ s'.entries = [] ∧
    ∃ L : List Update, L.Perm ((returned World.init ops).filter fun u => !u.recs.isEmpty) ∧
      loadAll lines = (L.map (fun u => some u.loaded), .ok) :=
  store_load_general ops hrec order hfit s' lines ok hst

/-- The property's conclusion — one loaded entry per recorded update — under the
    two hypotheses the unchanged code needs: every recorded update has at least
    one record (`hne`), and every record's line is shorter than 1 MiB (`hfit`). -/
theorem load_store_roundtrip_partial (ops : List Op) (hrec : RecOnly ops) (order : List Nat)
    (hne : ∀ u ∈ returned World.init ops, u.recs ≠ [])
    (hfit : ∀ u ∈ returned World.init ops, ∀ r ∈ u.recs, r.fits = true)
    (s' : Store) (lines : List Line) (ok : Bool)
    (hst : (Sm.run step World.init ops).store.store order = some (s', lines, ok)) :
    ok = true ∧ s'.entries = [] ∧
    ∃ L : List Update, L.Perm (returned World.init ops) ∧
      loadAll lines = (L.map (fun u => some u.loaded), .ok) := by
  obtain ⟨h1, h2, L, hp, hl⟩ := store_load_general ops hrec order hfit s' lines ok hst
  refine ⟨h1, h2, L, ?_, hl⟩
  have : ((returned World.init ops).filter fun u => !u.recs.isEmpty) = returned World.init ops := by
    apply List.filter_eq_self.2
    intro u hu
    simp [hne u hu]
  rwa [this] at hp

/-- The hypotheses of `load_store_roundtrip_partial` are satisfiable: a history of
    three non-empty updates by two updaters, a fingerprint repeated, a uuid
    collision in the second call. -/
example :
    let ops : List Op := [.record .vuln "a" "f" [⟨1, 10⟩, ⟨2, 20⟩] [0],
                          .record .enrich "b" "f" [⟨3, 5⟩] [0, 1],
                          .delta "a" "g" [⟨1, 10⟩] ["x"] [2]]
    RecOnly ops ∧
    returned World.init ops =
      [⟨.vuln, "a", "f", [⟨1, 10⟩, ⟨2, 20⟩]⟩, ⟨.enrich, "b", "f", [⟨3, 5⟩]⟩, ⟨.vuln, "a", "g", [⟨1, 10⟩]⟩] := by
  refine ⟨?_, by decide⟩
  intro op hop
  simp only [List.mem_cons, List.not_mem_nil, or_false] at hop
  rcases hop with rfl | rfl | rfl <;> rfl

/-- Row 12: a zero-length update writes no line and is absent after loading. -/
theorem zero_length_lost_counterexample :
    let ops : List Op := [.record .vuln "a" "fa" [⟨7, 10⟩] [0], .record .vuln "b" "fb" [] [1]]
    let w := Sm.run step World.init ops
    (returned World.init ops).length = 2 ∧
    ∃ s' lines, w.store.store [1, 2] = some (s', lines, true) ∧
      loadAll lines = ([some { updater := "a", fp := "fa", vuln := [⟨7, 10⟩] }], .ok) := by
  refine ⟨by decide, _, _, rfl, by decide⟩

/-- A record whose JSON line is 1 MiB long makes `Store` fail; the entry is cut
    at that record and deleted from the map all the same. -/
theorem oversize_record_store_fails_counterexample :
    let ops : List Op := [.record .vuln "a" "fa" [⟨1, 10⟩, ⟨2, 1048576⟩, ⟨3, 10⟩] [0]]
    let w := Sm.run step World.init ops
    ∃ s' lines, w.store.store [1] = some (s', lines, false) ∧ s'.entries = [] ∧
      loadAll lines = ([some { updater := "a", fp := "fa", vuln := [⟨1, 10⟩] }], .ok) := by
  refine ⟨_, _, rfl, rfl, by decide⟩

/-! ### Any number of `Store` calls to one writer ("as often as needed to flush") -/

/-- For every history mixing recording calls and `Store` calls (all writing to
    one file), if every record fits (`FitOps`) and no recording call is handed a
    uuid that an already written line carries (`NoReuse`; uuid.New() collides
    with probability 2⁻¹²²), loading everything written yields exactly the
    flushed non-empty updates, in the order written; together with the non-empty
    updates still in the map they are a permutation of all non-empty recorded
    updates. -/
theorem multi_flush_roundtrip_partial (ops : List Op) (hfit : FitOps ops)
    (hnr : NoReuse World.init ops) :
    ∃ L : List Update,
      loadAll (Sm.run step World.init ops).out = (L.map (fun u => some u.loaded), .ok) ∧
      (L ++ ((Sm.run step World.init ops).store.entries.filter nonEmpty).map Entry.update).Perm
        ((returned World.init ops).filter fun u => !u.recs.isEmpty) :=
  multi_flush_general ops hfit hnr

/-- Why `NoReuse` is needed: the collision loop only looks at the map, which a
    `Store` call empties; a uuid drawn again afterwards makes the new entry's
    lines continue the old block and the loader merges two updates into one. -/
theorem uuid_reuse_across_flush_merges_counterexample :
    let ops : List Op := [.record .vuln "a" "fa" [⟨1, 10⟩] [0], .store [1] [],
                          .record .vuln "b" "fb" [⟨2, 10⟩] [0], .store [1] []]
    loadAll (Sm.run step World.init ops).out =
      ([some { updater := "a", fp := "fa", vuln := [⟨1, 10⟩, ⟨2, 10⟩] }], .ok) := by
  decide

/-- `NoReuse` and `FitOps` are satisfiable by a history with two flushes. -/
example :
    let ops : List Op := [.record .vuln "a" "fa" [⟨1, 10⟩] [0], .store [1] [],
                          .record .enrich "b" "fb" [⟨2, 10⟩] [1], .store [2] []]
    NoReuse World.init ops ∧
    loadAll (Sm.run step World.init ops).out =
      ([some { updater := "a", fp := "fa", vuln := [⟨1, 10⟩] },
        some { updater := "b", fp := "fb", enrich := [⟨2, 10⟩] }], .ok) := by
  refine ⟨?_, by decide⟩
  simp [NoReuse, step, Store.record, Store.storeF, storeOutF, emitCut, cutOf, pickRef, mkUuid, Store.hasRef, arrange,
    emitRecs, Rec.fits, maxLine, mkLine, World.init]

/-! ### OfflineImport's loop

  `libvuln.OfflineImport` needs a Postgres pool, so the harness cannot drive it.
  Its loop is tied to the model (`importEntry`, `importAll`) by facts the
  extractor regenerates from libvuln/updates.go on every run
  (`Gen/OfflineImport.lean`, by role, independent of variable names). -/

/-- The loop the model describes is the loop in the source:
    * the known operations are those of kind VulnerabilityKind, looked up by the
      entry's `Updater` (`known e.updater`);
    * an entry is skipped — `continue` of the outer loop — exactly on
      `op.Fingerprint == e.Fingerprint` (`(known e.updater).contains e.fp`);
    * then `UpdateEnrichments(ctx, e.Updater, e.Fingerprint, e.Enrichment)` if
      `e.Enrichment != nil`, then `UpdateVulnerabilities(ctx, e.Updater,
      e.Fingerprint, e.Vuln)` if `e.Vuln != nil`, in this order, no `else`;
    * `l.Err()` is consulted after the loop and a non-nil error is returned
      (a file that stops decoding is not imported silently in part);
    * a failing store call ends the import with that error (no entry is
      dropped silently: `if ref, err = …; err != nil { return … }` is the whole
      guarded body);
    * the loader reads the function's input, and `Next`, `Entry`, `Err` are
      called on that one loader; nothing else is in the loop body but logging. -/
theorem import_loop_shape_as_modelled :
    Gen.OfflineImport.opsKind = "VulnerabilityKind" ∧
    Gen.OfflineImport.rangeKey = "Updater" ∧
    Gen.OfflineImport.skipCompare = ("Fingerprint", "Fingerprint") ∧
    Gen.OfflineImport.skipContinuesLoop = true ∧
    Gen.OfflineImport.guardedCalls =
      [("Enrichment", "UpdateEnrichments", ["Updater", "Fingerprint", "Enrichment"]),
       ("Vuln", "UpdateVulnerabilities", ["Updater", "Fingerprint", "Vuln"])] ∧
    Gen.OfflineImport.errCheckedAfterLoop = true ∧
    Gen.OfflineImport.loaderErrorReturned = true ∧
    Gen.OfflineImport.storeErrorsNotReturned = 0 ∧
    Gen.OfflineImport.loaderReadsTheInput = true ∧
    Gen.OfflineImport.oneLoaderThroughout = true ∧
    Gen.OfflineImport.unrecognisedStatements = 0 := by
  decide

/-- An entry whose fingerprint is among the known operations of its updater
    causes no store call. -/
theorem import_skips_known_fingerprint (known : String → List String) (e : LEntry)
    (h : e.fp ∈ known e.updater) : importEntry known e = [] := by
  simp [importEntry, h]

/-- An entry with an unknown fingerprint causes exactly one call per non-empty
    record list, with the entry's updater, fingerprint and records. -/
theorem import_calls_for_unknown (known : String → List String) (e : LEntry)
    (h : e.fp ∉ known e.updater) (hv : e.vuln ≠ []) (he : e.enrich = []) :
    importEntry known e = [.vulnerabilities e.updater e.fp e.vuln] := by
  simp [importEntry, h, hv, he]

/-- Whatever file is loaded, the import loop never dereferences a nil entry. -/
theorem import_never_dereferences_nil (known : String → List String) (lines : List Line) :
    (importAll known (loadAll lines).1).isSome = true := by
  have h := load_never_yields_nil lines
  generalize (loadAll lines).1 = es at h
  induction es with
  | nil => rfl
  | cons x es ih =>
    have hx := h x (by simp)
    cases x with
    | none => simp at hx
    | some e =>
      have := ih (fun y hy => h y (by simp [hy]))
      simp only [importAll, Option.isSome_map]
      exact this

/-- The calls are made in the order the entries are read; `UpdateEnrichments`
    comes before `UpdateVulnerabilities` for an entry that has both kinds of
    records (a hand-made file; `Store` never writes one). -/
theorem import_in_file_order (known : String → List String) (a b : List (Option LEntry))
    (ca cb : List ImportCall) (ha : importAll known a = some ca) (hb : importAll known b = some cb) :
    importAll known (a ++ b) = some (ca ++ cb) ∧
    ∀ e : LEntry, e.fp ∉ known e.updater → e.vuln ≠ [] → e.enrich ≠ [] →
      importEntry known e = [.enrichments e.updater e.fp e.enrich, .vulnerabilities e.updater e.fp e.vuln] := by
  refine ⟨importAll_append known a b ca cb ha hb, ?_⟩
  intro e h hv he
  simp [importEntry, h, hv, he]

/-- End to end: record any history (failed calls included), `Store` (any map
    order, every line fits), `Load`, and run `OfflineImport`'s loop against a
    matcher store whose known fingerprints are `known`: the loop makes exactly
    one store call — `UpdateVulnerabilities` for a vulnerability or delta
    update, `UpdateEnrichments` for an enrichment update, with the update's
    name, fingerprint and records in order — for every recorded update that has
    at least one record and whose fingerprint is not already known for its
    updater name, in the order written; and no other call.  With an empty
    matcher store (`known = fun _ => []`) nothing is skipped. -/
theorem offline_export_then_import (ops : List Op) (hrec : RecOnly ops) (order : List Nat)
    (hfit : ∀ u ∈ returned World.init ops, ∀ r ∈ u.recs, r.fits = true)
    (s' : Store) (lines : List Line) (ok : Bool)
    (hst : (Sm.run step World.init ops).store.store order = some (s', lines, ok))
    (known : String → List String) :
    ∃ L : List Update, L.Perm ((returned World.init ops).filter fun u => !u.recs.isEmpty) ∧
      importAll known (loadAll lines).1 = some ((L.filter (Update.fresh known)).map Update.call) ∧
      (L.filter (Update.fresh fun _ => [])) = L := by
  obtain ⟨_, _, L, hp, hl⟩ := store_load_general ops hrec order hfit s' lines ok hst
  refine ⟨L, hp, ?_, ?_⟩
  · rw [hl]
    apply importAll_loaded
    intro u hu
    have := (List.mem_filter.1 (hp.mem_iff.1 hu)).2
    simpa using this
  · apply List.filter_eq_self.2
    intro u _
    simp [Update.fresh]

/-- The skip looks only at the updater NAME and the fingerprint, and the known
    operations are the vulnerability ones: an enrichment update is skipped when
    a vulnerability operation of the same name carries its fingerprint, and is
    never skipped on account of an earlier import of itself. -/
theorem import_skip_ignores_kind (known : String → List String) (u : Update) (hne : u.recs ≠ []) :
    importEntry known u.loaded = (if (known u.updater).contains u.fp then [] else [u.call]) := by
  rw [importEntry_loaded known u hne, Update.fresh]
  by_cases h : (known u.updater).contains u.fp = true
  · rw [h]; rfl
  · rw [Bool.not_eq_true] at h; rw [h]; rfl

/-! ### The zip-of-zips export and import (updater/offline.go, updater/offline_v1.go)

  Model: Model/OfflineV1.lean.  `exportV1 prev raw order refs` is what
  `Updater.Fetch(ctx, prev, out)` writes when the factories hand out `raw`, the
  workers' results reach the collector in the order `order` and `addUpdater`
  draws the uuids `refs`; `importV1 raw z` is what `Updater.Parse` does to the
  store.  Tied to the code by the correspondence run (real zip paths, real
  store calls). -/

section V1
open ClairModel.OfflineV1

/-- Both halves iterate `Updater.updaters`: pairwise different names, none with
    a '/', all from the factories — so `name/fingerprint`, `name/ref` and
    `name/data` name one updater each. -/
theorem v1_updaters_names_distinct (raw : List Upd) :
    (updaters raw).Pairwise (fun a b => a.name ≠ b.name) ∧
    ∀ u ∈ updaters raw, u ∈ raw ∧ hasSlash u.name = false :=
  ⟨updaters_distinct raw, updaters_mem raw⟩

/-- Some arrival order is always accepted (the hypotheses below are satisfiable). -/
theorem v1_export_exists (prev : Option Zip) (raw : List Upd) (refs : List Nat) :
    ∃ order z, exportV1 prev raw order refs = some z := by
  refine ⟨((updaters raw).filter (exported (prevFingerprints prev))).map (·.name), ?_⟩
  simp only [exportV1, arrangeU_self _ (List.Pairwise.filter _ (updaters_distinct raw))]
  exact ⟨_, rfl⟩

/-- Export then import loses nothing.  Whatever the arrival order of the
    workers' results and whatever uuids are drawn: importing the export makes,
    for every updater whose Fetch succeeded (and did not report "unchanged"),
    in name order, `UpdateVulnerabilities` with its name, its fingerprint, the
    ref written for it and all its vulnerabilities in order (if it parses
    vulnerabilities and has any), then `UpdateEnrichments` likewise; it makes
    no call for any other updater, and returns nil.  Hypothesis: every updater
    implements at least one of the two parser interfaces (otherwise `parseOne`
    returns "did nothing" and the import stops there). -/
theorem v1_export_import_roundtrip (prev : Option Zip) (raw : List Upd) (order : List String)
    (refs : List Nat) (z : Zip) (hex : exportV1 prev raw order refs = some z)
    (hrefs : (updaters raw).length ≤ refs.length)
    (hparse : ∀ u ∈ raw, (u.hasV || u.hasE) = true) :
    importV1 raw z =
      ((updaters raw).flatMap fun u =>
          if exported (prevFingerprints prev) u then callsFor u (refIn z u.name) else [], true) := by
  unfold exportV1 at hex
  cases ha : arrangeU ((updaters raw).filter (exported (prevFingerprints prev))) order with
  | none => simp [ha] at hex
  | some ord =>
    simp only [ha, Option.some.injEq] at hex
    subst hex
    have hperm := arrangeU_perm order _ _ (List.Pairwise.filter _ (updaters_distinct raw)) ha
    have hl : ord.length ≤ refs.length := by
      have h1 := hperm.length_eq
      have h2 := List.length_filter_le (exported (prevFingerprints prev)) (updaters raw)
      omega
    exact importList_export (prevFingerprints prev) ord refs (updaters raw) (updaters_distinct raw) hperm hl
      (updaters raw) (fun u hu => hu) (fun u hu => hparse u (updaters_mem raw u hu).1)

/-- The two calls of one updater share its ref (`callsFor` above takes one ref);
    different updaters get different refs when `uuid.New()` does not repeat. -/
theorem v1_refs_differ_between_updaters (ord : List Upd) (refs : List Nat)
    (hd : ord.Pairwise (fun a b => a.name ≠ b.name)) (hl : ord.length ≤ refs.length)
    (hr : refs.Pairwise (· ≠ ·)) (u v : Upd) (hu : u ∈ ord) (hv : v ∈ ord) (hne : u.name ≠ v.name) :
    refIn (writeAll ord refs) u.name ≠ refIn (writeAll ord refs) v.name := by
  obtain ⟨r, hr1⟩ := mem_zip_of_mem ord refs hl u hu
  obtain ⟨s, hs1⟩ := mem_zip_of_mem ord refs hl v hv
  have h1 := (lookup_writeAll ord refs hd (u, r) hr1).2.2.1
  have h2 := (lookup_writeAll ord refs hd (v, s) hs1).2.2.1
  simp only at h1 h2
  simp only [refIn, h1, h2, Option.getD_some]
  intro hrs
  subst hrs
  -- one ref, two different updaters: impossible in a zip with a duplicate-free second column
  have key : ∀ (o : List Upd) (rs : List Nat), rs.Pairwise (· ≠ ·) →
      ∀ a b : Upd, (a, r) ∈ o.zip rs → (b, r) ∈ o.zip rs → a = b := by
    intro o
    induction o with
    | nil => intro rs _ a b ha; simp at ha
    | cons x o ih =>
      intro rs hrs a b ha hb
      cases rs with
      | nil => simp at ha
      | cons t ts =>
        simp only [List.zip_cons_cons, List.mem_cons, Prod.mk.injEq] at ha hb
        have hts := List.pairwise_cons.1 hrs
        rcases ha with ⟨ha1, ha2⟩ | ha <;> rcases hb with ⟨hb1, hb2⟩ | hb
        · rw [ha1, hb1]
        · exact absurd ha2.symm (hts.1 r (List.of_mem_zip hb).2)
        · exact absurd hb2.symm (hts.1 r (List.of_mem_zip ha).2)
        · exact ih ts hts.2 a b ha hb
  exact hne (congrArg Upd.name (key ord refs hr u v hr1 hs1))

/-- Export against a previous export: an updater is written again iff its Fetch
    does not fail and the previous export holds no fingerprint for its name, an
    empty one, or one that differs from its current fingerprint. -/
theorem v1_incremental_export_leaves_out_unchanged (zprev : Zip) (u : Upd) :
    exported (prevFingerprints (some zprev)) u = true ↔
      u.fetchErr = false ∧ ((fpOf zprev u.name).getD "" = "" ∨ (fpOf zprev u.name).getD "" ≠ u.fp) := by
  simp only [exported, prevFingerprints, Bool.and_eq_true, Bool.not_eq_true', Bool.and_eq_false_iff,
    bne_eq_false_iff_eq, beq_eq_false_iff_ne]

/-- Before the `fix:` commit the previous fingerprints were keyed by `name/`
    (what `path.Split` leaves) and looked up by `name`: the lookup never hit, so
    an unchanged updater was exported again in full.  Nothing was lost by that —
    the export was a superset — but `Fetch`'s contract ("only changes since
    prev are written out") did not hold. -/
def prevFingerprintsPreFix (prev : Option Zip) (name : String) : String :=
  match prev with
  | none => ""
  | some z => (z.findSome? fun f =>
      if f.name ++ "/" == name then (match f.part with | .fingerprint fp => some fp | _ => none) else none).getD ""

theorem v1_prev_fingerprint_key_counterexample :
    let u : Upd := { name := "rhel", fp := "etag-1", vulns := [1] }
    let zprev := writeAll [u] [7]
    exported (prevFingerprintsPreFix (some zprev)) u = true ∧
    exported (prevFingerprints (some zprev)) u = false := by
  decide

/-- `Parse` accepts exactly the header `Fetch` writes. -/
theorem v1_header (h : String) : parseAccepts h = true ↔ h = "1" := by
  simp [parseAccepts]

end V1

end ClairModel.Props.C16
