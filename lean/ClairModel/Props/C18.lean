/-
  C18 — CVSS vectors score as the FIRST specifications say.
  Property theorems only; definitions and helper lemmas live in
  Model/Cvss.lean (the model of toolkit/types/cvss and updater/osv/cvss.go),
  Model/CvssSpec.lean (the published tables and equations), Proofs/Cvss*.lean.
  The model is tied to the Go code by `Gen.Cvss` (regenerated tables) and by
  the correspondence run of `./check C18`.
-/
import ClairModel.Proofs.Cvss
import ClairModel.Proofs.CvssV2

namespace ClairModel.Props.C18
open ClairModel ClairModel.Cvss ClairModel.CvssSpec ClairModel.Gen.Cvss

/-! ### exhaustive base spaces -/

/-- v3.1, all 2592 base vectors: `V3.Score` (truncating `v31Roundup`, float
    expression evaluated exactly) equals the base score of specification
    section 7.1 with the Roundup of Appendix A (round-to-nearest). -/
theorem v31_base_score_eq_spec {av ac pr ui s c i a : Nat}
    (hav : av ∈ g3 0) (hac : ac ∈ g3 1) (hpr : pr ∈ g3 2) (hui : ui ∈ g3 3)
    (hs : s ∈ g3 4) (hc : c ∈ g3 5) (hi : i ∈ g3 6) (ha : a ∈ g3 7) :
    score3 (mk3 1 av ac pr ui s c i a) = base3 1 av ac pr ui s c i a :=
  (v3_base_facts 1 (Or.inr rfl) sweep_v31 hav hac hpr hui hs hc hi ha).1

/-- v3.0, all 2592 base vectors: `V3.Score` equals the v3.0 base score
    (Roundup = smallest one-decimal number not below the argument). -/
theorem v30_base_score_eq_spec {av ac pr ui s c i a : Nat}
    (hav : av ∈ g3 0) (hac : ac ∈ g3 1) (hpr : pr ∈ g3 2) (hui : ui ∈ g3 3)
    (hs : s ∈ g3 4) (hc : c ∈ g3 5) (hi : i ∈ g3 6) (ha : a ∈ g3 7) :
    score3 (mk3 0 av ac pr ui s c i a) = base3 0 av ac pr ui s c i a :=
  (v3_base_facts 0 (Or.inl rfl) sweep_v30 hav hac hpr hui hs hc hi ha).1

/-- v2, all 729 base vectors: `V2.Score` equals the base equation of the v2
    guide (no cap on Impact; this is what the `fix:` for AV:L/AC:L/Au:N/C:C/I:C/A:C restored). -/
theorem v2_base_score_eq_spec {av ac au c i a : Nat}
    (hav : av ∈ g2 0) (hac : ac ∈ g2 1) (hau : au ∈ g2 2) (hc : c ∈ g2 3) (hi : i ∈ g2 4) (ha : a ∈ g2 5) :
    score2 (mk2 av ac au c i a) = base2 [av] [ac] [au] [c] [i] [a] :=
  (v2_base_facts hav hac hau hc hi ha).1

/-- OSV, v3.1: for every base vector, `fromCVSS3` applied to the vector the
    library prints derives exactly the severity that is the rating of the
    library's score (None→Negligible … Critical→Critical share their numbers). -/
theorem osv_severity_eq_rating_v31 {av ac pr ui s c i a : Nat}
    (hav : av ∈ g3 0) (hac : ac ∈ g3 1) (hpr : pr ∈ g3 2) (hui : ui ∈ g3 3)
    (hs : s ∈ g3 4) (hc : c ∈ g3 5) (hi : i ∈ g3 6) (ha : a ∈ g3 7) :
    ∃ k, score3 (mk3 1 av ac pr ui s c i a) = some k ∧
      osv3 (print3 (mk3 1 av ac pr ui s c i a)) = some (rating k) :=
  (v3_base_facts 1 (Or.inr rfl) sweep_v31 hav hac hpr hui hs hc hi ha).2

/-- OSV, v3.0 (the OSV scorer uses the v3.1 Roundup for both minors; the
    rating still agrees on the whole base space). -/
theorem osv_severity_eq_rating_v30 {av ac pr ui s c i a : Nat}
    (hav : av ∈ g3 0) (hac : ac ∈ g3 1) (hpr : pr ∈ g3 2) (hui : ui ∈ g3 3)
    (hs : s ∈ g3 4) (hc : c ∈ g3 5) (hi : i ∈ g3 6) (ha : a ∈ g3 7) :
    ∃ k, score3 (mk3 0 av ac pr ui s c i a) = some k ∧
      osv3 (print3 (mk3 0 av ac pr ui s c i a)) = some (rating k) :=
  (v3_base_facts 0 (Or.inl rfl) sweep_v30 hav hac hpr hui hs hc hi ha).2

/-- OSV, v2: for every base vector `fromCVSS2` derives the band that
    docs/concepts/severity_mapping.md documents for the library's score. -/
theorem osv_severity_eq_band_v2 {av ac au c i a : Nat}
    (hav : av ∈ g2 0) (hac : ac ∈ g2 1) (hau : au ∈ g2 2) (hc : c ∈ g2 3) (hi : i ∈ g2 4) (ha : a ∈ g2 5) :
    ∃ k, score2 (mk2 av ac au c i a) = some k ∧
      osv2 (print2 (mk2 av ac au c i a)) = inBands osvDocV2 k :=
  (v2_base_facts hav hac hau hc hi ha).2

end ClairModel.Props.C18
