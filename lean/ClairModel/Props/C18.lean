/-
  C18 — CVSS vectors score as the FIRST specifications say.
-/
import ClairModel.Model.Cvss

namespace ClairModel.Props.C18
open ClairModel ClairModel.Cvss ClairModel.Gen.Cvss

/-- placeholder while the harness is brought up -/
theorem rating_zero : rating 0 = 1 := by decide

end ClairModel.Props.C18
