/-
  C18 — CVSS vectors score as the FIRST specifications say.
  Property theorems only; definitions and helper lemmas live in
  Model/Cvss.lean (the model of toolkit/types/cvss and updater/osv/cvss.go),
  Model/CvssSpec.lean (the published tables and equations), Proofs/Cvss*.lean.
  The model is tied to the Go code by `Gen.Cvss` (regenerated tables) and by
  the correspondence run of `./check C18`.
-/
import ClairModel.Proofs.CvssSweep30
import ClairModel.Proofs.CvssSweep31
import ClairModel.Proofs.CvssV2
import ClairModel.Proofs.CvssRange
import ClairModel.Proofs.CvssTables
import ClairModel.Proofs.CvssPrint
import ClairModel.Proofs.CvssPrint2
import ClairModel.Proofs.CvssPrint4
import ClairModel.Proofs.CvssEnum
import ClairModel.Proofs.CvssTemporal
import ClairModel.Proofs.CvssTemporal2
import ClairModel.Proofs.CvssOsv
import ClairModel.Proofs.CvssOsv2
import ClairModel.Proofs.CvssEnv
import ClairModel.Proofs.CvssEnvSweepU
import ClairModel.Proofs.CvssEnvSweepC
import ClairModel.Proofs.CvssEnvSweepC2
import ClairModel.Proofs.CvssEnv2
import ClairModel.Proofs.CvssOsvRaw
import ClairModel.Proofs.CvssOsvRaw2
import ClairModel.Proofs.CvssV4Tab
import ClairModel.Proofs.CvssEnrich
import ClairModel.Proofs.CvssV4Mono
import ClairModel.Proofs.CvssV4Steps

-- every variable of a property statement is bound explicitly: a misspelt name is an error, not a new variable
set_option autoImplicit false

namespace ClairModel.Props.C18
open ClairModel ClairModel.Cvss ClairModel.CvssSpec ClairModel.Gen.Cvss

/-! ### exhaustive base spaces -/

/-- v3.1, all 2592 base vectors: `V3.Score` (truncating `v31Roundup`, float
    expression evaluated exactly) equals the base score of specification
    section 7.1 with the Roundup of Appendix A (round-to-nearest). -/
theorem v31_base_score_eq_spec {av ac pr ui s c i a : Nat}
    (hav : av ∈ g3 0) (hac : ac ∈ g3 1) (hpr : pr ∈ g3 2) (hui : ui ∈ g3 3)
    (hs : s ∈ g3 4) (hc : c ∈ g3 5) (hi : i ∈ g3 6) (ha : a ∈ g3 7) :
    score3 (mk3 1 av ac pr ui s c i a) = base3 1 av ac pr ui s c i a :=
  (v3_base_facts 1 (Or.inr rfl) sweep_v31 hav hac hpr hui hs hc hi ha).1

/-- v3.0, all 2592 base vectors: `V3.Score` equals the v3.0 base score
    (Roundup = smallest one-decimal number not below the argument). -/
theorem v30_base_score_eq_spec {av ac pr ui s c i a : Nat}
    (hav : av ∈ g3 0) (hac : ac ∈ g3 1) (hpr : pr ∈ g3 2) (hui : ui ∈ g3 3)
    (hs : s ∈ g3 4) (hc : c ∈ g3 5) (hi : i ∈ g3 6) (ha : a ∈ g3 7) :
    score3 (mk3 0 av ac pr ui s c i a) = base3 0 av ac pr ui s c i a :=
  (v3_base_facts 0 (Or.inl rfl) sweep_v30 hav hac hpr hui hs hc hi ha).1

/-- v2, all 729 base vectors: `V2.Score` equals the base equation of the v2
    guide (no cap on Impact; this is what the `fix:` for AV:L/AC:L/Au:N/C:C/I:C/A:C restored). -/
theorem v2_base_score_eq_spec {av ac au c i a : Nat}
    (hav : av ∈ g2 0) (hac : ac ∈ g2 1) (hau : au ∈ g2 2) (hc : c ∈ g2 3) (hi : i ∈ g2 4) (ha : a ∈ g2 5) :
    score2 (mk2 av ac au c i a) = base2 [av] [ac] [au] [c] [i] [a] :=
  (v2_base_facts hav hac hau hc hi ha).1

/-- OSV, v3.1: for every base vector, `fromCVSS3` applied to the vector the
    library prints derives exactly the severity that is the rating of the
    library's score (None→Negligible … Critical→Critical share their numbers). -/
theorem osv_severity_eq_rating_v31 {av ac pr ui s c i a : Nat}
    (hav : av ∈ g3 0) (hac : ac ∈ g3 1) (hpr : pr ∈ g3 2) (hui : ui ∈ g3 3)
    (hs : s ∈ g3 4) (hc : c ∈ g3 5) (hi : i ∈ g3 6) (ha : a ∈ g3 7) :
    ∃ k, score3 (mk3 1 av ac pr ui s c i a) = some k ∧
      osv3 (print3 (mk3 1 av ac pr ui s c i a)) = some (rating k) :=
  (v3_base_facts 1 (Or.inr rfl) sweep_v31 hav hac hpr hui hs hc hi ha).2

/-- OSV, v3.0 (the OSV scorer uses the v3.1 Roundup for both minors; the
    rating still agrees on the whole base space). -/
theorem osv_severity_eq_rating_v30 {av ac pr ui s c i a : Nat}
    (hav : av ∈ g3 0) (hac : ac ∈ g3 1) (hpr : pr ∈ g3 2) (hui : ui ∈ g3 3)
    (hs : s ∈ g3 4) (hc : c ∈ g3 5) (hi : i ∈ g3 6) (ha : a ∈ g3 7) :
    ∃ k, score3 (mk3 0 av ac pr ui s c i a) = some k ∧
      osv3 (print3 (mk3 0 av ac pr ui s c i a)) = some (rating k) :=
  (v3_base_facts 0 (Or.inl rfl) sweep_v30 hav hac hpr hui hs hc hi ha).2

/-- OSV, v2: for every base vector `fromCVSS2` derives the band that
    docs/concepts/severity_mapping.md documents for the library's score. -/
theorem osv_severity_eq_band_v2 {av ac au c i a : Nat}
    (hav : av ∈ g2 0) (hac : ac ∈ g2 1) (hau : au ∈ g2 2) (hc : c ∈ g2 3) (hi : i ∈ g2 4) (ha : a ∈ g2 5) :
    ∃ k, score2 (mk2 av ac au c i a) = some k ∧
      osv2 (print2 (mk2 av ac au c i a)) = inBands osvDocV2 k :=
  (v2_base_facts hav hac hau hc hi ha).2

/-- base × temporal, v3.1 (all 259 200 vectors): `V3.Score` equals the
    published TemporalScore = Roundup(BaseScore × E × RL × RC) over the
    published base score -/
theorem v31_temporal_score_eq_spec {av ac pr ui s c i a e rl rc : Nat}
    (hav : av ∈ g3 0) (hac : ac ∈ g3 1) (hpr : pr ∈ g3 2) (hui : ui ∈ g3 3)
    (hs : s ∈ g3 4) (hc : c ∈ g3 5) (hi : i ∈ g3 6) (ha : a ∈ g3 7)
    (he : e ∈ g3 8) (hrl : rl ∈ g3 9) (hrc : rc ∈ g3 10) :
    score3 (mk3t 1 av ac pr ui s c i a e rl rc) =
      (base3 1 av ac pr ui s c i a).bind fun b => temporal3 1 b e rl rc :=
  v3_temporal_facts 1 (Or.inr rfl) sweep_v31 temporalTable_1 hav hac hpr hui hs hc hi ha he hrl hrc

/-- base × temporal, v3.0 (exact arithmetic; the float64 evaluation deviates
    on 228 of these vectors — finding v30-float-roundup) -/
theorem v30_temporal_score_eq_spec {av ac pr ui s c i a e rl rc : Nat}
    (hav : av ∈ g3 0) (hac : ac ∈ g3 1) (hpr : pr ∈ g3 2) (hui : ui ∈ g3 3)
    (hs : s ∈ g3 4) (hc : c ∈ g3 5) (hi : i ∈ g3 6) (ha : a ∈ g3 7)
    (he : e ∈ g3 8) (hrl : rl ∈ g3 9) (hrc : rc ∈ g3 10) :
    score3 (mk3t 0 av ac pr ui s c i a e rl rc) =
      (base3 0 av ac pr ui s c i a).bind fun b => temporal3 0 b e rl rc :=
  v3_temporal_facts 0 (Or.inl rfl) sweep_v30 temporalTable_0 hav hac hpr hui hs hc hi ha he hrl hrc

/-- base × temporal, v2 (all 72 900 vectors; `e`, `rl`, `rc` are the packed
    bytes `ParseV2` stores): `V2.Score` evaluated exactly equals
    round_to_1_decimal(BaseScore × E × RL × RC) over the published base score
    (the float64 evaluation deviates on 126 of them — finding v2-float-tie) -/
theorem v2_temporal_score_eq_spec {av ac au c i a e rl rc : Nat}
    (hav : av ∈ g2 0) (hac : ac ∈ g2 1) (hau : au ∈ g2 2) (hc : c ∈ g2 3) (hi : i ∈ g2 4) (ha : a ∈ g2 5)
    (he : e ∈ pk2 6) (hrl : rl ∈ pk2 7) (hrc : rc ∈ pk2 8) :
    score2 (mk2t av ac au c i a e rl rc) =
      (base2 [av] [ac] [au] [c] [i] [a]).bind fun b =>
        temporal2 b (v2Unparse 6 e) (v2Unparse 7 rl) (v2Unparse 8 rc) :=
  v2_temporal_facts hav hac hau hc hi ha he hrl hrc

/-! ### environmental scores -/

/-- v3.0 and v3.1, every string `ParseV3` accepts that carries an
    environmental metric (any order, any subset, explicit X, with or without
    temporal metrics): `V3.Score` — the float expressions evaluated exactly,
    the code's `v30Roundup` / truncating `v31Roundup` — equals the
    EnvironmentalScore of specification section 7.3 over the Modified metrics
    (Not Defined or absent = the Base value), the requirement weights and the
    temporal weights, with the specification's Roundup (v3.1: Appendix A,
    round-to-nearest).  v3.0 is structural (the code's expression is the
    published one and its Roundup the published Roundup, only the
    representation of the exploitability differs); for v3.1 the two Roundups are
    compared on the inner argument of all 2 × 84 × 48 (Modified Scope, multiset
    of requirement×impact products, exploitability) combinations by kernel
    evaluation and on the temporal step by the 10 100-case table. -/
theorem v3_environmental_score_eq_spec {s : Bytes} {v : Vec} (h : parse3 s = some v)
    (he : v3Environmental v = true) :
    score3 v = env3 v.ver (modified3 (v.get 14) (v.get 0)) (modified3 (v.get 15) (v.get 1))
      (modified3 (v.get 16) (v.get 2)) (modified3 (v.get 17) (v.get 3)) (modified3 (v.get 18) (v.get 4))
      (modified3 (v.get 19) (v.get 5)) (modified3 (v.get 20) (v.get 6)) (modified3 (v.get 21) (v.get 7))
      (orX (v.get 11)) (orX (v.get 12)) (orX (v.get 13)) (orX (v.get 8)) (orX (v.get 9)) (orX (v.get 10)) :=
  v3_env_facts ⟨envNormOk_U, envNormOk_C, envSweep31_U, envSweep31_C1, envSweep31_C2⟩ envExplOk_U envExplOk_C
    temporalTable_1 v (parse3_sound h) he

/-- the hypotheses are satisfiable: "CVSS:3.1/AV:N/AC:L/PR:N/UI:N/S:U/C:H/I:H/A:H/CR:H" -/
example : ∃ v, parse3 [67, 86, 83, 83, 58, 51, 46, 49, 47, 65, 86, 58, 78, 47, 65, 67, 58, 76, 47, 80, 82, 58, 78,
    47, 85, 73, 58, 78, 47, 83, 58, 85, 47, 67, 58, 72, 47, 73, 58, 72, 47, 65, 58, 72, 47, 67, 82, 58, 72] = some v ∧
    v3Environmental v = true := by decide

/-- v2, every string `ParseV2` accepts that carries the environmental group:
    `V2.Score` evaluated exactly equals the EnvironmentalScore of the v2 guide
    (3.2.3: AdjustedImpact with the cap at 10, AdjustedTemporal, CDP, TD) over
    the specification's weights of the vector's values (`abbr2`: the value
    abbreviation, ND for an absent temporal metric).  The float64 evaluation
    deviates on exact rounding ties (finding v2-float-tie). -/
theorem v2_environmental_score_eq_spec {s : Bytes} {v : Vec} (h : parse2 s = some v)
    (he : v2Environmental v = true) :
    score2 v = env2 (abbr2 v 0) (abbr2 v 1) (abbr2 v 2) (abbr2 v 3) (abbr2 v 4) (abbr2 v 5) (abbr2 v 6) (abbr2 v 7)
      (abbr2 v 8) (abbr2 v 9) (abbr2 v 10) (abbr2 v 11) (abbr2 v 12) (abbr2 v 13) :=
  v2_env_facts v (parse2_sound h) he

/-- the hypotheses are satisfiable (the witness of the negative score) -/
example : ∃ v, parse2 v2NegativeWitness = some v ∧ v2Environmental v = true := by decide

/-! ### tables (re-decided against the regenerated `Gen.Cvss` on every run) -/

/-- `v3Weights`, indexed through the valid-value strings the way `V3.Score`
    does, holds the weights of specification 7.4 for every value the grammar
    admits (Modified metrics: every value but X, which the code resolves to
    the Base metric before the lookup). -/
theorem weights_match_spec_v3 : ∀ m < 22, ∀ b ∈ g3 m, (14 ≤ m → b ≠ cX) → lk3 m b = w3 m b :=
  lk3_eq_w3_all

/-- `v2Weights`, indexed by `strings.Index` of the unparsed value in the
    valid-value string, holds the weights of the v2 guide for every value of
    every metric (including the NaN-padded rows). -/
theorem weights_match_spec_v2 : ∀ m < 14, ∀ val ∈ v2GrammarValues.getD m [], lk2 m val = w2 m val :=
  lk2_eq_w2

/-- the switch tables of `fromCVSS3` / `fromCVSS2` hold the specification
    weights for the base metrics and ignore exactly the non-base metrics -/
theorem osv_tables_match_spec :
    (∀ k < 8, ∀ b ∈ g3 k, osvW3 k b = if k = 4 then some (if b = cC then 1000 else 0) else t3 k b) ∧
    (∀ k < 6, ∀ b ∈ g2 k, osvW2 k b = t2 k [b]) ∧
    osv3Ignored = v3Names.drop 8 ∧ osv2Ignored = v2Names.drop 6 :=
  ⟨osvW3_eq_t3, osvW2_eq_t2, osv3_ignored, osv2_ignored⟩

/-- the value sets of the ragel grammars (as modelled) are the valid-value
    strings of the stringer tables (v3, v4), and the packed v2 bytes unpack to
    the value that was parsed -/
theorem grammar_values_match_valid_tables :
    (∀ m < 22, (∀ b ∈ g3 m, b ∈ v3Valid.getD m []) ∧ (∀ b ∈ v3Valid.getD m [], b ∈ g3 m)) ∧
    (∀ m < 31, (∀ b ∈ v4GrammarValues.getD m [], b ∈ v4Valid.getD m []) ∧
      (∀ b ∈ v4Valid.getD m [], b ∈ v4GrammarValues.getD m [])) ∧
    (∀ m < 14, ∀ val ∈ v2GrammarValues.getD m [], v2Unparse m (v2Pack m val) = val ∧ v2Pack m val ≠ 0) :=
  ⟨grammar3_eq_valid, grammar4_eq_valid, v2_pack_unpack⟩

/-! ### ratings -/

/-- `QualitativeScore` follows the published rating scale on every score 0.0 … 10.0 -/
theorem rating_follows_published_bands : ∀ n < 101, some (rating (n : Nat)) = inBands ratingBands (n : Nat) :=
  rating_bands

/-- `QualitativeScore` for every version (v2 has no published scale; the code
    uses the v3.x / v4.0 one) and EVERY score, as score*10 — not only the 101
    one-decimal scores 0.0 … 10.0 but also what the v2 environmental equations
    can produce below 0: None exactly at 0.0, Low below 4.0 (including negative
    scores), Medium below 7.0, High below 9.0, Critical from 9.0 -/
theorem rating_thresholds_all_scores (k : Int) :
    rating k = if k = 0 then 1 else if k < 40 then 2 else if k < 70 then 3 else if k < 90 then 4 else 5 :=
  rating_all k

/-- the published bands cover 0.0 … 10.0 without overlap: every score lies in exactly one -/
theorem bands_partition :
    ∀ n : Nat, n < 101 → (ratingBands.filter fun b => decide (b.1 ≤ (n : Int) ∧ (n : Int) ≤ b.2.1)).length = 1 :=
  bands_one

/-- the severity switches of `fromCVSS3` / `fromCVSS2` are the tables of
    docs/concepts/severity_mapping.md on every one-decimal score -/
theorem osv_bands_match_documentation :
    (∀ n < 101, bandOfQ osv3Cases osv3Default (tenth (n : Nat)) = inBands osvDocV3 (n : Nat)) ∧
    (∀ n < 101, bandOfQ osv2Cases osv2Default (tenth (n : Nat)) = inBands osvDocV2 (n : Nat)) :=
  ⟨osv3_bands, osv2_bands⟩

/-! ### ranges and zero -/

/-- every score `V3.Score` returns — base, temporal or environmental, any
    metric combination — is k/10 with 0 ≤ k ≤ 100 -/
theorem v3_score_range {v : Vec} {k : Int} (h : score3 v = some k) : 0 ≤ k ∧ k ≤ 100 :=
  score3_range h

/-- every score `V4.Score` returns is k/10 with 0 ≤ k ≤ 100 -/
theorem v4_score_range (v : Vec) : 0 ≤ score4 v ∧ score4 v ≤ 100 :=
  score4_range v

/-- a v3 vector without environmental metrics whose C, I, A are None scores 0.0 -/
theorem v3_zero_of_no_impact (v : Vec) (henv : v3Environmental v = false)
    (hc : v.get 5 = cN) (hi : v.get 6 = cN) (ha : v.get 7 = cN) {k : Int} (h : score3 v = some k) : k = 0 :=
  score3_zero_of_no_impact v henv hc hi ha h

/-
  Full statement for v4 (specification 8.2): a vector whose impact metrics,
  after the Modified metrics override the Base ones, are all None scores 0.0:

      ∀ v, v4EffectiveNoImpact v = true → score4 v = 0

  The code does not satisfy it (`V4.Score` reads the Base metrics only):
-/

/-- counterexample: all Modified impact metrics N over a Base vector of all H scores 10.0 -/
theorem v4_zero_of_no_impact_counterexample :
    ∃ v, parse4 v4ModifiedWitness = some v ∧ v4EffectiveNoImpact v = true ∧ score4 v = 100 :=
  v4_witness

/-- what holds: no impact scores 0.0 when no Modified impact metric is defined
    (absent or X), i.e. when the Base metrics themselves are all None -/
theorem v4_zero_of_no_impact_partial (v : Vec) (h : v4EffectiveNoImpact v = true)
    (hm : ∀ m ∈ [20, 21, 22, 23, 24, 25], v.get m = 0 ∨ v.get m = cX) : score4 v = 0 := by
  apply score4_zero_of_no_base_impact
  simp only [v4EffectiveNoImpact, List.all_cons, List.all_nil, Bool.and_true, Bool.and_eq_true,
    decide_eq_true_eq, Nat.reduceAdd] at h
  have h20 := hm 20 (by simp)
  have h21 := hm 21 (by simp)
  have h22 := hm 22 (by simp)
  have h23 := hm 23 (by simp)
  have h24 := hm 24 (by simp)
  have h25 := hm 25 (by simp)
  simp only [h20, h21, h22, h23, h24, h25, if_true] at h
  simp [v4NoBaseImpact, h]

/-- the v2 environmental equations (published and coded alike) leave [0, 10]:
    AV:L/AC:H/Au:M/C:P/I:N/A:N/CDP:ND/TD:ND/CR:L/IR:ND/AR:ND scores −0.2 -/
theorem v2_environmental_score_negative_example : (parse2 v2NegativeWitness).bind score2 = some (-2) :=
  v2_negative

/-! ### v4: the MacroVector lookup -/

/-- Tie A, every row: the `macrovectorScore` table extracted from the current
    source is the published lookup table (section 8.3) row by row -/
theorem v4_lookup_matches_published : v4MacrovectorScore = v4LookupPublished :=
  v4_table_ok

/-- Tie A, every cell: the depth table `scoreData.eqDepth` extracted from the
    current source is the reference calculator's (maxSeverity + 1 per
    equivalence class and level; the EQ3 row is poisoned, the joint EQ3+6 row
    comes last and its inconsistent combination (2,0) is poisoned). This also
    fixes the cells of the lowest level of every class, which no score can
    observe (their maximal scoring difference is NaN, so the mean skips them):
    nothing else would notice a change there -/
theorem v4_depth_table_matches_published :
    v4EqDepth = [[some 1, some 4, some 5], [some 1, some 2], [none, none, none],
      [some 6, some 5, some 4], [some 1, some 1, some 1],
      [some 7, some 6, some 8, some 8, none, some 10]] := by decide

/-- its keys are exactly the consistent macrovectors — levels EQ1 ≤ 2, EQ2 ≤ 1,
    EQ3 ≤ 2, EQ4 ≤ 2, EQ5 ≤ 2, EQ6 ≤ 1, and EQ3 = 2 only with EQ6 = 1 (270 of
    324) — and every score is in 0.1 … 10.0 -/
theorem v4_lookup_keys_exact :
    v4MacrovectorScore.map (·.1) = v4AllKeys.filter v4KeyOk ∧
    v4MacrovectorScore.all (fun e => decide (1 ≤ e.2 ∧ e.2 ≤ 100)) = true :=
  ⟨v4_keys_exact, v4_table_range⟩

/-- `V4.macrovector()` of ANY vector (any bytes) is a consistent macrovector,
    so the map lookup in `V4.Score` never misses (the `value` it starts from is
    always a table row, never the zero value of a missing key) -/
theorem v4_macrovector_lookup_total (v : Vec) :
    v4KeyOk (v4Macro v) = true ∧ (v4MvScore (v4Macro v)).isSome = true :=
  ⟨v4Macro_keyOk v, v4_lookup_total v⟩

/-- `V4.macrovector()` is monotone in severity, for any two vectors `ParseV4`
    returns: if every metric the score depends on (AV … SA, E, CR, IR, AR, after
    the defaults of `getScore`: E Not Defined = Attacked, requirements Not
    Defined = High) is in `w` at least as severe as in `v`, and a Safety value
    of MSI / MSA does not go away, then no equivalence class of `w` is at a
    higher (less severe) level than in `v` -/
theorem v4_macrovector_levels_monotone {s t : Bytes} {v w : Vec} (hs : parse4 s = some v) (ht : parse4 t = some w)
    (hsev : ∀ m < 15, sev4 m (v4ScoreByte w m) ≤ sev4 m (v4ScoreByte v m))
    (hsafe : v4Safety v = true → v4Safety w = true) :
    ∀ i < 6, (v4Macro w).getD i 0 ≤ (v4Macro v).getD i 0 :=
  v4Macro_mono v w (valid4_eff_mem (parse4_sound hs)) (valid4_eff_mem (parse4_sound ht)) hsev hsafe

/-- and one level higher in one equivalence class never scores higher: for
    every row of the lookup table and every class whose next level gives a
    consistent macrovector, that macrovector's row exists and its score is not
    above.  (That the INTERPOLATED score of `V4.Score` never drops when a
    metric gets more severe is not proved; the harness checks it on every
    sampled vector, and it held on the complete space of 17 006 112 vectors
    when the oracle was written.) -/
theorem v4_lookup_single_step_monotone : ∀ e ∈ v4MacrovectorScore, ∀ i < 6, v4KeyOk (bump e.1 i) = true →
    ∃ s', (bump e.1 i, s') ∈ v4MacrovectorScore ∧ s' ≤ e.2 :=
  monoTails_spec _ v4_monoTails

/-! ### parsing and printing -/

/-- `ParseV3` returns exactly the valid vectors: 22 metric slots, minor 0 or
    1, every present metric holds a value of its grammar class, all eight base
    metrics present (for all strings, by induction over the metric loop) -/
theorem parse_v3_returns_exactly_valid (v : Vec) : (∃ s, parse3 s = some v) ↔ Valid3 v :=
  ⟨fun ⟨_, h⟩ => parse3_sound h, fun h => ⟨print3 v, parse3_print3 v h⟩⟩

/-- print–parse, v3: the text `V3.String` produces for a valid vector parses
    back to the same vector (this is the statement the duplicated RC group of
    the unfixed code violated) -/
theorem print_parse_v3 (v : Vec) (hv : Valid3 v) : parse3 (print3 v) = some v :=
  parse3_print3 v hv

/-- hence printing is canonical: whatever order the metrics of an accepted v3
    string came in, its printed form is a fixed point of parse-then-print -/
theorem print_canonical_v3 {s : Bytes} {v : Vec} (h : parse3 s = some v) :
    (parse3 (print3 v)).map print3 = some (print3 v) := by
  rw [parse3_print3_parse3 h]; rfl

/-- `ParseV2` returns exactly the valid vectors: six base metrics, the
    temporal and the environmental group each complete or absent, every byte
    the packed form of a value of its metric -/
theorem parse_v2_returns_exactly_valid (v : Vec) : (∃ s, parse2 s = some v) ↔ Valid2 v :=
  ⟨fun ⟨_, h⟩ => parse2_sound h, fun h => ⟨print2 v, parse2_print2 v h⟩⟩

/-- print–parse, v2 (including the ND placeholders `marshalVector` emits and
    drops for unset groups, and the packed multi-letter values) -/
theorem print_parse_v2 (v : Vec) (hv : Valid2 v) : parse2 (print2 v) = some v :=
  parse2_print2 v hv

/-- `ParseV4` returns exactly the valid vectors: eleven base metrics present,
    every present metric holds a value of its grammar class -/
theorem parse_v4_returns_exactly_valid (v : Vec) : (∃ s, parse4 s = some v) ↔ Valid4 v :=
  ⟨fun ⟨_, h⟩ => parse4_sound h, fun h => ⟨print4 v, parse4_print4 v h⟩⟩

/-- print–parse, v4 (fixed metric order, optional metrics skipped, Provider
    Urgency spelled out) -/
theorem print_parse_v4 (v : Vec) (hv : Valid4 v) : parse4 (print4 v) = some v :=
  parse4_print4 v hv

/-! ### the exhaustive theorems, for every string the parsers accept -/

/-- every v3.0 / v3.1 vector `ParseV3` accepts that carries no temporal and no
    environmental metric scores exactly the published base score, and
    `fromCVSS3` derives from its printed form the rating of that score -/
theorem v3_parsed_base_vector_facts {s : Bytes} {v : Vec} (h : parse3 s = some v)
    (ht : v3Temporal v = false) (he : v3Environmental v = false) :
    score3 v = base3 v.ver (v.get 0) (v.get 1) (v.get 2) (v.get 3) (v.get 4) (v.get 5) (v.get 6) (v.get 7) ∧
    ∃ k, score3 v = some k ∧ osv3 (print3 v) = some (rating k) := by
  have hv := parse3_sound h
  obtain ⟨e, h0, h1, h2, h3, h4, h5, h6, h7⟩ := valid3_base_only hv ht he
  have hver : v.ver = 0 ∨ v.ver = 1 := by have := hv.ver; omega
  rw [e]
  rcases hver with hz | hz <;> rw [hz]
  · exact ⟨v30_base_score_eq_spec h0 h1 h2 h3 h4 h5 h6 h7, osv_severity_eq_rating_v30 h0 h1 h2 h3 h4 h5 h6 h7⟩
  · exact ⟨v31_base_score_eq_spec h0 h1 h2 h3 h4 h5 h6 h7, osv_severity_eq_rating_v31 h0 h1 h2 h3 h4 h5 h6 h7⟩

/-- every v2 vector `ParseV2` accepts that carries only base metrics scores
    exactly the published base score, and `fromCVSS2` derives from its
    printed form the documented band of that score -/
theorem v2_parsed_base_vector_facts {s : Bytes} {v : Vec} (h : parse2 s = some v)
    (ht : v2Temporal v = false) (he : v2Environmental v = false) :
    score2 v = base2 [v.get 0] [v.get 1] [v.get 2] [v.get 3] [v.get 4] [v.get 5] ∧
    ∃ k, score2 v = some k ∧ osv2 (print2 v) = inBands osvDocV2 k := by
  obtain ⟨e, h0, h1, h2, h3, h4, h5⟩ := valid2_base_only (parse2_sound h) ht he
  rw [e]
  exact ⟨v2_base_score_eq_spec h0 h1 h2 h3 h4 h5, osv_severity_eq_band_v2 h0 h1 h2 h3 h4 h5⟩

/-- OSV severity at documented strength (docs/concepts/severity_mapping.md maps
    the *base* score): for every string `ParseV3` accepts — any metric order,
    temporal and environmental metrics, explicit X — `fromCVSS3` applied to
    the printed vector derives the rating of the score the vector library
    computes for the base part of the vector -/
theorem osv_severity_eq_base_rating_v3 {s : Bytes} {v : Vec} (h : parse3 s = some v) :
    ∃ k, score3 (baseOf3 v) = some k ∧ osv3 (print3 v) = some (rating k) := by
  have hv := parse3_sound h
  have hb := baseOf3_valid v hv
  have mem (m : Nat) (hm : m < 8) : v.get m ∈ g3 m := (hv.vals m (by omega)).resolve_left (hv.base m hm)
  have hver : v.ver = 0 ∨ v.ver = 1 := by have := hv.ver; omega
  rw [osv3_print3_base v hv]
  unfold baseOf3
  rcases hver with hz | hz <;> rw [hz]
  · exact osv_severity_eq_rating_v30 (mem 0 (by decide)) (mem 1 (by decide)) (mem 2 (by decide)) (mem 3 (by decide))
      (mem 4 (by decide)) (mem 5 (by decide)) (mem 6 (by decide)) (mem 7 (by decide))
  · exact osv_severity_eq_rating_v31 (mem 0 (by decide)) (mem 1 (by decide)) (mem 2 (by decide)) (mem 3 (by decide))
      (mem 4 (by decide)) (mem 5 (by decide)) (mem 6 (by decide)) (mem 7 (by decide))

/-- the same for v2: for every string `ParseV2` accepts, `fromCVSS2` applied to
    the printed vector derives the documented band of the score the vector
    library computes for the base part -/
theorem osv_severity_eq_base_band_v2 {s : Bytes} {v : Vec} (h : parse2 s = some v) :
    ∃ k, score2 (baseOf2 v) = some k ∧ osv2 (print2 v) = inBands osvDocV2 k := by
  have hv := parse2_sound h
  have mem (m : Nat) (hm : m < 6) : v.get m ∈ g2 m := by rw [← pk2_eq_g2 m hm]; exact hv.base m hm
  rw [osv2_print2_base v hv]
  exact osv_severity_eq_band_v2 (mem 0 (by decide)) (mem 1 (by decide)) (mem 2 (by decide)) (mem 3 (by decide))
    (mem 4 (by decide)) (mem 5 (by decide))

/-! ### the OSV scorer on the raw input string -/

/-- `fromCVSS3` applied to the INPUT string itself: for every string `ParseV3`
    accepts — metrics in any order, temporal and environmental metrics
    anywhere between them, explicit X — the string loop of `fromCVSS3`
    (TrimRight, Split, label checks, Cut, switch tables, its own arithmetic)
    derives the rating of the score the vector library computes for the base
    part of the parsed vector -/
theorem osv_severity_raw_input_v3 {s : Bytes} {v : Vec} (h : parse3 s = some v) :
    ∃ k, score3 (baseOf3 v) = some k ∧ osv3 s = some (rating k) := by
  obtain ⟨k, h1, h2⟩ := osv_severity_eq_base_rating_v3 h
  exact ⟨k, h1, by rw [osv3_raw h, ← osv3_print3_base v (parse3_sound h)]; exact h2⟩

/-- hence the OSV severity is independent of the order in which an accepted
    string lists its metrics: two accepted strings of the same vector get the
    same severity -/
theorem osv_severity_order_independent_v3 {s t : Bytes} {v : Vec} (hs : parse3 s = some v) (ht : parse3 t = some v) :
    osv3 s = osv3 t := by
  rw [osv3_raw hs, osv3_raw ht]

/-
  Full statement for the language `fromCVSS3` itself accepts (it is wider than
  `ParseV3`'s: a metric may occur twice, base metrics may be missing as long
  as there are eight pieces): "the severity does not depend on the order of
  the pieces, and an accepted string is a vector".  The code violates both:
-/

/-- counterexample: two strings with the same pieces in a different order —
    AV twice, the last occurrence wins — get Critical (9.8) and Medium (6.8);
    `ParseV3` rejects both -/
theorem osv_order_dependent_counterexample :
    (splitOn cSlash osvDupWitnessA).isPerm (splitOn cSlash osvDupWitnessB) = true ∧
    parse3 osvDupWitnessA = none ∧ parse3 osvDupWitnessB = none ∧
    osv3 osvDupWitnessA = some 5 ∧ osv3 osvDupWitnessB = some 3 := by decide +kernel

/-- counterexample: eight non-base metrics and no base metric at all are
    accepted by `fromCVSS3` and rated Negligible; `ParseV3` rejects the string -/
theorem osv_accepts_incomplete_counterexample :
    parse3 osvNoBaseWitness = none ∧ osv3 osvNoBaseWitness = some 1 := by decide +kernel

/-- `fromCVSS2` applied to the INPUT string: for every string `ParseV2`
    accepts, the documented band of the library's base score -/
theorem osv_severity_raw_input_v2 {s : Bytes} {v : Vec} (h : parse2 s = some v) :
    ∃ k, score2 (baseOf2 v) = some k ∧ osv2 s = inBands osvDocV2 k := by
  obtain ⟨k, h1, h2⟩ := osv_severity_eq_base_band_v2 h
  exact ⟨k, h1, by rw [osv2_raw h]; exact h2⟩

/-! ### enricher/cvss: what is forwarded (the package holds no vector logic) -/

section Enricher
open ClairModel.CvssEnrich

/-- every string `enricher.CVERegexp.FindAllString` reports in a text — the
    model scans leftmost, non-overlapping, the last group greedy — has the form
    `(?i:cve)[-_][0-9]{4}[-_][0-9]{4,}` -/
theorem enricher_matches_are_cve_ids (text : CvssEnrich.Bytes) : ∀ m ∈ findAll text, IsCve m :=
  findAll_sound text

/-- the query `Enrich` sends for a vulnerability holds exactly the ids found in
    its Description, Name and Links (each once: the set `t`, then `sort.Strings`) -/
theorem enricher_query_is_the_ids_of_the_texts (v : Vuln) (t : CvssEnrich.Bytes) :
    t ∈ tagsOf v ↔ ∃ txt ∈ v.texts, t ∈ findAll txt :=
  mem_tagsOf v t

/-- the key of the per-call cache (`strings.Join(ts, "_")`) determines the
    query although ids may contain the joining character: two lists of CVE ids
    with the same key are equal -/
theorem enricher_cache_key_determines_query (a b : List CvssEnrich.Bytes) (ha : ∀ t ∈ a, IsCve t)
    (hb : ∀ t ∈ b, IsCve t) (h : joinKey a = joinKey b) : a = b :=
  joinKey_inj a b ha hb h

/-- hence the cache is transparent: for any getter and any iteration order of
    the report's map, `Enrich` forwards under every vulnerability id exactly
    the blobs of the getter's answer to that vulnerability's ids — nothing for
    a vulnerability without an id or with an empty answer, an error iff a
    query fails -/
theorem enricher_forwards_the_getters_answer (g : Getter) (vs : List Vuln) :
    (enrich g vs).map (·.out) = enrichSpec g vs :=
  enrich_eq_spec g vs

/-- v3 over v2: `WriteCVSS` forwards exactly the items of a year feed that
    carry a `cvssV3` member — tag = the item's CVE id, enrichment = the member,
    unchanged — so an item with v2 metrics only is never forwarded -/
theorem enricher_feed_forwards_exactly_v3_items (items : List Item) (id raw : CvssEnrich.Bytes) :
    (id, raw) ∈ writeCVSS items ↔ ∃ it ∈ items, it.id = id ∧ it.v3 = some raw :=
  mem_writeCVSS items id raw

end Enricher

end ClairModel.Props.C18
