/-
  C19 — CPE names round-trip and compare according to the naming/matching specs.

  Property theorems only; helper lemmas live in Proofs/Cpe*.lean.  The model
  (Model/Cpe.lean) follows toolkit/types/cpe and the CPE condition of
  rhel/matcher.go; the tables it is stated over (Gen/Cpe.lean) are regenerated
  from the sources on every run; the reading of the NIST documents the
  theorems refer to is Model/CpeSpec.lean.  `./check C19` ties the model to the
  implementation line by line.
-/
import ClairModel.Proofs.Cpe
import ClairModel.Proofs.CpePattern
import ClairModel.Proofs.CpeBind
import ClairModel.Proofs.CpeGrammar
import ClairModel.Proofs.CpeClean
import ClairModel.Proofs.CpeFS
import ClairModel.Proofs.CpeAccept
import ClairModel.Proofs.CpeURI
import ClairModel.Proofs.CpeURIAsm
import ClairModel.Proofs.CpeMarshal

-- every variable of a property statement is bound explicitly: a misspelt name is an error, not a new variable
set_option autoImplicit false

namespace ClairModel.Props.C19
open ClairModel ClairModel.Cpe ClairModel.CpeTypes ClairModel.CpeSpec

/-! ## The regenerated tables -/

/-- The switch of `cpe.Compare`, extracted from match.go, is Table 6-2 of the
    matching specification: for every combination of source kind, "source has
    an unquoted wildcard", target kind, "target has an unquoted wildcard" the
    code's outcome is the specification's (a wildcard target is Invalid). -/
theorem compare_table_is_spec (sk : Kind) (sw : Bool) (tk : Kind) (tw : Bool) :
    lookupRow sk sw tk tw = some (CpeSpec.attrOut sk sw tk tw) :=
  lookupRow_eq_spec sk sw tk tw

/-- `Relation`'s zero value, which an attribute keeps when `Compare` assigns
    nothing, is `Invalid`. -/
theorem zero_relation_invalid : Gen.Cpe.zeroRelation = .invalid := by decide

/-- Every key of the `valueString` replacer (bind.go) is a backslash and one
    more byte: the shape `bindVal` models the generic replacer for. -/
theorem valueString_keys : ∀ p ∈ Gen.Cpe.valueString, p.1.length = 2 ∧ p.1.head? = some 92 := by
  decide

/-- Every key of the `valueURI` replacer (unbind.go) is one byte, or `%` and
    two more bytes, no key occurs twice and no one-byte key is `%`: the shape
    `uriDecode` models the generic replacer for. -/
theorem valueURI_keys :
    (∀ p ∈ Gen.Cpe.valueURI, (p.1.length = 1 ∧ p.1 ≠ [37]) ∨ (p.1.length = 3 ∧ p.1.head? = some 37)) ∧
      (Gen.Cpe.valueURI.map (·.1)).Nodup := by
  decide

/-- `UnbindFS` looks for the prefix `cpe:2.3:`, `UnbindURI` for `cpe:/`, a name
    has eleven attributes, the URI components are the first seven attributes
    and the packed edition holds edition, sw_edition, target_sw, target_hw, other. -/
theorem unbind_constants :
    Gen.Cpe.cpe23Prefix = fsHead ++ [58] ∧ Gen.Cpe.cpe22Prefix = [99, 112, 101, 58, 47] ∧
      Gen.Cpe.numAttr = 11 ∧ Gen.Cpe.uriAttrs = [0, 1, 2, 3, 4, 5, 6] ∧
      Gen.Cpe.uriPackedAttrs = [5, 7, 8, 9, 10] := by
  decide

/-! ## Comparison laws (all names, all values) -/

/-- Identical names are equal — for every name whose set values have no
    unquoted wildcard (the specification leaves a wildcard target undefined;
    the code answers Invalid for it). -/
theorem compare_identical_equal (w : WFN) (h : ∀ a ∈ w, ¬ wildSet a) :
    isEqual (compare w w) = true := by
  rw [compare_self]
  simp only [isEqual, List.all_map, List.all_eq_true]
  intro a ha
  simp [cmpAttr_eq_spec, specAttr_self a (h a ha)]

/-- A wildcard target is outside the law: `Compare(w, w)` is not equal then. -/
theorem compare_identical_wildcard_counterexample :
    isEqual (compare [⟨.set, [102, 111, 42]⟩] [⟨.set, [102, 111, 42]⟩]) = false := by decide

/-- ANY (or an unset attribute) is a superset of every value: it is EQUAL to
    ANY/unset and SUPERSET of NA and of every set value without wildcard. -/
theorem any_superset (s t : Value) (hs : s.kind = .any ∨ s.kind = .unset) (ht : ¬ wildSet t) :
    cmpAttr s t = if t.kind = .any ∨ t.kind = .unset then .equal else .superset := by
  rw [cmpAttr_eq_spec]; exact specAttr_any s t hs ht

/-- NA is disjoint from every set value (source NA). -/
theorem na_disjoint_set (s t : Value) (hs : s.kind = .na) (ht : t.kind = .set)
    (hw : hasWildcard t.v = false) : cmpAttr s t = .disjoint := by
  rw [cmpAttr_eq_spec]; exact specAttr_na_set s t hs ht hw

/-- NA is disjoint from every set value (target NA), with or without wildcards. -/
theorem set_disjoint_na (s t : Value) (hs : s.kind = .set) (ht : t.kind = .na) :
    cmpAttr s t = .disjoint := by
  rw [cmpAttr_eq_spec]; exact specAttr_set_na s t hs ht

/-- Comparison is case-insensitive in the source: two source values that are
    equal after ASCII case folding give the same relation against any target. -/
theorem compare_case_insensitive_source (s s' t : Value) (hk : s.kind = s'.kind)
    (hv : lower s.v = lower s'.v) : cmpAttr s t = cmpAttr s' t := by
  rw [cmpAttr_eq_spec, cmpAttr_eq_spec]; exact specAttr_fold_src s s' t hk hv

/-- Comparison is case-insensitive in the target. -/
theorem compare_case_insensitive_target (s t t' : Value) (hk : t.kind = t'.kind)
    (hv : lower t.v = lower t'.v) : cmpAttr s t = cmpAttr s t' := by
  rw [cmpAttr_eq_spec, cmpAttr_eq_spec]; exact specAttr_fold_tgt s t t' hk hv

/-- Folding the case of a value is such a change (so `Compare` may fold first). -/
theorem compare_lower (s t : Value) :
    cmpAttr ⟨s.kind, lower s.v⟩ ⟨t.kind, lower t.v⟩ = cmpAttr s t := by
  rw [compare_case_insensitive_source ⟨s.kind, lower s.v⟩ s _ rfl (lower_idem s.v),
    compare_case_insensitive_target s ⟨t.kind, lower t.v⟩ t rfl (lower_idem t.v)]

/-- Mirror image, attribute by attribute: swapping source and target of two
    wildcard-free names turns every SUPERSET into SUBSET and back and leaves
    EQUAL and DISJOINT alone. -/
theorem mirror_attributes (a b : WFN) (ha : ∀ x ∈ a, ¬ wildSet x) (hb : ∀ x ∈ b, ¬ wildSet x) :
    compare b a = (compare a b).map CpeSpec.mirror :=
  compare_mirror a b ha hb

/-- Mirror image of the verdicts: `Compare(a,b).IsSuperset() = Compare(b,a).IsSubset()`. -/
theorem mirror (a b : WFN) (ha : ∀ x ∈ a, ¬ wildSet x) (hb : ∀ x ∈ b, ¬ wildSet x) :
    isSuperset (compare a b) = isSubset (compare b a) :=
  (isSuperset_mirror a b ha hb).symm

/-- Equal is superset and subset at once; disjoint excludes all three when
    the names have at least the compared attribute. -/
theorem equal_iff_superset_and_subset (rs : List Rel) :
    isEqual rs = (isSuperset rs && isSubset rs) := by
  induction rs with
  | nil => rfl
  | cons r rs ih =>
    simp only [isEqual, isSuperset, isSubset, List.all_cons] at ih ⊢
    rw [ih]
    cases r <;> cases (rs.all fun r => r == Rel.equal || r == Rel.superset) <;>
      cases (rs.all fun r => r == Rel.equal || r == Rel.subset) <;> rfl

/-! ## Wildcard patterns -/

/-- `patCompare` is the glob semantics of the matching specification (`*` any
    sequence of characters, `?` one character or none, a quoted character `\x`
    is the one character `x` in the pattern and in the target, case-insensitive)
    for every source value string that `validate` accepts and every target
    string.  (Before /repo 41df6e98 this failed for quoted characters: a quoted
    character of the target counted as two for `?`, and a quoted `\*`/`\?` at
    the end of the pattern was stripped as a wildcard.) -/
theorem pattern_matches_spec (s t : Str) (hv : validate s = true) :
    patCompare s t = CpeSpec.globMatches s t :=
  patCompare_eq_spec s t hv

/-- The same at the level of `Compare`: a set source with a wildcard against a
    set target without one is SUPERSET exactly when the pattern matches, else
    DISJOINT. -/
theorem compare_pattern (s t : Value) (hs : s.kind = .set) (ht : t.kind = .set)
    (hsw : hasWildcard s.v = true) (htw : hasWildcard t.v = false) (hv : validate s.v = true) :
    cmpAttr s t = if CpeSpec.globMatches s.v t.v then .superset else .disjoint := by
  rw [cmpAttr_eq_spec, ← pattern_matches_spec s.v t.v hv]
  simp [specAttr, CpeSpec.attrOut, hs, ht, hsw, htw]

/-- A source that `validate` rejects is outside the theorem: in `a?*` the
    question mark is not at an end, `patCompare` takes it literally. -/
theorem pattern_invalid_source_counterexample :
    validate [97, 63, 42] = false ∧ patCompare [97, 63, 42] [97, 98] = false ∧
      CpeSpec.globMatches [97, 63, 42] [97, 98] = true := by
  decide

/-- A set source without wildcard against a set target without wildcard is
    EQUAL exactly when the two strings are equal up to ASCII case. -/
theorem compare_plain (s t : Value) (hs : s.kind = .set) (ht : t.kind = .set)
    (hsw : hasWildcard s.v = false) (htw : hasWildcard t.v = false) :
    cmpAttr s t = if lower s.v = lower t.v then .equal else .disjoint := by
  rw [cmpAttr_eq_spec]
  simp [specAttr, CpeSpec.attrOut, hs, ht, hsw, htw, equalFold]

/-- The hypotheses are satisfiable: `?oo*` against `Foobar`. -/
example : patCompare [63, 111, 111, 42] [70, 111, 111, 98, 97, 114] = true := by decide
example : validate [63, 111, 111, 42] = true := by decide

/-- The witnesses of the two defects repaired by /repo 41df6e98: `1?` matches
    `1\.` (the quoted period is one character), `*a\*` does not match `a\.b`
    (the pattern ends in a literal asterisk) and does match `xa\*`. -/
example : patCompare [49, 63] [49, 92, 46] = true := by decide
example : patCompare [42, 97, 92, 42] [97, 92, 46, 98] = false := by decide
example : patCompare [42, 97, 92, 42] [120, 97, 92, 42] = true := by decide

/-! ## Binding and unbinding -/

/-
  Full statement (false of the unchanged code, see the counterexample):
    ∀ w, valid w = ok → w.length = 11 → unbindFS (bindFS w) = some (norm w)
-/

/-- Round trip: a valid name with eleven attributes binds to a formatted string
    that unbinds to the same name — up to what the string cannot carry (`norm`:
    unset reads back as ANY) — provided no set value contains a quoted
    underscore.  (A set value with the empty string, which used to bind to an
    empty component and read back as unset, is no longer valid: /repo f1b06d69.) -/
theorem fs_roundtrip_partial (w : WFN) (hv : valid w = .ok) (hl : w.length = 11)
    (hb : ∀ a ∈ w, bindable a) : unbindFS (bindFS w) = some (norm w) :=
  unbindFS_bindFS w hv hl hb

/-- The same through `Unbind`, which dispatches on the prefix. -/
theorem unbind_roundtrip_partial (w : WFN) (hv : valid w = .ok) (hl : w.length = 11)
    (hb : ∀ a ∈ w, bindable a) : unbind (bindFS w) = some (norm w) := by
  have h := unbindFS_bindFS w hv hl hb
  cases w with
  | nil => simp at hl
  | cons a w =>
    have h22 : Gen.Cpe.cpe22Prefix.isPrefixOf (bindFS (a :: w)) = false := by
      simp [bindFS, fsHead, Gen.Cpe.cpe22Prefix, List.isPrefixOf]
    have h23 : Gen.Cpe.cpe23Prefix.isPrefixOf (bindFS (a :: w)) = true := by
      simp [bindFS, fsHead, Gen.Cpe.cpe23Prefix, List.isPrefixOf]
    simp only [unbind, h22, h23, Bool.false_eq_true, if_false, if_true]
    exact h

/-- `MarshalText` then `Unbind` (what `UnmarshalText` does for a non-empty
    text) gives the name back. -/
theorem marshal_roundtrip_partial (w : WFN) (hv : valid w = .ok) (hl : w.length = 11)
    (hb : ∀ a ∈ w, bindable a) : (marshalText w).bind unbind = some (norm w) := by
  simp only [marshalText, hv, Option.bind_some]
  exact unbind_roundtrip_partial w hv hl hb

/-- `UnmarshalText` / `Scan` of what `MarshalText` / `Value` produced, into a
    receiver `w0` that may already hold a name, replaces it by the name (same
    hypothesis as the round trip). -/
theorem marshal_unmarshal_roundtrip_partial (w0 w : WFN) (hv : valid w = .ok) (hl : w.length = 11)
    (hb : ∀ a ∈ w, bindable a) : (marshalText w).bind (unmarshalText w0) = some (norm w) :=
  unmarshal_marshal w0 w hv hl hb

/-- The zero name (every attribute unset — more generally any name `Valid`
    answers `ErrUnset` for) marshals to the empty text without error, its
    `String()` is empty; `UnmarshalText` of the empty text gives the zero name
    whatever the receiver held (/repo 498444fa), `Scan` of it leaves the
    receiver as it is (documented): a zero name written to a column and read
    back into a fresh receiver is the zero name again either way. -/
theorem marshal_zero_roundtrip (w0 w : WFN) (hv : valid w = .errUnset) :
    marshalText w = some [] ∧ wfnString w = [] ∧
      (marshalText w).bind (unmarshalText w0) = some (List.replicate 11 unsetValue) ∧
      (marshalText w).bind (scanText w0) = some w0 :=
  ⟨(marshalText_unset w hv).1, (marshalText_unset w hv).2, unmarshal_marshal_unset w0 w hv, scan_marshal_unset w0 w hv⟩

example : valid (List.replicate 11 unsetValue) = .errUnset := by decide

/-- Empty input: `UnmarshalText` gives the zero name, `Scan` leaves the receiver alone. -/
theorem unmarshal_empty (w0 : WFN) :
    unmarshalText w0 [] = some (List.replicate 11 unsetValue) ∧ scanText w0 [] = some w0 := ⟨rfl, rfl⟩

/-- On every other input `Scan` (of a string or of bytes) is `UnmarshalText`. -/
theorem scan_is_unmarshal_nonempty (w0 : WFN) (b : Str) (h : b ≠ []) : scanText w0 b = unmarshalText w0 b :=
  scanText_eq_unmarshalText w0 b h

/-- `MarshalText` / `Value` return an error exactly for the names `Valid`
    rejects with an error other than `ErrUnset`; for every other name they
    return the bound string or the empty text. -/
theorem marshal_error_iff (w : WFN) : marshalText w = none ↔ valid w = .err :=
  marshalText_none_iff w

/-- Whatever `Unbind` (so `UnmarshalText`, `Scan`, `UnbindFS`, `UnbindURI`)
    returns without an error is a valid name with eleven attributes. -/
theorem unbind_result_valid (s : Str) (w : WFN) (h : unbind s = some w) : valid w = .ok ∧ w.length = 11 :=
  unbind_valid s w h

/-- Every value string of a valid name is ASCII (below 0x7F): the byte-level,
    ASCII-folding model of `Compare` is exact on valid names. -/
theorem valid_values_ascii (w : WFN) (hv : valid w = .ok) : ∀ a ∈ w, ∀ c ∈ a.v, c < 127 :=
  valid_ascii w hv

/-- `NewValue` accepts exactly the non-empty value strings of the grammar. -/
theorem newValue_accepts_iff (v : Str) : newValueOk v = true ↔ CpeSpec.ValueGrammar v ∧ v ≠ [] := by
  simp only [newValueOk, Bool.and_eq_true, validate_iff_grammar' v, Bool.not_eq_true', List.isEmpty_eq_false_iff]

/-- What is read back is again valid, and binds to the same string (the bound
    form is a fixed point). -/
theorem norm_valid (w : WFN) (hv : valid w = .ok) (hne : w ≠ []) : valid (norm w) = .ok :=
  valid_norm w hv hne

/-- The hypothesis is satisfiable: `a:foo\.bar:*:-:…`. -/
example : unbindFS (bindFS [⟨.set, [97]⟩, ⟨.set, [102, 111, 111, 92, 46, 98, 97, 114]⟩, ⟨.any, []⟩, ⟨.na, []⟩,
    ⟨.unset, []⟩, ⟨.unset, []⟩, ⟨.unset, []⟩, ⟨.unset, []⟩, ⟨.unset, []⟩, ⟨.unset, []⟩, ⟨.unset, []⟩]) =
    some [⟨.set, [97]⟩, ⟨.set, [102, 111, 111, 92, 46, 98, 97, 114]⟩, ⟨.any, []⟩, ⟨.na, []⟩,
    ⟨.any, []⟩, ⟨.any, []⟩, ⟨.any, []⟩, ⟨.any, []⟩, ⟨.any, []⟩, ⟨.any, []⟩, ⟨.any, []⟩] := by decide

def nameWithVendor (v : Value) : WFN :=
  [⟨.set, [97]⟩, v, ⟨.any, []⟩, ⟨.any, []⟩, ⟨.any, []⟩, ⟨.any, []⟩, ⟨.any, []⟩, ⟨.any, []⟩, ⟨.any, []⟩,
    ⟨.any, []⟩, ⟨.any, []⟩]

/-- A quoted underscore does not survive: vendor `a\_b` is valid, binds to
    `a_b` and reads back as the vendor `a_b`. -/
theorem fs_roundtrip_underscore_counterexample :
    valid (nameWithVendor ⟨.set, [97, 92, 95, 98]⟩) = .ok ∧
      unbindFS (bindFS (nameWithVendor ⟨.set, [97, 92, 95, 98]⟩)) =
        some (nameWithVendor ⟨.set, [97, 95, 98]⟩) := by
  decide

/-- A set value with the empty string is not valid (/repo f1b06d69; it would
    bind to an empty component, which reads back as an unset attribute), so
    `MarshalText` refuses the name. -/
theorem empty_set_value_invalid :
    valid (nameWithVendor ⟨.set, []⟩) = .err ∧ marshalText (nameWithVendor ⟨.set, []⟩) = none ∧
      unbindFS (bindFS (nameWithVendor ⟨.set, []⟩)) = some (nameWithVendor ⟨.unset, []⟩) := by
  decide

/-- Every set value of a valid name is a non-empty string. -/
theorem valid_set_values_nonempty (w : WFN) (hv : valid w = .ok) : ∀ a ∈ w, a.kind = .set → a.v ≠ [] :=
  valid_set_ne_nil w hv

/-! ## What the unbinders accept -/

/-- `validate` accepts exactly the value strings of `CpeSpec.ValueGrammar`:
    printable ASCII without space, not the lone `*`, not the lone quoted
    hyphen, of the form  [`*` | `?`…] body [`*` | `?`…]  where the body is made
    of unquoted letters, digits, underscores and of quoted characters. -/
theorem validate_accepts_iff (s : Str) : validate s = true ↔ CpeSpec.ValueGrammar s :=
  validate_iff_grammar' s

/-- `UnbindFS` accepts exactly the strings of `AcceptedFS`: the prefix
    `cpe:2.3:`, one to eleven components separated by unquoted colons, none
    ending inside a quoting, each empty, `-`, `*` or unbinding (unquoted
    punctuation gets quoted) to a value string of the value grammar; not all
    empty; the part one of empty, `-`, `*`, `a`, `o`, `h`.  Everything else —
    in particular every string with more than eleven components — is rejected
    with an error (the model has no other outcome; that the implementation
    never panics is what the correspondence run observes). -/
theorem unbindFS_accepts_iff (s : Str) : (unbindFS s).isSome = true ↔ AcceptedFS s :=
  unbindFS_accepts_iff' s

/-- More than eleven components are rejected. -/
example : unbindFS [99, 112, 101, 58, 50, 46, 51, 58, 97, 58, 98, 58, 99, 58, 100, 58, 101, 58, 102, 58, 103, 58,
    104, 58, 105, 58, 106, 58, 107, 58, 108] = none := by decide

/-- Every formatted string of the naming specification's grammar
    (`CpeSpec.FormattedString`) is accepted by `UnbindFS`; the name it yields is
    valid and binds back to the very same string. -/
theorem spec_formatted_string_accepted (s : Str) (h : CpeSpec.FormattedString s) :
    ∃ w, unbindFS s = some w ∧ bindFS w = s ∧ valid w = .ok :=
  formattedString_accepted s h

/-- The same through `Unbind`. -/
theorem spec_formatted_string_accepted_unbind (s : Str) (h : CpeSpec.FormattedString s) :
    ∃ w, unbind s = some w ∧ bindFS w = s := by
  obtain ⟨w, hw, hb, _⟩ := formattedString_accepted s h
  obtain ⟨part, rest, _, _, _, _, hs⟩ := h
  refine ⟨w, ?_, hb⟩
  have h22 : Gen.Cpe.cpe22Prefix.isPrefixOf s = false := by
    rw [hs]; simp [Gen.Cpe.cpe22Prefix, List.isPrefixOf]
  have h23 : Gen.Cpe.cpe23Prefix.isPrefixOf s = true := by
    rw [hs]; simp [Gen.Cpe.cpe23Prefix, List.isPrefixOf]
  simp only [unbind, h22, h23, Bool.false_eq_true, if_false, if_true]
  exact hw

/-
  Full statement (false of the unchanged code): (unbindFS s).isSome ↔ FormattedString s.
  The unbinder is more lenient in six ways (and in one the grammars leave open); each is shown on a witness below
  (and replayed on the implementation by the harness as a listed finding).
-/

/-- `cpe:2.3:a:b` -/
def wFewer : Str := [99, 112, 101, 58, 50, 46, 51, 58, 97, 58, 98]
/-- `cpe:2.3:a::c:*:*:*:*:*:*:*:*` -/
def wEmpty : Str := [99, 112, 101, 58, 50, 46, 51, 58, 97, 58, 58, 99, 58, 42, 58, 42, 58, 42, 58, 42, 58, 42, 58, 42, 58, 42, 58, 42]
/-- `cpe:2.3:a:b!c:*:*:*:*:*:*:*:*:*` -/
def wUnquoted : Str := [99, 112, 101, 58, 50, 46, 51, 58, 97, 58, 98, 33, 99, 58, 42, 58, 42, 58, 42, 58, 42, 58, 42, 58, 42, 58, 42, 58, 42, 58, 42]
/-- `cpe:2.3:a:\b:*:*:*:*:*:*:*:*:*` -/
def wQuoted : Str := [99, 112, 101, 58, 50, 46, 51, 58, 97, 58, 92, 98, 58, 42, 58, 42, 58, 42, 58, 42, 58, 42, 58, 42, 58, 42, 58, 42, 58, 42]
/-- `cpe:2.3:a:**:*:*:*:*:*:*:*:*:*` -/
def wSpecial : Str := [99, 112, 101, 58, 50, 46, 51, 58, 97, 58, 42, 42, 58, 42, 58, 42, 58, 42, 58, 42, 58, 42, 58, 42, 58, 42, 58, 42, 58, 42]
/-- `cpe:2.3:a:b:c:d:e:f:notalanguage:*:*:*:*` -/
def wLang : Str := [99, 112, 101, 58, 50, 46, 51, 58, 97, 58, 98, 58, 99, 58, 100, 58, 101, 58, 102, 58, 110, 111, 116, 97, 108, 97, 110, 103, 117, 97, 103, 101, 58, 42, 58, 42, 58, 42, 58, 42]
/-- `notalanguage` -/
def wNotALang : Str := [110, 111, 116, 97, 108, 97, 110, 103, 117, 97, 103, 101]

/-- Fewer than eleven components are accepted. -/
theorem unbind_lenient_fewer_components_counterexample :
    (unbindFS wFewer).isSome = true ∧ ¬ CpeSpec.FormattedString wFewer := by
  refine ⟨by decide, fun h => ?_⟩
  obtain ⟨part, rest, hsplit, hlen, _⟩ := formattedString_comps _ h
  have : splitFS wFewer = [segCpe, seg23, [97], [98]] := by decide
  rw [this] at hsplit
  simp only [List.cons.injEq, true_and] at hsplit
  rw [← hsplit.2] at hlen
  simp at hlen

/-- An empty component is accepted (as unset). -/
theorem unbind_lenient_empty_component_counterexample :
    (unbindFS wEmpty).isSome = true ∧
      ¬ CpeSpec.FormattedString wEmpty := by
  refine ⟨by decide, fun h => ?_⟩
  obtain ⟨part, rest, hsplit, _, _, hav, _⟩ := formattedString_comps _ h
  have : splitFS wEmpty =
      [segCpe, seg23, [97], [], [99], [42], [42], [42], [42], [42], [42], [42], [42]] := by decide
  rw [this] at hsplit
  simp only [List.cons.injEq, true_and] at hsplit
  exact avString_ne_nil [] (hav [] (by rw [← hsplit.2]; simp)) rfl

/-- Unquoted punctuation is accepted (and quoted by the unbinder). -/
theorem unbind_lenient_unquoted_punctuation_counterexample :
    (unbindFS wUnquoted).isSome = true ∧
      ¬ CpeSpec.FormattedString wUnquoted := by
  refine ⟨by decide, fun h => ?_⟩
  obtain ⟨part, rest, hsplit, _, _, hav, _⟩ := formattedString_comps _ h
  have : splitFS wUnquoted =
      [segCpe, seg23, [97], [98, 33, 99], [42], [42], [42], [42], [42], [42], [42], [42], [42]] := by decide
  rw [this] at hsplit
  simp only [List.cons.injEq, true_and] at hsplit
  have := avString_strict [98, 33, 99] (hav _ (by rw [← hsplit.2]; simp))
  revert this; decide

/-- A quoted letter is accepted. -/
theorem unbind_lenient_quoted_nonpunctuation_counterexample :
    (unbindFS wQuoted).isSome = true ∧
      ¬ CpeSpec.FormattedString wQuoted := by
  refine ⟨by decide, fun h => ?_⟩
  obtain ⟨part, rest, hsplit, _, _, hav, _⟩ := formattedString_comps _ h
  have : splitFS wQuoted =
      [segCpe, seg23, [97], [92, 98], [42], [42], [42], [42], [42], [42], [42], [42], [42]] := by decide
  rw [this] at hsplit
  simp only [List.cons.injEq, true_and] at hsplit
  have := avString_strict [92, 98] (hav _ (by rw [← hsplit.2]; simp))
  revert this; decide

/-- Two asterisks in sequence are accepted as a value.  (Values made of
    question marks only, or of a `?`-run and an asterisk, are also accepted;
    whether the specification's grammar admits those is left open in
    `CpeSpec`, so only `**` is claimed as a departure.) -/
theorem unbind_lenient_double_asterisk_counterexample :
    (unbindFS wSpecial).isSome = true ∧ ¬ CpeSpec.FormattedString wSpecial := by
  refine ⟨by decide, fun h => ?_⟩
  obtain ⟨part, rest, hsplit, _, _, hav, _⟩ := formattedString_comps _ h
  have : splitFS wSpecial =
      [segCpe, seg23, [97], [42, 42], [42], [42], [42], [42], [42], [42], [42], [42], [42]] := by decide
  rw [this] at hsplit
  simp only [List.cons.injEq, true_and] at hsplit
  rcases avString_hasBody [42, 42] (hav _ (by rw [← hsplit.2]; simp)) with h1 | h1
  · cases h1
  · revert h1; decide

/-- The language component is not checked. -/
theorem unbind_lenient_language_counterexample :
    (unbindFS wLang).isSome = true ∧
      ¬ CpeSpec.FormattedString wLang := by
  refine ⟨by decide, fun h => ?_⟩
  obtain ⟨part, rest, hsplit, _, _, _, hlang⟩ := formattedString_comps _ h
  have : splitFS wLang =
      [segCpe, seg23, [97], [98], [99], [100], [101], [102], wNotALang, [42], [42], [42], [42]] := by
    decide
  rw [this] at hsplit
  simp only [List.cons.injEq, true_and] at hsplit
  have := hlang wNotALang (by rw [← hsplit.2]; rfl)
  rcases this with h1 | h1 | h1
  · revert h1; decide
  · revert h1; decide
  · revert h1; decide

/-! ## URIs -/

/-- The package has no URI binder.  Binding a value string for a URI as the
    naming specification prescribes (`CpeSpec.transformURI`: percent-encode
    what is quoted, `%01`/`%02` for the unquoted specials) and unbinding it with
    `(*Value).unbindURI` gives the same set value back, for every value string
    a URI can carry (`CpeSpec.uriValueAux`: lower case, only punctuation,
    specials, hyphen and period quoted).  `uri_roundtrip` lifts this to whole
    names. -/
theorem uri_value_roundtrip (v : Str) (h : CpeSpec.uriValueAux false v = true) (hv : v ≠ [])
    (h45 : v ≠ [92, 45]) : unbindURIAttr (CpeSpec.transformURI v) = some ⟨.set, v⟩ :=
  unbindURIAttr_transform v h hv h45

/-- The hypotheses are satisfiable: `8\.*` binds to `8.%02`. -/
example : CpeSpec.transformURI [56, 92, 46, 42] = [56, 46, 37, 48, 50] := by decide
example : unbindURIAttr [56, 46, 37, 48, 50] = some ⟨.set, [56, 92, 46, 42]⟩ := by decide

/-- An empty URI component reads as ANY and `-` as NA. -/
theorem uri_logical_values : unbindURIAttr [] = some ⟨.any, []⟩ ∧ unbindURIAttr [45] = some ⟨.na, []⟩ := by
  decide

/-- A component with a non-ASCII byte is rejected, also one that
    `strings.ToLower` would turn into ASCII (`cpe:/a:` + U+212A KELVIN SIGN was
    accepted as vendor `k` before /repo 33457076). -/
theorem uri_nonascii_rejected (s : Str) (h : ∃ c ∈ s, 127 ≤ c) : unbindURIAttr s = none := by
  obtain ⟨c, hc, h127⟩ := h
  have h0 : s ≠ [] := by intro e; rw [e] at hc; cases hc
  have h45 : s ≠ [45] := by
    intro e; rw [e] at hc; simp at hc; omega
  have hany : s.any (fun c => decide (127 ≤ c)) = true := List.any_eq_true.2 ⟨c, hc, by simpa using h127⟩
  simp [unbindURIAttr, h0, h45, hany]

example : unbindURI [99, 112, 101, 58, 47, 97, 58, 226, 132, 170] = none := by decide

/-- Upper-case letters are not preserved by a URI (the unbinder lower-cases). -/
theorem uri_uppercase_counterexample : unbindURIAttr [70, 111, 111] = some ⟨.set, [102, 111, 111]⟩ := by
  decide

/-- `UnbindURI` accepts exactly the strings of `AcceptedURI`: the prefix
    `cpe:/`, then one to seven components separated by colons (an eighth
    component is an error; components left out at the end count as empty);
    each component other than the sixth is empty (ANY), `-` (NA), or, lower-cased,
    free of the disallowed characters and decoding (`valueURI`) to a value
    string `validate` accepts; the sixth is such a component or, when it begins
    with `~`, the packed form: split at its first five tildes, every part after
    the first tilde is read like a component (the fifth part keeps any further
    tilde, quoted); the first component decodes to `a`, `o` or `h` unless it
    is empty or `-`.  Everything else is rejected with an error. -/
theorem unbindURI_accepts_iff (s : Str) : (unbindURI s).isSome = true ↔ AcceptedURI s :=
  unbindURI_accepts_iff' s

/-- An eighth component is rejected; so is a first component that is not a part. -/
example : unbindURI [99, 112, 101, 58, 47, 97, 58, 98, 58, 99, 58, 100, 58, 101, 58, 102, 58, 103, 58, 104] = none := by
  decide
example : unbindURI [99, 112, 101, 58, 47, 120, 58, 98] = none := by decide

/-- URI round trip.  The package has no URI binder; binding a valid name with
    the naming specification's `bind_to_URI` (`CpeSpec.bindURI`: the seven
    components, the edition packed with sw_edition, target_sw, target_hw and
    other when one of these is not ANY, trailing colons trimmed) and unbinding
    the result with `UnbindURI` gives the name back, up to what a URI cannot
    carry (`normURI`: unset reads as ANY among the seven components, and among
    the four extended attributes when the edition is packed; they stay unset
    otherwise) — for every name whose set values a URI can express
    (`CpeSpec.uriValueAux`: lower case; only punctuation, the special
    characters, the hyphen and the period are quoted). -/
theorem uri_roundtrip (w : WFN) (hv : valid w = .ok) (hl : w.length = 11)
    (hu : ∀ a ∈ w, a.kind = .set → CpeSpec.uriValueAux false a.v = true) :
    unbindURI (CpeSpec.bindURI (w.map fun a => (a.kind, a.v))) = some (normURI w) :=
  unbindURI_bindURI w hv hl hu

/-- The same through `Unbind`, which dispatches on the prefix. -/
theorem uri_roundtrip_unbind (w : WFN) (hv : valid w = .ok) (hl : w.length = 11)
    (hu : ∀ a ∈ w, a.kind = .set → CpeSpec.uriValueAux false a.v = true) :
    unbind (CpeSpec.bindURI (w.map fun a => (a.kind, a.v))) = some (normURI w) := by
  have h := unbindURI_bindURI w hv hl hu
  have h22 : Gen.Cpe.cpe22Prefix.isPrefixOf (CpeSpec.bindURI (w.map fun a => (a.kind, a.v))) = true := by
    simp [CpeSpec.bindURI, Gen.Cpe.cpe22Prefix, List.isPrefixOf]
  simp only [unbind, h22, if_true]
  exact h

/-- What is read back is again valid. -/
theorem normURI_valid (w : WFN) (hv : valid w = .ok) (hl : w.length = 11) : valid (normURI w) = .ok :=
  valid_normURI w hv hl

/-- The hypotheses are satisfiable, packed and not packed:
    `a:hp:insight:7\.4:-:*:*:online:win2003:x64:*` binds to
    `cpe:/a:hp:insight:7.4:-:~~online~win2003~x64~`, and `a:foo:*:1\.0` to `cpe:/a:foo::1.0`. -/
example : CpeSpec.bindURI [(.set, [97]), (.set, [104, 112]), (.set, [105, 110, 115, 105, 103, 104, 116]),
    (.set, [55, 92, 46, 52]), (.na, []), (.any, []), (.any, []), (.set, [111, 110, 108, 105, 110, 101]),
    (.set, [119, 105, 110, 50, 48, 48, 51]), (.set, [120, 54, 52]), (.any, [])] =
    [99, 112, 101, 58, 47, 97, 58, 104, 112, 58, 105, 110, 115, 105, 103, 104, 116, 58, 55, 46, 52, 58, 45, 58, 126, 126,
      111, 110, 108, 105, 110, 101, 126, 119, 105, 110, 50, 48, 48, 51, 126, 120, 54, 52, 126] := by decide
example : CpeSpec.bindURI [(.set, [97]), (.set, [102, 111, 111]), (.any, []), (.set, [49, 92, 46, 48]), (.unset, []),
    (.unset, []), (.unset, []), (.unset, []), (.unset, []), (.unset, []), (.unset, [])] =
    [99, 112, 101, 58, 47, 97, 58, 102, 111, 111, 58, 58, 49, 46, 48] := by decide

/-- A name with an upper-case letter is outside the theorem: the URI does not
    preserve case (`Foo` is read back as `foo`). -/
theorem uri_roundtrip_uppercase_counterexample :
    unbindURI (CpeSpec.bindURI [(.set, [97]), (.set, [70, 111, 111]), (.any, []), (.any, []), (.any, []), (.any, []),
      (.any, []), (.unset, []), (.unset, []), (.unset, []), (.unset, [])]) =
      some [⟨.set, [97]⟩, ⟨.set, [102, 111, 111]⟩, ⟨.any, []⟩, ⟨.any, []⟩, ⟨.any, []⟩, ⟨.any, []⟩, ⟨.any, []⟩,
        ⟨.unset, []⟩, ⟨.unset, []⟩, ⟨.unset, []⟩, ⟨.unset, []⟩] := by
  decide

/-! ## The CPE condition of rhel's matcher -/

/-- The matcher reports a package when the advisory's CPE is a superset of the
    repository's CPE. -/
theorem superset_implies_gate (vuln record : WFN) (h : isSuperset (compare vuln record) = true) :
    gate vuln record = true := by
  simp [gate, h]

/-- What a Red Hat "CPE pattern" matches through the prefix hack: an advisory
    name `P ++ T` whose attributes after `P` are all ANY (what `cpe:/a:redhat:openshift:4`
    unbinds to) matches every repository name whose bound string begins with the
    bound string of `P` — whatever the comparison says. -/
theorem prefix_pattern_matches (P T R : WFN) (hT : ∀ a ∈ T, a.kind = .any ∨ a.kind = .unset)
    (hV : valid (P ++ T) ≠ .errUnset) (hR : valid R ≠ .errUnset)
    (h : (bindFS P).isPrefixOf (bindFS R) = true) : gate (P ++ T) R = true := by
  simp [gate, substring_of_prefix P T R hT hV hR h]

/-- And exactly those, next to the supersets, when the last attribute `a` of the
    advisory name that is not ANY binds to a string not ending in `*` or `:`
    (`TrimRight(…, ":*")` stops there): `Vulnerable`'s CPE condition is
    "superset, or the advisory's bound string up to and including `a` is a
    prefix of the repository's bound string".  The prefix test is on bytes:
    it is case-sensitive, unlike the comparison, and it continues into the
    next characters of the repository's attribute (`4` matches `4.13`, `41`). -/
theorem gate_pattern_iff (P T R : WFN) (a : Value) (hT : ∀ a ∈ T, a.kind = .any ∨ a.kind = .unset)
    (ha : ∃ x y, bindValue a = x ++ [y] ∧ trimSet y = false)
    (hV : valid (P ++ a :: T) ≠ .errUnset) (hR : valid R ≠ .errUnset) :
    gate (P ++ a :: T) R = (isSuperset (compare (P ++ a :: T) R) || (bindFS (P ++ [a])).isPrefixOf (bindFS R)) := by
  simp only [gate, substring_iff_prefix P T R a hT ha hV hR]

/-- `cpe:/a:redhat:openshift:4` against the repository name
    `cpe:2.3:a:redhat:openshift:4.13:*:el8:*:*:*:*:*`: not a superset (version `4`
    is not `4\.13`), reported through the prefix; with `OpenShift` in the
    advisory it is not reported (the prefix test is case-sensitive), although
    `OpenShift` against `openshift` compares EQUAL. -/
def recOpenshift : WFN :=
  [⟨.set, [97]⟩, ⟨.set, [114, 101, 100, 104, 97, 116]⟩, ⟨.set, [111, 112, 101, 110, 115, 104, 105, 102, 116]⟩,
    ⟨.set, [52, 92, 46, 49, 51]⟩, ⟨.any, []⟩, ⟨.set, [101, 108, 56]⟩, ⟨.any, []⟩, ⟨.any, []⟩, ⟨.any, []⟩, ⟨.any, []⟩,
    ⟨.any, []⟩]

def advOpenshift (product : Str) : WFN :=
  [⟨.set, [97]⟩, ⟨.set, [114, 101, 100, 104, 97, 116]⟩, ⟨.set, product⟩, ⟨.set, [52]⟩, ⟨.any, []⟩, ⟨.any, []⟩,
    ⟨.any, []⟩, ⟨.unset, []⟩, ⟨.unset, []⟩, ⟨.unset, []⟩, ⟨.unset, []⟩]

example : unbindURI [99, 112, 101, 58, 47, 97, 58, 114, 101, 100, 104, 97, 116, 58, 111, 112, 101, 110, 115, 104, 105, 102,
    116, 58, 52] = some (advOpenshift [111, 112, 101, 110, 115, 104, 105, 102, 116]) := by decide

theorem gate_prefix_example :
    isSuperset (compare (advOpenshift [111, 112, 101, 110, 115, 104, 105, 102, 116]) recOpenshift) = false ∧
      gate (advOpenshift [111, 112, 101, 110, 115, 104, 105, 102, 116]) recOpenshift = true ∧
      gate (advOpenshift [79, 112, 101, 110, 83, 104, 105, 102, 116]) recOpenshift = false ∧
      cmpAttr ⟨.set, [79, 112, 101, 110, 83, 104, 105, 102, 116]⟩ ⟨.set, [111, 112, 101, 110, 115, 104, 105, 102, 116]⟩ = .equal := by
  decide

/-- Histories on shared values: when ONE `*Vulnerability` / `*Repository` /
    `*IndexRecord` is passed to `Vulnerable` again and again, with the
    repository name, the CPE the repository holds and the record's CPE changed
    in between (or the held CPE pre-populated with something that does not
    belong to the name), the verdict of every call is the verdict of the
    current field values — `Repo.Name`'s CPE against the record's CPE — and
    does not depend on earlier calls or on what the repository holds. -/
theorem vulnerable_history_independent (st : HSt) (ops : List VOp) :
    vRun st ops = vExpected st.name st.record ops :=
  vRun_eq_expected st ops

/-- In particular the held CPE is never read. -/
theorem vulnerable_ignores_held_cpe (name : Str) (h1 h2 record : WFN) :
    (vulnCall name h1 record).1 = (vulnCall name h2 record).1 := by
  rw [vulnCall_verdict, vulnCall_verdict]

/-- A text that `UnmarshalText` / `Scan` reject leaves the receiver untouched;
    one they accept replaces it. -/
theorem unmarshal_error_keeps_receiver (w0 : WFN) (b : Str) :
    (unmarshalText w0 b = none → intoReceiver w0 (unmarshalText w0 b) = (w0, false)) ∧
      (scanText w0 b = none → intoReceiver w0 (scanText w0 b) = (w0, false)) := by
  constructor <;> intro h <;> simp [intoReceiver, h]

/-- It reports nothing else than superset or the prefix match on the bound strings. -/
theorem gate_iff (vuln record : WFN) :
    gate vuln record = true ↔
      isSuperset (compare vuln record) = true ∨
        (trimRightColonStar (wfnString vuln)).isPrefixOf (wfnString record) = true := by
  simp [gate, substringMatch]

end ClairModel.Props.C19
