/-
  C19 — CPE names round-trip and compare according to the naming/matching specs.
  Property theorems only; helper lemmas live in Proofs/Cpe*.lean.
-/
import ClairModel.Model.Cpe

namespace ClairModel.Props.C19
open ClairModel ClairModel.Cpe ClairModel.CpeTypes

/-- placeholder while the pipeline is brought up -/
theorem table_zero : Gen.Cpe.zeroRelation = .invalid := by decide

end ClairModel.Props.C19
