/-
  C17 — Reports and model types survive serialization and reject garbage safely.
  Theorems about the hand-written codecs (Model/Codec.lean), instantiated with
  the stringer tables regenerated from severity_string.go / archop_string.go
  (Gen/Enums.lean).  The decoders of the model have no `panic` outcome; that the
  real decoders have none either is what the correspondence run checks on
  arbitrary byte strings (a Go panic is the observation `panic`, which no model
  line ever equals).
-/
import ClairModel.Proofs.Codec
import ClairModel.Gen.Enums

-- every variable of a property statement is bound explicitly: a misspelt name is an error, not a new variable
set_option autoImplicit false

namespace ClairModel.Props.C17
open ClairModel ClairModel.Bytes ClairModel.Codec
open ClairModel.Gen.Enums

/-- Shape of the regenerated Severity table the other theorems rely on:
    six members, offsets strictly increasing from 0 to the length of the name
    string (so every slice is a non-empty name). -/
theorem severity_table_shape :
    severityIndex.length = 7 ∧ severityIndex.getD 0 1 = 0 ∧
    severityIndex.getD 6 0 = severityNameBytes.length ∧ severityNameBytes.length < 256 ∧
    severityNameBytes ≠ [] ∧ severityIndex.Pairwise (· < ·) := by decide

theorem archop_table_shape :
    archOpIndex.length = 5 ∧ archOpIndex.getD 0 1 = 0 ∧
    archOpIndex.getD 4 0 = archOpNameBytes.length ∧ archOpNameBytes.length < 256 ∧
    archOpNameBytes ≠ [] ∧ archOpIndex.Pairwise (· < ·) := by decide

/-- Every Severity member's text form decodes back to the member. -/
theorem severity_roundtrip (n : Nat) (h : n + 1 < severityIndex.length) :
    ∃ t, enumMarshal severityNameBytes severityIndex n = some t ∧
         severityUnmarshal severityNameBytes severityIndex t = .ok n := by
  have hall : ∀ m ∈ List.range 6, ∃ t, enumMarshal severityNameBytes severityIndex m = some t ∧
      severityUnmarshal severityNameBytes severityIndex t = .ok m := by decide
  exact hall n (List.mem_range.2 (by have := severity_table_shape.1; omega))

/-- Every ArchOp member's text form decodes back to the member. -/
theorem archop_roundtrip (n : Nat) (h : n + 1 < archOpIndex.length) :
    ∃ t, enumMarshal archOpNameBytes archOpIndex n = some t ∧
         archOpUnmarshal archOpNameBytes archOpIndex t = .ok n := by
  have hall : ∀ m ∈ List.range 4, ∃ t, enumMarshal archOpNameBytes archOpIndex m = some t ∧
      archOpUnmarshal archOpNameBytes archOpIndex t = .ok m := by decide
  exact hall n (List.mem_range.2 (by have := archop_table_shape.1; omega))

/-- Whatever bytes are offered, `Severity.UnmarshalText` either fails or yields
    one of the six defined members — never an out-of-table value. -/
theorem severity_decode_member (text : Bytes) (n : Nat)
    (h : severityUnmarshal severityNameBytes severityIndex text = .ok n) :
    n + 1 < severityIndex.length := by
  obtain ⟨hl, _, hlast, hlen, hne, _⟩ := severity_table_shape
  unfold severityUnmarshal at h
  split at h
  · cases h
  · rename_i i hi
    split at h
    · rename_i m hm
      cases h
      exact decode_member _ _ text i n hne hlen (by rw [hl]; exact hlast) hi hm
    · cases h

/-- Whatever bytes are offered, `ArchOp.UnmarshalText` yields one of the four members. -/
theorem archop_decode_member (text : Bytes) (n : Nat)
    (h : archOpUnmarshal archOpNameBytes archOpIndex text = .ok n) :
    n + 1 < archOpIndex.length := by
  obtain ⟨hl, _, hlast, hlen, hne, _⟩ := archop_table_shape
  unfold archOpUnmarshal at h
  split at h
  · cases h; rw [hl]; omega
  · rename_i i hi
    split at h
    · rename_i m hm
      cases h
      exact decode_member _ _ text i n hne hlen (by rw [hl]; exact hlast) hi hm
    · cases h; rw [hl]; omega

/-- `Scan` of an `int64` accepts exactly the non-negative in-table values as
    themselves and rejects everything at or above the table size. -/
theorem enum_scan_int_spec (idx : List Nat) (v : Int) :
    (v ≥ (idx.length - 1 : Nat) → enumScanInt idx v = .err) ∧
    (0 ≤ v → v < (idx.length - 1 : Nat) → enumScanInt idx v = .ok v.toNat) := by
  unfold enumScanInt
  constructor
  · intro h; simp [h]
  · intro h0 h1
    have h2 : ¬ v ≥ (idx.length - 1 : Nat) := by omega
    have h3 : ¬ v < 0 := by omega
    simp [h2, h3]

/-- Version text round trip: for every kind that is non-empty and contains no
    ':' and every ten int32 slots (including the extremes), decoding the
    marshalled text into any receiver gives the value back. -/
theorem version_text_roundtrip_partial (kind : Bytes) (v : List Int) (old : Version)
    (hk : kind ≠ []) (hc : 58 ∉ kind) (hv : v.length = 10) (hold : old.v.length = 10)
    (hr : ∀ x ∈ v, inInt32 x) :
    versionUnmarshal old (versionMarshal ⟨kind, v⟩) = some ⟨kind, v⟩ := by
  have hke : kind.isEmpty = false := by cases kind <;> simp_all
  simp only [versionMarshal, hke, Bool.false_eq_true, if_false, versionUnmarshal]
  rw [cut_append 58 kind _ hc]
  simp only
  match v, hv, hr with
  | x :: xs, hv, hr =>
    have hparts : ∀ q ∈ showInt x :: xs.map showInt, 46 ∉ q := by
      intro q hq
      have : q ∈ (x :: xs).map showInt := by simpa using hq
      rcases List.mem_map.1 this with ⟨y, _, rfl⟩
      exact showInt_no 46 (by decide) (by decide) y
    rw [List.map_cons, splitOn_joinWith 46 _ _ hparts, ← List.map_cons]
    rw [fillSlots_showInt (x :: xs) old.v 0 hold (by omega) hr]
    have hlen : old.v.length ≤ 0 + (x :: xs).length := by omega
    rw [List.drop_eq_nil_of_le hlen]
    simp

/-- The repaired defect: a text with more than ten `.`-separated components is
    rejected (the old code indexed the slot array out of range and panicked). -/
theorem version_decode_rejects_eleven (old : Version) (kind rest : Bytes) (text : Bytes)
    (hcut : cut 58 text = some (kind, rest)) (hmany : (splitOn 46 rest).length > 10) :
    versionUnmarshal old text = none := by
  simp only [versionUnmarshal, hcut]
  rw [fillSlots_too_many _ _ 0 (by omega) (by omega)]

/-- A successful decode always leaves exactly the receiver's ten slots. -/
theorem version_decode_slots (old v' : Version) (text : Bytes)
    (h : versionUnmarshal old text = some v') : v'.v.length = old.v.length := by
  unfold versionUnmarshal at h
  split at h
  · cases h; rfl
  · split at h
    · cases h
    · rename_i w hw
      cases h
      exact fillSlots_length _ _ _ _ hw

/-- Full-strength round trip is false: a kind containing ':' is cut at its
    first ':' when decoding (recorded finding `version-kind-colon`). -/
theorem version_kind_colon_counterexample :
    versionUnmarshal Version.zero (versionMarshal ⟨[97, 58, 98], List.replicate 10 0⟩)
      ≠ some ⟨[97, 58, 98], List.replicate 10 0⟩ := by
  have h0 : showInt 0 = [48] := by simp [showInt, showNat]
  have hm : versionMarshal ⟨[97, 58, 98], List.replicate 10 0⟩ =
      [97, 58, 98, 58, 48, 46, 48, 46, 48, 46, 48, 46, 48, 46, 48, 46, 48, 46, 48, 46, 48, 46, 48] := by
    simp [versionMarshal, List.replicate, joinWith, h0]
  rw [hm]
  decide

/-- …and an empty kind with non-zero slots marshals to the empty text, which
    decodes to "nothing" (recorded finding `version-empty-kind`). -/
theorem version_empty_kind_counterexample :
    versionUnmarshal Version.zero (versionMarshal ⟨[], 1 :: List.replicate 9 0⟩)
      = some Version.zero := by
  simp [versionMarshal, versionUnmarshal, cut]

/-- Digest round trip: every digest a constructor can build (known algorithm,
    checksum of that algorithm's size) prints to text that parses back to it. -/
theorem digest_roundtrip (d : Digest) (hb : ∀ b ∈ d.checksum, b < 256)
    (hs : digestSize d.algo = some d.checksum.length) :
    digestParse (digestRepr d) = some d := by
  have hc : 58 ∉ d.algo := by
    unfold digestSize at hs
    split at hs
    · rename_i h; rw [h]; decide
    · split at hs
      · rename_i h; rw [h]; decide
      · cases hs
  simp only [digestParse, digestRepr, cut_append 58 d.algo _ hc, hexDecode_hexEncode _ hb, hs, if_true]

/-- The parser accepts only the two known algorithms with a checksum of exactly
    that algorithm's size, made of bytes. -/
theorem digest_accept_sound (t : Bytes) (d : Digest) (h : digestParse t = some d) :
    digestSize d.algo = some d.checksum.length ∧ (∀ b ∈ d.checksum, b < 256) := by
  unfold digestParse at h
  split at h
  · cases h
  · rename_i algo hx hcut
    split at h
    · cases h
    · rename_i b hb
      split at h
      · cases h
      · rename_i sz hsz
        split at h
        · rename_i hl
          cases h
          exact ⟨by simp [hsz, hl], hexDecode_bytes _ _ _ (Nat.le_refl _) hb⟩
        · cases h

/-- Accepted text is equivalent to its canonical form: re-printing and
    re-parsing an accepted digest is the identity (upper-case hex is normalised). -/
theorem digest_canonical (t : Bytes) (d : Digest) (h : digestParse t = some d) :
    digestParse (digestRepr d) = some d := by
  obtain ⟨hs, hb⟩ := digest_accept_sound t d h
  exact digest_roundtrip d hb hs

/-- Non-vacuity: a concrete version with extreme int32 slots meets the
    hypotheses of the round-trip theorem. -/
example : inInt32 (-2147483648) ∧ inInt32 2147483647 ∧ (58 : Nat) ∉ ([115, 101, 109] : Bytes) := by decide

end ClairModel.Props.C17
