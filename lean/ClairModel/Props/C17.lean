/-
  C17 — Reports and model types survive serialization and reject garbage safely.
  Theorems about the hand-written codecs (Model/Codec.lean), instantiated with
  the stringer tables regenerated from severity_string.go / archop_string.go
  (Gen/Enums.lean).  The decoders of the model have no `panic` outcome; that the
  real decoders have none either is what the correspondence run checks on
  arbitrary byte strings (a Go panic is the observation `panic`, which no model
  line ever equals).
-/
import ClairModel.Proofs.CodecAccept
import ClairModel.Proofs.ReportJson
import ClairModel.Proofs.Duration
import ClairModel.Gen.Enums
import ClairModel.Gen.ReportTags

-- every variable of a property statement is bound explicitly: a misspelt name is an error, not a new variable
set_option autoImplicit false

namespace ClairModel.Props.C17
open ClairModel ClairModel.Bytes ClairModel.Codec ClairModel.ReportJson
open ClairModel.Gen.Enums

/-- Shape of the regenerated Severity table the other theorems rely on:
    six members, offsets strictly increasing from 0 to the length of the name
    string (so every slice is a non-empty name). -/
theorem severity_table_shape :
    severityIndex.length = 7 ∧ severityIndex.getD 0 1 = 0 ∧
    severityIndex.getD 6 0 = severityNameBytes.length ∧ severityNameBytes.length < 256 ∧
    severityNameBytes ≠ [] ∧ severityIndex.Pairwise (· < ·) := by decide

theorem archop_table_shape :
    archOpIndex.length = 5 ∧ archOpIndex.getD 0 1 = 0 ∧
    archOpIndex.getD 4 0 = archOpNameBytes.length ∧ archOpNameBytes.length < 256 ∧
    archOpNameBytes ≠ [] ∧ archOpIndex.Pairwise (· < ·) := by decide

/-- Every Severity member's text form decodes back to the member. -/
theorem severity_roundtrip (n : Nat) (h : n + 1 < severityIndex.length) :
    ∃ t, enumMarshal severityNameBytes severityIndex n = some t ∧
         severityUnmarshal severityNameBytes severityIndex t = .ok n := by
  have hall : ∀ m ∈ List.range 6, ∃ t, enumMarshal severityNameBytes severityIndex m = some t ∧
      severityUnmarshal severityNameBytes severityIndex t = .ok m := by decide
  exact hall n (List.mem_range.2 (by have := severity_table_shape.1; omega))

/-- Every ArchOp member's text form decodes back to the member. -/
theorem archop_roundtrip (n : Nat) (h : n + 1 < archOpIndex.length) :
    ∃ t, enumMarshal archOpNameBytes archOpIndex n = some t ∧
         archOpUnmarshal archOpNameBytes archOpIndex t = .ok n := by
  have hall : ∀ m ∈ List.range 4, ∃ t, enumMarshal archOpNameBytes archOpIndex m = some t ∧
      archOpUnmarshal archOpNameBytes archOpIndex t = .ok m := by decide
  exact hall n (List.mem_range.2 (by have := archop_table_shape.1; omega))

/-- Whatever bytes are offered, `Severity.UnmarshalText` either fails or yields
    one of the six defined members — never an out-of-table value. -/
theorem severity_decode_member (text : Bytes) (n : Nat)
    (h : severityUnmarshal severityNameBytes severityIndex text = .ok n) :
    n + 1 < severityIndex.length := by
  obtain ⟨hl, _, hlast, hlen, hne, _⟩ := severity_table_shape
  unfold severityUnmarshal at h
  split at h
  · cases h
  · rename_i i hi
    split at h
    · rename_i m hm
      cases h
      exact decode_member _ _ text i n hne hlen (by rw [hl]; exact hlast) hi hm
    · cases h

/-- Whatever bytes are offered, `ArchOp.UnmarshalText` yields one of the four members. -/
theorem archop_decode_member (text : Bytes) (n : Nat)
    (h : archOpUnmarshal archOpNameBytes archOpIndex text = .ok n) :
    n + 1 < archOpIndex.length := by
  obtain ⟨hl, _, hlast, hlen, hne, _⟩ := archop_table_shape
  unfold archOpUnmarshal at h
  split at h
  · cases h; rw [hl]; omega
  · rename_i i hi
    split at h
    · rename_i m hm
      cases h
      exact decode_member _ _ text i n hne hlen (by rw [hl]; exact hlast) hi hm
    · cases h; rw [hl]; omega

/-- `Scan` of an `int64` accepts exactly the values `0 ≤ v < card`, as themselves
    (after the fix; a negative value used to wrap around `uint`). -/
theorem enum_scan_int_accepts_iff (idx : List Nat) (v : Int) (n : Nat) :
    enumScanInt idx v = .ok n ↔ 0 ≤ v ∧ v < (idx.length - 1 : Nat) ∧ n = v.toNat := by
  unfold enumScanInt
  constructor
  · intro h
    split at h
    · cases h
    · rename_i hc
      cases h
      exact ⟨by omega, by omega, rfl⟩
  · rintro ⟨h0, h1, rfl⟩
    have : ¬ (v < 0 ∨ v ≥ (idx.length - 1 : Nat)) := by omega
    simp [this]

/-- The accepted language of `Severity.UnmarshalText`: a text decodes to member
    `n` exactly when its FIRST occurrence in the name table starts at the
    offset of name `n` — i.e. it is a prefix of the table from there on and
    does not occur earlier (so every name is accepted, and so are "", "U",
    "Hi", "LowMed"; see `severity_accepts_prefixes`). -/
theorem severity_accepts_iff (text : Bytes) (n : Nat) :
    severityUnmarshal severityNameBytes severityIndex text = .ok n ↔
      n + 1 < severityIndex.length ∧ index severityNameBytes text = some (severityIndex.getD n 0) := by
  obtain ⟨hl, _, hlast, hlen, hne, _⟩ := severity_table_shape
  constructor
  · intro h
    have hm := severity_decode_member text n h
    refine ⟨hm, ?_⟩
    unfold severityUnmarshal at h
    split at h
    · cases h
    · rename_i i hi
      split at h
      · rename_i m hf
        cases h
        have hb := indexFrom_bound text severityNameBytes 0 i hi
        obtain ⟨_, _, h3⟩ := findOff_spec _ _ _ _ hf
        have hmod : i % 256 = i := Nat.mod_eq_of_lt (by omega)
        simp only [Nat.sub_zero, hmod] at h3
        rw [hi, h3]
      · cases h
  · rintro ⟨hn, hi⟩
    have hall : ∀ m ∈ List.range 6, findOff (severityIndex.getD m 0 % 256) severityIndex 0 = some m := by decide
    have := hall n (List.mem_range.2 (by omega))
    simp only [severityUnmarshal, hi, this]

/-- `ArchOp.UnmarshalText` never fails: what is not a name decodes to the invalid member 0. -/
theorem archop_never_errors (text : Bytes) : archOpUnmarshal archOpNameBytes archOpIndex text ≠ .err := by
  unfold archOpUnmarshal
  split
  · simp
  · split <;> simp

/-- The accepted language of `ArchOp.UnmarshalText`, member by member. -/
theorem archop_accepts_iff (text : Bytes) (n : Nat) (hn : 0 < n) :
    archOpUnmarshal archOpNameBytes archOpIndex text = .ok n ↔
      n + 1 < archOpIndex.length ∧ index archOpNameBytes text = some (archOpIndex.getD n 0) := by
  obtain ⟨hl, _, hlast, hlen, hne, _⟩ := archop_table_shape
  constructor
  · intro h
    have hm := archop_decode_member text n h
    refine ⟨hm, ?_⟩
    unfold archOpUnmarshal at h
    split at h
    · cases h; omega
    · rename_i i hi
      split at h
      · rename_i m hf
        cases h
        have hb := indexFrom_bound text archOpNameBytes 0 i hi
        obtain ⟨_, _, h3⟩ := findOff_spec _ _ _ _ hf
        have hmod : i % 256 = i := Nat.mod_eq_of_lt (by omega)
        simp only [Nat.sub_zero, hmod] at h3
        rw [hi, h3]
      · cases h; omega
  · rintro ⟨hn', hi⟩
    have hall : ∀ m ∈ List.range 4, findOff (archOpIndex.getD m 0 % 256) archOpIndex 0 = some m := by decide
    have := hall n (List.mem_range.2 (by omega))
    simp only [archOpUnmarshal, hi, this]

/-- The decoders are lenient, not strict: the empty text and proper prefixes of
    a name are accepted as that member ("" → Unknown, "Hi" → High). -/
theorem severity_accepts_prefixes :
    severityUnmarshal severityNameBytes severityIndex [] = .ok 0 ∧
    severityUnmarshal severityNameBytes severityIndex [72, 105] = .ok 4 := by decide

/-- The copies of the tables in toolkit/types are the same tables, so every
    theorem here holds of `types.Severity` / `types.ArchOp` too. -/
theorem toolkit_tables_equal :
    tkSeverityNameBytes = severityNameBytes ∧ tkSeverityIndex = severityIndex ∧
    tkArchOpNameBytes = archOpNameBytes ∧ tkArchOpIndex = archOpIndex := by decide

theorem packagekind_table_shape :
    packageKindIndex.length = 4 ∧ packageKindIndex.getD 0 1 = 0 ∧
    packageKindIndex.getD 3 0 = packageKindNameBytes.length ∧ packageKindNameBytes.length < 256 ∧
    packageKindNameBytes ≠ [] ∧ packageKindIndex.Pairwise (· < ·) := by decide

/-- Every `types.PackageKind` member's text form decodes back to the member
    (its decoder has the shape of ArchOp's: unknown text is member 0). -/
theorem packagekind_roundtrip (n : Nat) (h : n + 1 < packageKindIndex.length) :
    ∃ t, enumMarshal packageKindNameBytes packageKindIndex n = some t ∧
         archOpUnmarshal packageKindNameBytes packageKindIndex t = .ok n := by
  have hall : ∀ m ∈ List.range 3, ∃ t, enumMarshal packageKindNameBytes packageKindIndex m = some t ∧
      archOpUnmarshal packageKindNameBytes packageKindIndex t = .ok m := by decide
  exact hall n (List.mem_range.2 (by have := packagekind_table_shape.1; omega))

/-- Whatever bytes are offered, `PackageKind.UnmarshalText` yields one of the three members. -/
theorem packagekind_decode_member (text : Bytes) (n : Nat)
    (h : archOpUnmarshal packageKindNameBytes packageKindIndex text = .ok n) :
    n + 1 < packageKindIndex.length := by
  obtain ⟨hl, _, hlast, hlen, hne, _⟩ := packagekind_table_shape
  unfold archOpUnmarshal at h
  split at h
  · cases h; rw [hl]; omega
  · rename_i i hi
    split at h
    · rename_i m hm
      cases h
      exact decode_member _ _ text i n hne hlen (by rw [hl]; exact hlast) hi hm
    · cases h; rw [hl]; omega

/-- SQL: `Value()` of every Severity member is a string that `Scan` decodes back to it. -/
theorem severity_value_scan_roundtrip (n : Nat) (h : n + 1 < severityIndex.length) :
    ∃ src, enumValue severityNameBytes severityIndex n = some src ∧
      enumScan (severityUnmarshal severityNameBytes severityIndex) severityIndex src = .ok n := by
  obtain ⟨t, h1, h2⟩ := severity_roundtrip n h
  exact ⟨.str t, by simp [enumValue, h1], by simpa [enumScan] using h2⟩

theorem archop_value_scan_roundtrip (n : Nat) (h : n + 1 < archOpIndex.length) :
    ∃ src, enumValue archOpNameBytes archOpIndex n = some src ∧
      enumScan (archOpUnmarshal archOpNameBytes archOpIndex) archOpIndex src = .ok n := by
  obtain ⟨t, h1, h2⟩ := archop_roundtrip n h
  exact ⟨.str t, by simp [enumValue, h1], by simpa [enumScan] using h2⟩

/-- `Scan` over every kind of driver value: `string` and `[]byte` are the text
    decoder, `int64` the range check, `nil` and everything else an error — and
    whatever is accepted is a member. -/
theorem severity_scan_spec (src : Src) (n : Nat)
    (h : enumScan (severityUnmarshal severityNameBytes severityIndex) severityIndex src = .ok n) :
    n + 1 < severityIndex.length ∧ src ≠ .null ∧ src ≠ .other := by
  cases src with
  | null => simp [enumScan] at h
  | other => simp [enumScan] at h
  | str b => exact ⟨severity_decode_member b n h, by simp, by simp⟩
  | bytes b => exact ⟨severity_decode_member b n h, by simp, by simp⟩
  | int v =>
    have := (enum_scan_int_accepts_iff severityIndex v n).1 h
    have hl := severity_table_shape.1
    refine ⟨by omega, by simp, by simp⟩

theorem archop_scan_spec (src : Src) (n : Nat)
    (h : enumScan (archOpUnmarshal archOpNameBytes archOpIndex) archOpIndex src = .ok n) :
    n + 1 < archOpIndex.length ∧ src ≠ .null ∧ src ≠ .other := by
  cases src with
  | null => simp [enumScan] at h
  | other => simp [enumScan] at h
  | str b => exact ⟨archop_decode_member b n h, by simp, by simp⟩
  | bytes b => exact ⟨archop_decode_member b n h, by simp, by simp⟩
  | int v =>
    have := (enum_scan_int_accepts_iff archOpIndex v n).1 h
    have hl := archop_table_shape.1
    refine ⟨by omega, by simp, by simp⟩

/-- Version text round trip: for every kind that is non-empty and contains no
    ':' and every ten int32 slots (including the extremes), decoding the
    marshalled text into any receiver gives the value back. -/
theorem version_text_roundtrip_partial (kind : Bytes) (v : List Int) (old : Version)
    (hk : kind ≠ []) (hc : 58 ∉ kind) (hv : v.length = 10)
    (hr : ∀ x ∈ v, inInt32 x) :
    versionUnmarshal old (versionMarshal ⟨kind, v⟩) = some ⟨kind, v⟩ :=
  versionUnmarshal_marshal kind v old hk hc hv hr

/-- Receiver independence (the repaired defect): what `Version.UnmarshalText`
    leaves in its receiver — the decoded value on success, the partial value on
    an error — does not depend on what the receiver held before.  The old code
    only assigned the slots the text spells and ignored a text without ':', so
    "k:1.2.3" decoded after "k:9.9.9.9.9.9.9.9.9.9" gave 1.2.3.9.9.9.9.9.9.9 and
    the empty text (the zero Version's text form) kept the old value. -/
theorem version_unmarshal_receiver_independent (old old' : Version) (text : Bytes) :
    versionUnmarshal old text = versionUnmarshal old' text ∧
    versionUnmarshalX old text = versionUnmarshalX old' text := ⟨rfl, rfl⟩

/-- The witness of the repaired defect, in the model of the fixed code: the
    shorter text after the longer one, and the empty text after any. -/
theorem version_reused_receiver_witness :
    versionUnmarshal ⟨[107], List.replicate 10 9⟩ [107, 58, 49, 46, 50, 46, 51] =
      some ⟨[107], [1, 2, 3, 0, 0, 0, 0, 0, 0, 0]⟩ ∧
    versionUnmarshal ⟨[107], List.replicate 10 9⟩ [] = some Version.zero := by decide

/-- The repaired defect: a text with more than ten `.`-separated components is
    rejected (the old code indexed the slot array out of range and panicked). -/
theorem version_decode_rejects_eleven (old : Version) (kind rest : Bytes) (text : Bytes)
    (hcut : cut 58 text = some (kind, rest)) (hmany : (splitOn 46 rest).length > 10) :
    versionUnmarshal old text = none := by
  simp only [versionUnmarshal, hcut]
  rw [fillSlots_too_many _ _ 0 (by omega) (by omega)]

/-- A successful decode always leaves exactly ten slots. -/
theorem version_decode_slots (old v' : Version) (text : Bytes)
    (h : versionUnmarshal old text = some v') : v'.v.length = 10 := by
  unfold versionUnmarshal at h
  split at h
  · cases h; simp [Version.zero]
  · split at h
    · cases h
    · rename_i w hw
      cases h
      simpa [Version.zero] using fillSlots_length _ _ _ _ hw

/-- Full-strength round trip is false: a kind containing ':' is cut at its
    first ':' when decoding (recorded finding `version-kind-colon`). -/
theorem version_kind_colon_counterexample :
    versionUnmarshal Version.zero (versionMarshal ⟨[97, 58, 98], List.replicate 10 0⟩)
      ≠ some ⟨[97, 58, 98], List.replicate 10 0⟩ := by
  have h0 : showInt 0 = [48] := by simp [showInt, showNat]
  have hm : versionMarshal ⟨[97, 58, 98], List.replicate 10 0⟩ =
      [97, 58, 98, 58, 48, 46, 48, 46, 48, 46, 48, 46, 48, 46, 48, 46, 48, 46, 48, 46, 48, 46, 48] := by
    simp [versionMarshal, List.replicate, joinWith, h0]
  rw [hm]
  decide

/-- …and an empty kind with non-zero slots marshals to the empty text, which
    decodes to "nothing" (recorded finding `version-empty-kind`). -/
theorem version_empty_kind_counterexample :
    versionUnmarshal Version.zero (versionMarshal ⟨[], 1 :: List.replicate 9 0⟩)
      = some Version.zero := by
  simp [versionMarshal, versionUnmarshal, cut]

/-- Digest round trip: every digest a constructor can build (known algorithm,
    checksum of that algorithm's size) prints to text that parses back to it. -/
theorem digest_roundtrip (d : Digest) (hb : ∀ b ∈ d.checksum, b < 256)
    (hs : digestSize d.algo = some d.checksum.length) :
    digestParse (digestRepr d) = some d :=
  digestParse_repr d hb hs

/-- The parser accepts only the two known algorithms with a checksum of exactly
    that algorithm's size, made of bytes. -/
theorem digest_accept_sound (t : Bytes) (d : Digest) (h : digestParse t = some d) :
    digestSize d.algo = some d.checksum.length ∧ (∀ b ∈ d.checksum, b < 256) := by
  unfold digestParse at h
  split at h
  · cases h
  · rename_i algo hx hcut
    split at h
    · cases h
    · rename_i b hb
      split at h
      · cases h
      · rename_i sz hsz
        split at h
        · rename_i hl
          cases h
          exact ⟨by simp [hsz, hl], hexDecode_bytes _ _ _ (Nat.le_refl _) hb⟩
        · cases h

/-- Accepted text is equivalent to its canonical form: re-printing and
    re-parsing an accepted digest is the identity (upper-case hex is normalised). -/
theorem digest_canonical (t : Bytes) (d : Digest) (h : digestParse t = some d) :
    digestParse (digestRepr d) = some d := by
  obtain ⟨hs, hb⟩ := digest_accept_sound t d h
  exact digest_roundtrip d hb hs

/-- The accepted language of `Digest.UnmarshalText` / `ParseDigest`: exactly the
    texts `algo ":" hex` where algo is "sha256" or "sha512" and hex is the hex
    form (either case) of a checksum of that algorithm's size. -/
theorem digest_accepts_iff (t : Bytes) (d : Digest) :
    digestParse t = some d ↔
      ∃ hx, t = d.algo ++ 58 :: hx ∧ hexDecode hx = some d.checksum ∧
        digestSize d.algo = some d.checksum.length := by
  constructor
  · intro h
    unfold digestParse at h
    split at h
    · cases h
    · rename_i algo hx hcut
      split at h
      · cases h
      · rename_i b hb
        split at h
        · cases h
        · rename_i sz hsz
          split at h
          · rename_i hl
            cases h
            exact ⟨hx, cut_eq 58 t algo hx hcut, hb, by simp [hsz, hl]⟩
          · cases h
  · rintro ⟨hx, rfl, hb, hs⟩
    have hc : 58 ∉ d.algo := by
      unfold digestSize at hs
      split at hs
      · rename_i h; rw [h]; decide
      · split at hs
        · rename_i h; rw [h]; decide
        · cases hs
    simp only [digestParse, cut_append 58 d.algo _ hc, hb, hs, if_true]

/-- No partial mutation (after the fix): a text the decoder rejects leaves the
    receiver exactly as it was; a text it accepts replaces it entirely. -/
theorem digest_unmarshal_receiver (old : Option Digest) (t : Bytes) :
    (digestParse t = none → digestUnmarshal old t = (old, false)) ∧
    (∀ d, digestParse t = some d → digestUnmarshal old t = (some d, true)) := by
  unfold digestUnmarshal
  constructor
  · intro h; rw [h]
  · intro d h; rw [h]

/-- `Digest.Scan` over every kind of driver value: `nil` is accepted and gives
    the zero Digest (repaired: it used to keep the receiver); a `string` is the
    text decoder (its error is returned — repaired too); `[]byte`, `int64` and
    the rest are errors that change nothing. -/
theorem digest_scan_spec (old : Option Digest) (src : Src) :
    (src = .null → digestScan old src = (none, true)) ∧
    (∀ t, src = .str t → digestScan old src = digestUnmarshal old t) ∧
    ((∀ t, src ≠ .str t) → src ≠ .null → digestScan old src = (old, false)) := by
  cases src <;> simp [digestScan]

/-- Receiver independence of the Digest decoders: whenever the error is nil,
    what is left in the receiver does not depend on what it held before. -/
theorem digest_receiver_independent (old old' : Option Digest) (src : Src) (t : Bytes) :
    ((digestScan old src).2 = true → (digestScan old src).1 = (digestScan old' src).1 ∧ (digestScan old' src).2 = true) ∧
    ((digestUnmarshal old t).2 = true →
      (digestUnmarshal old t).1 = (digestUnmarshal old' t).1 ∧ (digestUnmarshal old' t).2 = true) := by
  constructor
  · cases src <;> simp [digestScan, digestUnmarshal]
    rename_i b
    cases digestParse b <;> simp
  · simp only [digestUnmarshal]
    cases digestParse t <;> simp

/-- SQL round trip: `Value()` of a digest a constructor can build scans back to
    it, whatever the receiver held. -/
theorem digest_value_scan_roundtrip (old : Option Digest) (d : Digest) (hb : ∀ b ∈ d.checksum, b < 256)
    (hs : digestSize d.algo = some d.checksum.length) :
    digestScan old (.str (digestText (some d))) = (some d, true) := by
  simp only [digestScan, digestUnmarshal, digestText, digest_roundtrip d hb hs]

/-- The zero Digest does not survive its own text/SQL form (recorded finding
    `digest-zero-value`): it prints as "" which the decoder rejects. -/
theorem digest_zero_value_counterexample :
    digestScan none (.str (digestText none)) = (none, false) := by decide

/-- The accepted language of `Version.UnmarshalText`: a text without ':' (which
    gives the zero Version), or `kind ":" c₀ "." … "." cₖ` with at most ten components, each
    an optionally signed decimal int32. -/
theorem version_accepts_iff (old : Version) (text : Bytes) :
    (versionUnmarshal old text).isSome = true ↔
      58 ∉ text ∨ ∃ kind rest, text = kind ++ 58 :: rest ∧ 58 ∉ kind ∧
        (splitOn 46 rest).length ≤ 10 ∧ ∀ p ∈ splitOn 46 rest, (parseInt32 p).isSome = true := by
  unfold versionUnmarshal
  cases hc : cut 58 text with
  | none =>
    simp only [Option.isSome_some, true_iff]
    exact Or.inl ((cut_none_iff 58 text).1 hc)
  | some p =>
    obtain ⟨kind, rest⟩ := p
    obtain ⟨he, hk⟩ := (cut_iff 58 text kind rest).1 hc
    have hin : 58 ∈ text := by rw [he]; simp
    have hiff := fillSlots_isSome_iff (splitOn 46 rest) Version.zero.v 0 (by omega)
    simp only [Nat.zero_add] at hiff
    simp only
    constructor
    · intro h
      refine Or.inr ⟨kind, rest, he, hk, ?_⟩
      apply hiff.1
      cases hf : fillSlots Version.zero.v (splitOn 46 rest) 0 with
      | none => rw [hf] at h; simp at h
      | some w => rfl
    · rintro (h | ⟨kind', rest', he', hk', hlen, hall⟩)
      · exact absurd hin h
      · have := (cut_iff 58 text kind' rest').2 ⟨he', hk'⟩
        rw [hc] at this
        cases this
        have := hiff.2 ⟨hlen, hall⟩
        cases hf : fillSlots Version.zero.v (splitOn 46 rest) 0 with
        | none => rw [hf] at this; simp at this
        | some w => rfl

/-- The receiver-reporting form agrees with the plain decoder: the error flag
    is "the text was accepted", and on success the receiver is the decoded value. -/
theorem version_unmarshalX_agrees (old : Version) (text : Bytes) :
    (versionUnmarshalX old text).2 = (versionUnmarshal old text).isSome ∧
    (∀ v, versionUnmarshal old text = some v → (versionUnmarshalX old text).1 = v) := by
  unfold versionUnmarshalX versionUnmarshal
  cases hc : cut 58 text with
  | none => simp
  | some p =>
    obtain ⟨kind, rest⟩ := p
    obtain ⟨h1, h2⟩ := fillSlotsX_ok (splitOn 46 rest) Version.zero.v 0
    simp only
    constructor
    · rw [h1]; cases fillSlots Version.zero.v (splitOn 46 rest) 0 <;> rfl
    · intro v hv
      cases hf : fillSlots Version.zero.v (splitOn 46 rest) 0 with
      | none => rw [hf] at hv; cases hv
      | some w => rw [hf] at hv; cases hv; rw [h2 w hf]

/-- Full strength ("a rejected text leaves the receiver unchanged") is false of
    `Version.UnmarshalText`: it resets the receiver and assigns as it goes, so
    after the error on "k:7.x" the receiver has the new kind and the first slot
    (documented behaviour, observed on the real code by the `ver-unx` lines). -/
theorem version_error_mutates_receiver_counterexample :
    versionUnmarshalX Version.zero [107, 58, 55, 46, 120] =
      (⟨[107], 7 :: List.replicate 9 0⟩, false) := by decide

/-- …but whatever happens it has its ten slots. -/
theorem version_error_keeps_slot_count (old : Version) (text : Bytes) :
    (versionUnmarshalX old text).1.v.length = 10 := by
  unfold versionUnmarshalX
  split
  · simp [Version.zero]
  · simpa [Version.zero] using fillSlotsX_length (splitOn 46 _) Version.zero.v 0

/-! ## The JSON form of the reports (Model/ReportJson.lean)

  `W` / `T` with their codecs stand for cpe.WFN (C19's codec; the wrappers of
  marshaling.go are below) and time.Time (the standard library's): every
  theorem holds for all codecs, under the hypothesis that the leaf values in
  the report survive their own text form (`LeafOK`). -/

/-- The leaf codecs of the report encoders: the given WFN and time codecs and
    the two enums over the regenerated tables. -/
def stdLeaves {W T : Type} (wfn : LeafCodec W) (time : LeafCodec T) : Leaves W T :=
  ⟨wfn, time, severityCodec severityNameBytes severityIndex, archOpCodec archOpNameBytes archOpIndex⟩

/-- Tie A: the struct fields, JSON keys, `omitempty` / `json:"-"` options and
    field types the encoders and decoders of the model are written against are
    the ones in the sources (regenerated on every run), and none of the report
    structs declares a (un)marshaler of its own. -/
theorem report_tags_match_model :
    Gen.ReportTags.tags = expectedTags ∧ Gen.ReportTags.customMarshalers = [] := ⟨rfl, rfl⟩

/-- No two fields of one struct share a JSON key, even case-insensitively
    (encoding/json silently drops fields whose keys collide). -/
theorem report_keys_distinct :
    ∀ st ∈ expectedTags, distinctFold ((st.2.filter fun f => !f.2.2.2.1).map fun f => f.2.1) = true := by
  decide

/-- Every Severity member is a leaf the JSON codec carries. -/
theorem severity_leaf_ok (n : Nat) (h : n + 1 < severityIndex.length) :
    LeafOK (severityCodec severityNameBytes severityIndex) n := by
  obtain ⟨t, h1, h2⟩ := severity_roundtrip n h
  exact ⟨t, h1, by simp [severityCodec, h2]⟩

theorem archop_leaf_ok (n : Nat) (h : n + 1 < archOpIndex.length) :
    LeafOK (archOpCodec archOpNameBytes archOpIndex) n := by
  obtain ⟨t, h1, h2⟩ := archop_roundtrip n h
  exact ⟨t, h1, by simp [archOpCodec, h2]⟩

section
variable {W T : Type} (wfn : LeafCodec W) (time : LeafCodec T)

/-- A Package — with its whole `Source` chain — decodes from its JSON form to
    itself minus the three `json:"-"` fields, when its normalized versions and
    CPEs are values their codecs carry and the chain is shorter than the
    decoder's nesting limit. -/
theorem package_json_roundtrip (p : Package W) (j : J) (hp : PackageOK (stdLeaves wfn time) p)
    (he : encPackage (stdLeaves wfn time) p = some j) :
    decPackage (stdLeaves wfn time) j = some (stripPackage p) :=
  decPackage_encPackage _ p j he hp

theorem distribution_json_roundtrip (d : Dist W) (j : J) (hd : LeafOK wfn d.cpe)
    (he : encDist (stdLeaves wfn time) d = some j) : decDist (stdLeaves wfn time) j = some d :=
  decDist_encDist _ d j he hd

/-- …including a Repository all of whose `omitempty` strings are empty. -/
theorem repository_json_roundtrip (r : Repo W) (j : J) (hr : LeafOK wfn r.cpe)
    (he : encRepo (stdLeaves wfn time) r = some j) : decRepo (stdLeaves wfn time) j = some r :=
  decRepo_encRepo _ r j he hr

/-- An Environment keeps the difference between a nil and an empty `RepositoryIDs`. -/
theorem environment_json_roundtrip (e : Env) (he : DigestOK e.introducedIn) : decEnv (encEnv e) = some e :=
  decEnv_encEnv e he

theorem range_json_roundtrip (r : Range) (hl : VersionOK r.lower) (hu : VersionOK r.upper) :
    decRange (encRange r) = some r :=
  decRange_encRange r hl hu

theorem vulnerability_json_roundtrip (v : Vuln W T) (j : J) (hv : VulnOK (stdLeaves wfn time) v)
    (he : encVuln (stdLeaves wfn time) v = some j) :
    decVuln (stdLeaves wfn time) j = some (stripVuln v) :=
  decVuln_encVuln _ rfl v j he hv

/-- An IndexReport decodes from its JSON form to itself minus what `json:"-"`
    drops (`Files`, and PackageDB / Filepath / RepositoryHint of every
    package): nil maps stay nil, empty maps stay empty, nil pointers inside
    maps and slices stay nil. -/
theorem index_report_json_roundtrip (r : IndexReport W) (j : J) (hr : IROK (stdLeaves wfn time) r)
    (he : encIR (stdLeaves wfn time) r = some j) : decIR (stdLeaves wfn time) j = some (stripIR r) :=
  decIR_encIR _ r j he hr

theorem vulnerability_report_json_roundtrip (r : VulnReport W T) (j : J) (hr : VROK (stdLeaves wfn time) r)
    (he : encVR (stdLeaves wfn time) r = some j) : decVR (stdLeaves wfn time) j = some (stripVR r) :=
  decVR_encVR _ rfl r j he hr

/-- A scan of a report that has been through JSON gives the same result as a
    scan of the original: for every scan that is a function of the index
    records (every matcher, store and enricher) and does not read the
    `json:"-"` fields, the two vulnerability reports are equal up to those
    fields — and `IndexRecords` panics on the one exactly when on the other. -/
theorem scan_invariant_under_json (core : List (Record W) → Findings W T)
    (hcore : ∀ recs, core (recs.map stripRecord) = core recs)
    (r r' : IndexReport W) (j : J) (hr : IROK (stdLeaves wfn time) r)
    (he : encIR (stdLeaves wfn time) r = some j) (hd : decIR (stdLeaves wfn time) j = some r') :
    (scan core r').map stripVR = (scan core r).map stripVR := by
  rw [index_report_json_roundtrip wfn time r j hr he] at hd
  cases hd
  exact scan_strip core hcore r

/-- The JSON form does not depend on the `json:"-"` fields (PackageDB, Filepath,
    RepositoryHint, Files): a report and its stripped form encode to the same document. -/
theorem index_report_json_ignores_hidden (r : IndexReport W) :
    encIR (stdLeaves wfn time) (stripIR r) = encIR (stdLeaves wfn time) r :=
  encIR_strip _ r

/-- Outside the statement, recorded because the harness sees it on the real
    code: a document that decodes without error can still make `IndexRecords`
    (and so a scan) dereference nil — `{"packages":{"1":null}}`. -/
theorem index_records_nil_entry_counterexample :
    ∃ r, decIR (stdLeaves wfn time) (.obj [(kPackages, .obj [([49], .null)])]) = some r ∧
      indexRecords r = none :=
  ⟨_, rfl, rfl⟩

/-- The hypothesis on the manifest digest is needed: a report with the zero
    Digest encodes (as "") but does not decode (finding `digest-zero-value`). -/
theorem index_report_zero_hash_counterexample :
    ∃ j, encIR (stdLeaves wfn time) (zeroIR : IndexReport W) = some j ∧
      decIR (stdLeaves wfn time) j = none := by
  refine ⟨_, rfl, ?_⟩
  have e1 : look (render (irBlocksOf (zeroIR : IndexReport W) .null .null .null)) kManifestHash =
      some (.str []) := by look_field
  simp [decIR, decIRObj, e1, dText, digestCodec, digestParse, cut]

end

/-- nil and empty are different documents and both survive: a nil map is
    `null` and decodes to nil, an empty map is `{}` and decodes to an empty
    non-nil map; likewise slices. -/
theorem nil_and_empty_survive {β : Type} (e : β → J) (d : J → Option β) :
    dMap d (some (eMap e none)) = some none ∧ dMap d (some (eMap e (some []))) = some (some []) ∧
    dSlice d (some (eSlice e none)) = some none ∧ dSlice d (some (eSlice e (some []))) = some (some []) :=
  ⟨rfl, rfl, rfl, rfl⟩

/-- What a `string` field accepts: nothing, `null`, or a JSON string. -/
theorem string_field_accepts_iff (o : Option J) :
    (dStr o).isSome = true ↔ o = none ∨ o = some .null ∨ ∃ s, o = some (.str s) := by
  cases o with
  | none => simp [dStr]
  | some j => cases j <;> simp [dStr]

/-- What a field of a `TextUnmarshaler` type accepts: nothing, `null`, or a
    JSON string its `UnmarshalText` accepts — never a number, bool, array or object. -/
theorem text_field_accepts_iff {α : Type} (c : LeafCodec α) (o : Option J) :
    (dText c o).isSome = true ↔
      o = none ∨ o = some .null ∨ ∃ s, o = some (.str s) ∧ (c.dec c.zero s).isSome = true := by
  cases o with
  | none => simp [dText]
  | some j => cases j <;> simp [dText]

/-- What a map field accepts: nothing, `null`, or an object all of whose values the element decoder accepts. -/
theorem map_field_accepts_iff {β : Type} (d : J → Option β) (o : Option J) :
    (dMap d o).isSome = true ↔
      o = none ∨ o = some .null ∨ ∃ kv, o = some (.obj kv) ∧ ∀ p ∈ kv, (d p.2).isSome = true := by
  cases o with
  | none => simp [dMap]
  | some j =>
    cases j with
    | obj kv =>
      simp only [dMap, Option.isSome_map, reduceCtorEq, Option.some.injEq, J.obj.injEq, exists_eq_left', false_or]
      induction kv with
      | nil => simp
      | cons a t ih =>
        simp only [List.mapM_cons, List.mem_cons, forall_eq_or_imp]
        cases hd : d a.2 with
        | none => simp
        | some v =>
          simp only [Option.map_some, Option.isSome_some, true_and]
          rw [← ih]
          cases t.mapM fun p => (d p.2).map fun v => (p.1, v) <;> simp
    | _ => simp [dMap]

/-! ## cpe.WFN: what toolkit/types/cpe/marshaling.go adds around C19's codec

  `unbind` stands for `cpe.Unbind` (C19's model in the driver); the theorems
  hold for every such function. -/

/-- The accepted language of `(*WFN).UnmarshalText`: the empty text, and whatever `Unbind` accepts. -/
theorem wfn_accepts_iff {W : Type} (unbind : Bytes → Option W) (zero old : W) (b : Bytes) :
    (wfnUnmarshalText unbind zero old b).isSome = true ↔ b = [] ∨ (unbind b).isSome = true := by
  unfold wfnUnmarshalText
  cases b with
  | nil => simp
  | cons c cs => simp

/-- Receiver independence of `(*WFN).UnmarshalText` (after the fix): the result
    does not depend on what the receiver held — in particular the empty text,
    the text form of the unset WFN, gives the unset WFN. -/
theorem wfn_unmarshal_receiver_independent {W : Type} (unbind : Bytes → Option W) (zero old old' : W) (b : Bytes) :
    wfnUnmarshalText unbind zero old b = wfnUnmarshalText unbind zero old' b ∧
    wfnUnmarshalText unbind zero old [] = some zero := ⟨rfl, rfl⟩

/-- `(*WFN).Scan` is NOT receiver independent on the empty string: it "does not
    error and leaves the WFN in its current state" (documented in
    marshaling.go; recorded finding `wfn-scan-empty-keeps-receiver`) — for every
    other accepted source it is. -/
theorem wfn_scan_empty_keeps_receiver_counterexample {W : Type} (unbind : Bytes → Option W) (old : W) :
    wfnScan unbind old (.str []) = some old ∧ wfnScan unbind old (.bytes []) = some old := by
  refine ⟨rfl, ?_⟩
  simp [wfnScan, toValidUTF8, toValidUTF8Aux, wfnScanText]

theorem wfn_scan_receiver_independent_partial {W : Type} (unbind : Bytes → Option W) (old old' : W) (src : Src)
    (h : src ≠ .str [] ∧ ∀ b, src = .bytes b → toValidUTF8 b ≠ []) :
    wfnScan unbind old src = wfnScan unbind old' src := by
  cases src with
  | str s =>
    cases s with
    | nil => exact absurd rfl h.1
    | cons c cs => rfl
  | bytes b =>
    have := h.2 b rfl
    simp only [wfnScan, wfnScanText]
    cases hb : toValidUTF8 b with
    | nil => exact absurd hb this
    | cons c cs => rfl
  | null => rfl
  | int v => rfl
  | other => rfl

/-- A non-empty text is `Unbind`'s business alone (C19 `marshal_roundtrip_partial`
    then gives the round trip of every valid, bindable name). -/
theorem wfn_nonempty_is_unbind {W : Type} (unbind : Bytes → Option W) (zero old : W) (b : Bytes) (h : b ≠ []) :
    wfnUnmarshalText unbind zero old b = unbind b := by
  unfold wfnUnmarshalText
  cases b with
  | nil => exact absurd rfl h
  | cons c cs => rfl

/-- `Scan` over every kind of driver value: `string` goes to the text body,
    `[]byte` to the text body after `strings.ToValidUTF8`, everything else
    (`nil` included) is an error. -/
theorem wfn_scan_spec {W : Type} (unbind : Bytes → Option W) (old : W) (src : Src) :
    (∀ s, src = .str s → wfnScan unbind old src = wfnScanText unbind old s) ∧
    (∀ b, src = .bytes b → wfnScan unbind old src = wfnScanText unbind old (toValidUTF8 b)) ∧
    ((∀ s, src ≠ .str s) → (∀ b, src ≠ .bytes b) → wfnScan unbind old src = none) := by
  cases src <;> simp [wfnScan]

/-- `ToValidUTF8` leaves ASCII alone, so `Scan([]byte)` and `Scan(string)` agree
    on every ASCII text — and a bound name is ASCII. -/
theorem toValidUTF8_ascii (b : Bytes) (h : ∀ c ∈ b, c < 128) : toValidUTF8 b = b := by
  unfold toValidUTF8
  have : ∀ (n : Nat) (inv : Bool) (s : Bytes), s.length ≤ n → (∀ c ∈ s, c < 128) → toValidUTF8Aux n inv s = s := by
    intro n
    induction n with
    | zero => intro inv s hl _; have : s = [] := by cases s <;> simp_all
              subst this; rfl
    | succ n ih =>
      intro inv s hl hs
      cases s with
      | nil => rfl
      | cons c r =>
        have hc : c < 128 := hs c (by simp)
        simp only [toValidUTF8Aux, utf8Width, hc, if_true, List.take_succ_cons, List.take_zero, List.drop_succ_cons,
          List.drop_zero, List.cons_append, List.nil_append]
        rw [ih false r (by simp only [List.length_cons] at hl; omega) (fun x hx => hs x (List.mem_cons_of_mem _ hx))]
  exact this b.length false b (Nat.le_refl _) h

theorem wfn_scan_bytes_ascii {W : Type} (unbind : Bytes → Option W) (old : W) (b : Bytes) (h : ∀ c ∈ b, c < 128) :
    wfnScan unbind old (.bytes b) = wfnScan unbind old (.str b) := by
  simp [wfnScan, toValidUTF8_ascii b h]

/-! ## claircore.Duration (duration.go): `time.Duration.String` / `time.ParseDuration`

  The one float64 operation of `ParseDuration` (`f * (unit / scale)`) is the
  parameter `fm`; `ExactFrac fm` says it is exact whenever the scale divides
  the unit, which is the only case `String` produces (and what IEEE doubles do
  for these magnitudes — compared on the real code by the `dur-un` lines). -/

/-- Every Duration — every int64, MinInt64 and MaxInt64 included — survives
    its text form: `UnmarshalText(MarshalText(d)) == d`. -/
theorem duration_text_roundtrip (fm : Nat → Nat → Nat → Nat) (hfm : Duration.ExactFrac fm) (d : Int)
    (hlo : -9223372036854775808 ≤ d) (hhi : d < 9223372036854775808) :
    Duration.parseDuration fm (Duration.durationString d) = some d :=
  Duration.parseDuration_durationString fm hfm d hlo hhi

/-- The exact rational computation is such an `fm`. -/
theorem duration_exact_frac : Duration.ExactFrac Duration.fracMulExact := fun _ _ _ _ => rfl

/-- Whatever text `ParseDuration` accepts, the value is an int64. -/
theorem duration_decode_range (fm : Nat → Nat → Nat → Nat) (s : Bytes) (d : Int)
    (h : Duration.parseDuration fm s = some d) : -9223372036854775808 ≤ d ∧ d < 9223372036854775808 :=
  Duration.parseDuration_range fm s d h

/-- No partial mutation: a rejected text leaves the receiver as it was. -/
theorem duration_unmarshal_receiver (fm : Nat → Nat → Nat → Nat) (old : Int) (t : Bytes) :
    (Duration.parseDuration fm t = none → Duration.durationUnmarshal fm old t = (old, false)) ∧
    (∀ d, Duration.parseDuration fm t = some d → Duration.durationUnmarshal fm old t = (d, true)) := by
  unfold Duration.durationUnmarshal
  constructor
  · intro h; rw [h]
  · intro d h; rw [h]

/-- The decoder is not strict: the sum of the groups is kept in a uint64 whose
    wrap-around the standard library does not notice, so
    "9223372036854775808ns9223372036854775808ns" (2^63 ns twice) is accepted — as 0. -/
theorem duration_group_sum_wraps_counterexample :
    Duration.parseDuration Duration.fracMulExact
      (showNat 9223372036854775808 ++ [110, 115] ++ showNat 9223372036854775808 ++ [110, 115]) = some 0 := by
  have h : showNat 9223372036854775808 =
      [57, 50, 50, 51, 51, 55, 50, 48, 51, 54, 56, 53, 52, 55, 55, 53, 56, 48, 56] := by
    simp [showNat]
  rw [h]
  decide

/-- Non-vacuity: a concrete version with extreme int32 slots meets the
    hypotheses of the round-trip theorem. -/
example : inInt32 (-2147483648) ∧ inInt32 2147483647 ∧ (58 : Nat) ∉ ([115, 101, 109] : Bytes) := by decide

end ClairModel.Props.C17
