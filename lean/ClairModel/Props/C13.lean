/-
  C13 — An update run stores each updater's parse result exactly once.
  (placeholder while the pipeline is brought up; theorems follow)
-/
import ClairModel.Model.Manager

namespace ClairModel.Props.C13
open ClairModel ClairModel.Manager

/-- A disabled event leaves the machine where it was. -/
theorem ret_needs_drained (env : Env) (s : State) (r : Nat) (h : (s.run r).pc ≠ .drained) :
    step env s (.ret r) = (s, .bad) := by
  cases hp : (s.run r).pc <;> simp_all [step]

end ClairModel.Props.C13
