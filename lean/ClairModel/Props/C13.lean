/-
  C13 — An update run stores each updater's parse result exactly once.

  Property theorems only; the machine is Model/Manager.lean (Manager.Run and
  Manager.driveUpdater of libvuln/updates/manager.go over the lock machine of
  C20), the invariants are in Proofs/Manager.lean and Proofs/ManagerObs.lean.
  Which updaters a run contains (UpdaterSet, registry, options, NewManager) is
  Model/ManagerSetup.lean; Manager.Start is the layer Model/ManagerStart.lean.  Every theorem about
  `reach env hist evs` holds for EVERY event sequence `evs` — every schedule of
  any number of concurrent runs sharing one lock source and one store, every
  cancellation moment, every fault script in `env`, every prior history
  `hist` — because events the code cannot perform in a state leave the state
  unchanged.  The machine is tied to the Go code by the trace correspondence
  of `./check C13`: every hook point, lock operation, store call and updater
  call of the real manager is one event, answered identically by the machine.
-/
import ClairModel.Proofs.ManagerObs
import ClairModel.Proofs.ManagerSetup
import ClairModel.Proofs.ManagerStart

-- every variable of a property statement is bound explicitly: a misspelt name is an error, not a new variable
set_option autoImplicit false

namespace ClairModel.Props.C13
open ClairModel ClairModel.Manager

/-- The state after the events `evs`, starting with the store history `hist`. -/
abbrev reach (env : Env) (hist : List Op) (evs : List Ev) : State :=
  Sm.run (step env) (init hist) evs

/-! ### driveUpdater on its own -/

/-- driveUpdater stores **iff** GetUpdateOperations, Fetch (not Unchanged),
    Parse and the store call all succeeded; the call then carries the
    fingerprint Fetch returned and the parser's complete result. -/
theorem drive_stores_iff (u : Upd) (prev : Fp) (d0 d1 d2 d3 : Bool) (c : Call) :
    (drive u prev d0 d1 d2 d3).1 = .stored c ↔
      u.getOk d0 = true ∧ ∃ fp p, u.fetch prev d1 = (.ok, fp) ∧ u.parse d2 = some p ∧
        u.storeOk d3 = true ∧ c = mkCall u fp p := by
  unfold drive
  cases h0 : u.getOk d0
  · simp
  · simp only [if_true, true_and]
    rcases hf : u.fetch prev d1 with ⟨res, fp⟩
    cases res
    · cases hp : u.parse d2 with
      | none => simp
      | some p =>
        cases h3 : u.storeOk d3
        · simp
        · simp only [if_true, Res.stored.injEq]
          constructor
          · intro h; exact ⟨fp, p, rfl, rfl, trivial, h.symm⟩
          · rintro ⟨fp', p', h1, h2, _, h4⟩
            cases h1; cases h2; exact h4.symm
    · simp
    · simp

/-- The stored call is made under the updater's own name, with the new
    fingerprint, by the method of the updater's kind, and with everything the
    parser returned (for a delta updater: vulnerabilities and deletions). -/
theorem stored_call_complete (u : Upd) (fp : Fp) (p : Payload) :
    (mkCall u fp p).name = u.name ∧ (mkCall u fp p).fp = fp ∧
    (mkCall u fp p).toOp = ⟨u.name, u.kind.uo, fp⟩ ∧
    (u.kind = .plain → mkCall u fp p = .vulns u.name fp p.vulns) ∧
    (u.kind = .delta → mkCall u fp p = .delta u.name fp p.vulns p.deleted) ∧
    (u.kind = .enrich → mkCall u fp p = .enrich u.name fp p.vulns) := by
  refine ⟨mkCall_name u fp p, mkCall_fp u fp p, mkCall_toOp u fp p, ?_, ?_, ?_⟩ <;>
    intro hk <;> simp [mkCall, hk]

/-- An unchanged source is not an error and stores nothing. -/
theorem drive_unchanged (u : Upd) (prev fp : Fp) (d0 d1 d2 d3 : Bool) (h0 : u.getOk d0 = true)
    (hf : u.fetch prev d1 = (.unchanged, fp)) :
    drive u prev d0 d1 d2 d3 = (.unchanged, fp) ∧ Res.failed .unchanged = false := by
  simp [drive, h0, hf, Res.failed]

/-- driveUpdater returns an error exactly when one of its steps failed. -/
theorem drive_failed_iff (u : Upd) (prev : Fp) (d0 d1 d2 d3 : Bool) :
    (drive u prev d0 d1 d2 d3).1.failed = true ↔
      u.getOk d0 = false ∨ (u.fetch prev d1).1 = .err ∨
      ((u.fetch prev d1).1 = .ok ∧ (u.parse d2 = none ∨ u.storeOk d3 = false)) := by
  unfold drive
  cases h0 : u.getOk d0
  · simp [Res.failed]
  · simp only [if_true]
    rcases hf : u.fetch prev d1 with ⟨res, fp⟩
    cases res
    · cases hp : u.parse d2 with
      | none => simp [Res.failed]
      | some p => cases h3 : u.storeOk d3 <;> simp [Res.failed]
    · simp [Res.failed]
    · simp [Res.failed]

/-! ### every worker of every run, under every schedule -/

/-- What a finished worker did is an instance of the sequential driveUpdater
    of its own updater: its outcome depends on that updater's script, the
    fingerprint it read and the cancellation of its own context — on no other
    updater. -/
theorem worker_result_is_drive (env : Env) (hist : List Op) (evs : List Ev) (r i : Nat) (res : Res)
    (h : (reach env hist evs).pc r i = .finished (some res)) :
    ∃ prev d0 d1 d2 d3, (drive (env.upd i) prev d0 d1 d2 d3).1 = res := by
  have := (inv_run env hist evs).d.expl r i
  rw [h] at this
  exact this

/-- Exactly once: a worker makes at most one successful store call; it makes
    one iff its driveUpdater ended in `stored c`, and that call is `c`;
    a failed, unchanged or skipped worker stored nothing. -/
theorem stores_exactly_once (env : Env) (hist : List Op) (evs : List Ev) (r i : Nat) :
    (callsOf (reach env hist evs) r i).length ≤ 1 ∧
    (∀ c, (reach env hist evs).pc r i = .finished (some (.stored c)) → callsOf (reach env hist evs) r i = [c]) ∧
    (∀ res, (reach env hist evs).pc r i = .finished (some res) → (∀ c, res ≠ .stored c) →
        callsOf (reach env hist evs) r i = []) ∧
    ((reach env hist evs).pc r i = .finished none → callsOf (reach env hist evs) r i = []) ∧
    ((reach env hist evs).pc r i = .idle → callsOf (reach env hist evs) r i = []) := by
  have hc := (inv_run env hist evs).d.calls r i
  refine ⟨?_, ?_, ?_, ?_, ?_⟩
  · rw [hc]
    generalize (reach env hist evs).pc r i = p
    cases p with
    | finishing g fp res => cases res <;> simp [pcCalls]
    | recorded g res => cases res <;> simp [pcCalls]
    | finished res =>
      cases res with
      | none => simp [pcCalls]
      | some res => cases res <;> simp [pcCalls]
    | _ => simp [pcCalls]
  · intro c h; rw [hc, h]; rfl
  · intro res h hne; rw [hc, h]
    cases res with
    | stored c => exact absurd rfl (hne c)
    | _ => rfl
  · intro h; rw [hc, h]; rfl
  · intro h; rw [hc, h]; rfl

/-- The stored call of a worker is its updater's: own name, the fingerprint
    its Fetch returned with a changed source, the complete result of its
    parser. -/
theorem stored_call_is_own (env : Env) (hist : List Op) (evs : List Ev) (r i : Nat) (c : Call)
    (h : (reach env hist evs).pc r i = .finished (some (.stored c))) :
    ∃ prev d1 d2 fp p, (env.upd i).fetch prev d1 = (.ok, fp) ∧ (env.upd i).parse d2 = some p ∧
      c = mkCall (env.upd i) fp p ∧ c.name = (env.upd i).name ∧ c.fp = fp := by
  obtain ⟨prev, d0, d1, d2, d3, hd⟩ := worker_result_is_drive env hist evs r i _ h
  obtain ⟨_, fp, p, hf, hp, _, hc⟩ := (drive_stores_iff _ _ _ _ _ _ _).1 hd
  exact ⟨prev, d1, d2, fp, p, hf, hp, hc, by rw [hc, mkCall_name], by rw [hc, mkCall_fp]⟩

/-- The store holds exactly the operations of the successful calls on top of
    the prior history: nothing else is ever written by a run. -/
theorem store_is_history_plus_calls (env : Env) (hist : List Op) (evs : List Ev) :
    (reach env hist evs).ops = (reach env hist evs).calls.map (fun c => c.call.toOp) ++ hist :=
  (inv_run env hist evs).d.ops

/-! ### the fingerprint handed to Fetch -/

/-- `latestFp` is the fingerprint of the newest operation of that updater and
    kind, whatever else the history contains; the empty fingerprint if there
    is none. -/
theorem latestFp_spec (uo : UoKind) (name : Nat) :
    (∀ ops : List Op, (∀ o ∈ ops, ¬(o.name = name ∧ o.uo = uo)) → latestFp ops uo name = 0) ∧
    (∀ (pre post : List Op) (o : Op), (∀ x ∈ pre, ¬(x.name = name ∧ x.uo = uo)) → o.name = name → o.uo = uo →
        latestFp (pre ++ o :: post) uo name = o.fp) := by
  constructor
  · intro ops h
    have : ops.find? (fun o => o.name == name && o.uo == uo) = none := by
      apply List.find?_eq_none.2
      intro o ho; simpa using h o ho
    simp [latestFp, this]
  · intro pre post o hpre hn hu
    induction pre with
    | nil => simp [latestFp, hn, hu]
    | cons x xs ih =>
      have hx := hpre x List.mem_cons_self
      have : (x.name == name && x.uo == uo) = false := by
        cases h1 : (x.name == name) <;> cases h2 : (x.uo == uo) <;> simp_all
      have ih' := ih (fun y hy => hpre y (List.mem_cons_of_mem _ hy))
      simp only [latestFp, List.cons_append, List.find?_cons, this] at ih' ⊢
      exact ih'

/-- Every updater is fetched with the fingerprint of its latest stored
    operation **at the moment of the fetch** — for any prior history and any
    interleaving with other workers and runs: between reading the fingerprint
    and fetching, no operation of that name can be stored (mutual exclusion). -/
theorem fetch_gets_latest_fp (env : Env) (hist : List Op) (evs : List Ev) (r i g : Nat) (prev : Fp)
    (hgc : i ≠ env.gcInst) (h : (reach env hist evs).pc r i = .gotOps g prev) :
    prev = latestFp (reach env hist evs).ops (env.upd i).kind.uo (env.upd i).name ∧
    ∃ res fp cl, (step env (reach env hist evs) (.fetch r i)).2 =
      .fetch ((env.upd i).kind == .enrich)
        (latestFp (reach env hist evs).ops (env.upd i).kind.uo (env.upd i).name) res fp cl := by
  have hp := (inv_run env hist evs).d.prev r i g prev h
  refine ⟨hp, ?_⟩
  simp only [step, h, hgc, if_false]
  rw [← hp]
  split <;> exact ⟨_, _, _, rfl⟩

/-! ### mutual exclusion, isolation -/

/-- Two workers whose updaters have the same name never hold the lock (in
    particular: are never inside driveUpdater) at the same time — within one
    run and across concurrent runs sharing the lock source. -/
theorem same_name_exclusive (env : Env) (hist : List Op) (evs : List Ev) (r i r' i' g g' : Nat)
    (h1 : ((reach env hist evs).pc r i).holds = some g)
    (h2 : ((reach env hist evs).pc r' i').holds = some g')
    (hn : (env.upd i).name = (env.upd i').name) : r = r' ∧ i = i' :=
  exclusive (inv_run env hist evs).l h1 h2 hn

/-- A worker inside driveUpdater holds the lock on its updater's name. -/
theorem running_holds_lock (env : Env) (hist : List Op) (evs : List Ev) (r i : Nat)
    (h : ((reach env hist evs).pc r i).running = true) :
    ∃ g, ((reach env hist evs).pc r i).holds = some g ∧
      (⟨g, (env.upd i).name, r⟩ : Locks.Grant) ∈ (reach env hist evs).locks.active ∧
      (env.upd i).name ∈ (reach env hist evs).locks.held := by
  have hl : InvL env (reach env hist evs) := (inv_run env hist evs).l
  generalize reach env hist evs = s at h hl ⊢
  have hh : ∃ g, (s.pc r i).holds = some g := by
    generalize s.pc r i = p at h
    cases p <;> simp [Pc.running] at h <;> exact ⟨_, rfl⟩
  obtain ⟨g, hg⟩ := hh
  have hm := hl.grant r i g hg
  exact ⟨g, hg, hm, (hl.locks.heldIff _).2 (List.mem_map.2 ⟨_, hm, rfl⟩)⟩

/-- One worker's step — failing or not — leaves every other worker's program
    state and recorded store calls untouched. -/
theorem other_workers_untouched (env : Env) (s : State) (ev : Ev) (r i : Nat) (h : ev.worker env ≠ some (r, i)) :
    (step env s ev).1.pc r i = s.pc r i ∧ callsOf (step env s ev).1 r i = callsOf s r i :=
  ⟨pc_frame env s ev r i h, calls_frame env s ev r i h⟩

/-- A failure does not stop the run from launching the remaining updaters:
    whether `launch` is enabled depends on the loop position and the
    semaphore only. -/
theorem launch_enabled_iff (env : Env) (s : State) (r : Nat) :
    (step env s (.launch r)).2 = .ok ↔
      (s.run r).pc = .acquiring true ∧ (s.run r).inflight < env.batch r := by
  simp only [step]
  split
  · rename_i hpc
    split
    · rename_i hlt; simp [hpc, hlt]
    · rename_i hlt; simp [hlt]
  · rename_i hne
    constructor
    · intro h; cases h
    · intro h; exact absurd h.1 (hne)

/-- An updater whose name is free and whose run is not cancelled is driven. -/
theorem free_name_is_driven (env : Env) (s : State) (r i : Nat) (hgc : i ≠ env.gcInst)
    (hidle : s.pc r i = .idle) (hin : i ∈ env.toRun r) (hl : (s.run r).tried.length < (s.run r).launchedN)
    (hfree : (env.upd i).name ∉ s.locks.held) (hlive : dead s r = false) :
    (step env s (.tryLock r i)).2 = .lock true true ∧
    (step env s (.tryLock r i)).1.pc r i = .locked s.locks.issued := by
  simp [step, hgc, hidle, hin, hl, hfree, hlive]

/-- A configured updater is skipped because of the lock exactly when, at that
    moment, a worker of an updater with the same name (of this or of a
    concurrent run) holds it. -/
theorem skipped_iff_same_name_holder (env : Env) (hist : List Op) (evs : List Ev) (r i : Nat)
    (hgc : i ≠ env.gcInst) (hidle : (reach env hist evs).pc r i = .idle) (hin : i ∈ env.toRun r)
    (hlt : ((reach env hist evs).run r).tried.length < ((reach env hist evs).run r).launchedN) :
    (step env (reach env hist evs) (.tryLock r i)).2 = .lock false false ↔
      ∃ r' i' g, ((reach env hist evs).pc r' i').holds = some g ∧ (env.upd i').name = (env.upd i).name := by
  have hl : InvL env (reach env hist evs) := (inv_run env hist evs).l
  generalize reach env hist evs = s at hidle hlt hl ⊢
  have hheld : (env.upd i).name ∈ s.locks.held ↔
      ∃ r' i' g, (s.pc r' i').holds = some g ∧ (env.upd i').name = (env.upd i).name := by
    rw [hl.locks.heldIff]
    constructor
    · intro hm
      obtain ⟨gr, hgr, hk⟩ := List.mem_map.1 hm
      obtain ⟨r', i', h1, h2, _⟩ := hl.owner gr hgr
      exact ⟨r', i', gr.gid, h1, by rw [← h2, hk]⟩
    · rintro ⟨r', i', g, hg, hn⟩
      exact List.mem_map.2 ⟨_, hl.grant r' i' g hg, hn⟩
  rw [← hheld]
  by_cases hk : (env.upd i).name ∈ s.locks.held
  · simp [step, hgc, hidle, hin, hlt, hk]
  · by_cases hd : dead s r = true <;> simp [step, hgc, hidle, hin, hlt, hk, hd]

/-! ### the returned error, waiting, parallelism, cancellation -/

/-- `Run` returns the instances whose driveUpdater failed — all of them and
    only them: every started worker has finished by then.  (`Run` returns from
    `drained` when no retention is configured, else after its GC section.) -/
theorem error_names_failed (env : Env) (hist : List Op) (evs : List Ev) (r : Nat)
    (hd : (((reach env hist evs).run r).pc = .drained ∧ env.gc r = false) ∨
          ((reach env hist evs).run r).pc = .gcOver) :
    (step env (reach env hist evs) (.ret r)).2 = .ret ((reach env hist evs).run r).errs ∧
    (∀ i, i ∈ ((reach env hist evs).run r).errs ↔
        ∃ res, (reach env hist evs).pc r i = .finished (some res) ∧ res.failed = true) ∧
    (∀ i, i ≠ env.gcInst →
      (reach env hist evs).pc r i = .idle ∨ ((reach env hist evs).pc r i).isFinished = true) := by
  have hr : InvR env (reach env hist evs) := (inv_run env hist evs).r
  generalize reach env hist evs = s at hd hr ⊢
  have hdr : (s.run r).pc.isDrained = true := by
    rcases hd with hd | hd <;> simp [hd, RunPc.isDrained]
  refine ⟨?_, hr.errs r, ?_⟩
  · rcases hd with hd | hd
    · simp [step, hd.1, hd.2]
    · simp [step, hd]
  intro i hgc
  have hq := hr.quiet r hdr
  have hc := hr.count r
  by_cases hi : i ∈ (s.run r).tried
  · right
    exact all_finished_of_unfinished_zero (by omega) i hi
  · left; exact (hr.idle r i hgc).2 hi

/-- `Run` returns only from the state reached after the final semaphore
    acquisition (and, with retention configured, after its GC section). -/
theorem ret_needs_drained (env : Env) (s : State) (r : Nat) (h : (s.run r).pc ≠ .drained)
    (h' : (s.run r).pc ≠ .gcOver) :
    step env s (.ret r) = (s, .bad) := by
  cases hp : (s.run r).pc <;> simp_all [step]

/-- The run returns only after every started updater has finished: once the
    final wait is over (and for ever after) every launched goroutine has
    reached TryLock, has finished, and holds no semaphore token. -/
theorem run_waits_for_all (env : Env) (hist : List Op) (evs : List Ev) (r : Nat)
    (hd : ((reach env hist evs).run r).pc.isDrained = true) :
    ((reach env hist evs).run r).inflight = 0 ∧
    ((reach env hist evs).run r).tried.length = ((reach env hist evs).run r).launchedN ∧
    ∀ i, i ≠ env.gcInst →
      (reach env hist evs).pc r i = .idle ∨ ((reach env hist evs).pc r i).isFinished = true := by
  have hr : InvR env (reach env hist evs) := (inv_run env hist evs).r
  generalize reach env hist evs = s at hd hr ⊢
  have hq := hr.quiet r hd
  have hc := hr.count r
  have hl := hr.triedLe r
  refine ⟨hq, by omega, ?_⟩
  intro i hgc
  by_cases hi : i ∈ (s.run r).tried
  · right; exact all_finished_of_unfinished_zero (by omega) i hi
  · left; exact (hr.idle r i hgc).2 hi

/-- A finished worker never moves again: no store call of a run is made after
    the run has returned. -/
theorem finished_is_final (env : Env) (s : State) (ev : Ev) (r i : Nat) (res : Option Res)
    (h : s.pc r i = .finished res) : (step env s ev).1.pc r i = .finished res := by
  by_cases hw : ev.worker env = some (r, i)
  · cases ev <;> simp [Ev.worker] at hw <;> obtain ⟨rfl, rfl⟩ := hw <;> simp [step, h] <;>
      (try split) <;> simp_all
  · rw [pc_frame env s ev r i hw, h]

/-- At most `batchSize` updaters of a run are in flight. -/
theorem bounded_parallelism (env : Env) (hist : List Op) (evs : List Ev) (r : Nat) :
    unfinished (reach env hist evs) r ≤ ((reach env hist evs).run r).inflight ∧
    ((reach env hist evs).run r).inflight ≤ env.batch r := by
  have hr : InvR env (reach env hist evs) := (inv_run env hist evs).r
  have := hr.count r
  exact ⟨by omega, hr.batch r⟩

/-- After the context of a run is cancelled no new worker is launched, except
    possibly the one whose semaphore acquisition was already in progress: from
    any state in which the run is cancelled and no acquisition is in progress
    with a live context, the number of launched workers never changes again. -/
theorem cancel_stops_launching (env : Env) (s : State) (r : Nat) (hd : dead s r = true)
    (hp : (s.run r).pc ≠ .acquiring true) (evs : List Ev) :
    ((Sm.run (step env) s evs).run r).launchedN = (s.run r).launchedN := by
  induction evs generalizing s with
  | nil => rfl
  | cons ev evs ih =>
    have h1 := cancelled_step env s ev r hd hp
    rw [Sm.run_cons, ih _ (dead_step env s ev r hd) h1.1, h1.2]

/-- …and the acquisition that was in progress can succeed at most once:
    from any state in which the run is cancelled, at most one more worker is
    ever launched. -/
theorem at_most_one_launch_after_cancel (env : Env) (s : State) (r : Nat) (hd : dead s r = true)
    (evs : List Ev) :
    ((Sm.run (step env) s evs).run r).launchedN ≤ (s.run r).launchedN + 1 := by
  have key : ∀ (evs : List Ev) (s : State), dead s r = true →
      budget (Sm.run (step env) s evs) r ≤ budget s r := by
    intro evs
    induction evs with
    | nil => intro s _; exact Nat.le_refl _
    | cons ev evs ih =>
      intro s hd
      rw [Sm.run_cons]
      exact Nat.le_trans (ih _ (dead_step env s ev r hd)) (budget_step env s ev r hd)
  have := key evs s hd
  simp only [budget] at this
  split at this <;> split at this <;> omega

/-- Every configured updater is run: when the run was not cancelled, by the
    time the final wait is over every member of `toRun` has had its worker,
    and that worker has finished. -/
theorem all_configured_run (env : Env) (hist : List Op) (evs : List Ev) (r : Nat)
    (hd : ((reach env hist evs).run r).pc.isDrained = true) (hlive : dead (reach env hist evs) r = false) :
    ∀ i ∈ env.toRun r, ((reach env hist evs).pc r i).isFinished = true := by
  have hr : InvR env (reach env hist evs) := (inv_run env hist evs).r
  generalize reach env hist evs = s at hd hlive hr ⊢
  have hq := hr.quiet r hd
  have hc := hr.count r
  have hl := hr.triedLe r
  have hall : (s.run r).launchedN = (env.toRun r).length := by
    have hlo : (s.run r).pc.loopOver = true := by
      cases hp : (s.run r).pc <;> rw [hp] at hd <;> simp_all [RunPc.isDrained, RunPc.loopOver]
    rcases hr.all r hlo with h | h
    · exact h
    · rw [hlive] at h; cases h
  intro i hi
  have hin : i ∈ (s.run r).tried :=
    subset_of_nodup_length_le _ _ (hr.nodup r) (hr.sub r) (by omega) i hi
  exact all_finished_of_unfinished_zero (by omega) i hin

/-- Only configured updaters are run, each at most once per run. -/
theorem only_configured_run (env : Env) (hist : List Op) (evs : List Ev) (r i : Nat) (hgc : i ≠ env.gcInst)
    (h : (reach env hist evs).pc r i ≠ .idle) : i ∈ env.toRun r := by
  have hr : InvR env (reach env hist evs) := (inv_run env hist evs).r
  apply hr.sub r i
  exact Decidable.byContradiction fun hn => h ((hr.idle r i hgc).2 hn)

/-! ### from factories to the updaters of a run -/

/-- The updaters of a run are the members of the factories that could be
    constructed and are not the stub set, whose Configure did not fail. -/
theorem plan_mem (name : Nat → Nat) (cfgOk : Nat → Bool) (facs : List Fac) (i : Nat) :
    i ∈ plan name cfgOk facs ↔
      ∃ f ∈ facs, f.ok = true ∧ isStub name f = false ∧ i ∈ f.members ∧ cfgOk i = true := by
  simp only [plan, List.mem_filter, List.mem_flatMap, Bool.and_eq_true, Bool.not_eq_true']
  constructor
  · rintro ⟨⟨f, ⟨hf, hok, hst⟩, hm⟩, hc⟩; exact ⟨f, hf, hok, hst, hm, hc⟩
  · rintro ⟨f, hf, hok, hst, hm, hc⟩; exact ⟨⟨f, ⟨hf, hok, hst⟩, hm⟩, hc⟩

/-! ### statements the code does not satisfy at full strength -/

/-- The clause "every configured updater is fetched" read at full strength —
    `∀ i ∈ toRun r, worker (r,i) is driven` — is false when two configured
    updaters share a name (possible across factories): the second one finds
    the lock taken and is skipped without being fetched and without an error.
    That is the price of `same_name_exclusive` (the statement's own second
    sentence).  What holds instead: `all_configured_run` (every configured
    updater gets its worker, which finishes), `skipped_iff_same_name_holder`
    (the exact condition for being skipped) and `free_name_is_driven`. -/
theorem every_configured_fetched_counterexample :
    let u : Upd := { name := 7, kind := .plain, getOk := fun _ => true, fetch := fun _ _ => (.ok, 1), closer := fun _ _ => true,
                     parse := fun _ => some ⟨[1], []⟩, storeOk := fun _ => true }
    let env : Env := { upd := fun _ => u, batch := fun _ => 2, toRun := fun _ => [0, 1], stubSets := fun _ => 0,
                       facCalls := fun _ => [], cfgCalls := fun _ => [], keep := fun _ => 0,
                       gc := fun _ => false, gcInst := 99 }
    let evs : List Ev := [.begin 0, .acquire 0, .launch 0, .acquire 0, .launch 0, .tryLock 0 0, .tryLock 0 1,
      .done 0 1, .getOps 0 0, .fetch 0 0, .parse 0 0, .store 0 0, .close 0 0, .status 0 0, .done 0 0, .wait 0, .drained 0, .ret 0]
    (reach env [] evs).pc 0 1 = .finished none ∧ (reach env [] evs).pc 0 0 = .finished (some (.stored (.vulns 7 1 [1]))) ∧
    ((reach env [] evs).run 0).pc = .returned ∧ ((reach env [] evs).run 0).errs = [] := by
  decide

/-- Finding `gc-lock-name-collision`: the GC section of `Run` takes its lock
    from the updaters' key space.  An updater whose name is that key is skipped
    — not fetched, no error — while a concurrent `Run` is in its GC section,
    although the only other updater of that name finished long ago. -/
theorem gc_lock_collision_counterexample :
    let u : Upd := { name := 1, kind := .plain, getOk := fun _ => true, fetch := fun _ _ => (.ok, 1), closer := fun _ _ => true,
                     parse := fun _ => some ⟨[1], []⟩, storeOk := fun _ => true }
    let env : Env := { upd := fun _ => u, batch := fun _ => 2, toRun := fun _ => [0], stubSets := fun _ => 0,
                       facCalls := fun _ => [], cfgCalls := fun _ => [], keep := fun _ => 2,
                       gc := fun _ => true, gcInst := 99 }
    let before : List Ev := [.begin 0, .acquire 0, .launch 0, .tryLock 0 0, .getOps 0 0, .fetch 0 0, .parse 0 0,
      .store 0 0, .close 0 0, .status 0 0, .done 0 0, .wait 0, .drained 0, .gcTry 0, .begin 1, .acquire 1, .launch 1]
    let after : List Ev := [.tryLock 1 0, .done 1 0, .wait 1, .drained 1, .gcTry 1, .gcDone 1, .ret 1,
      .gc 0, .gcDone 0, .ret 0]
    (reach env [] before).pc 0 0 = .finished (some (.stored (.vulns 1 1 [1]))) ∧
    (reach env [] before).pc 0 99 = .locked 1 ∧
    (step env (reach env [] before) (.tryLock 1 0)).2 = .lock false false ∧
    (reach env [] (before ++ after)).pc 1 0 = .finished none ∧
    ((reach env [] (before ++ after)).run 1).pc = .returned ∧
    ((reach env [] (before ++ after)).run 1).errs = [] := by
  decide

/-- The store's GC is called only by a run that holds the garbage-collection
    lock with a live context, and (see `run_waits_for_all`: `inGc` counts as
    drained) only after every updater of that run has finished. -/
theorem gc_call_needs_lock (env : Env) (s : State) (r : Nat) (h : (step env s (.gc r)).2 = .gcCall (env.keep r)) :
    (s.run r).pc = .inGc ∧ ∃ g, s.pc r env.gcInst = .locked g := by
  simp only [step] at h
  split at h
  · rename_i hpc
    split at h
    · rename_i g hg; exact ⟨hpc, g, hg⟩
    · cases h
  · cases h

/-- Observation (not part of the statement): a cancelled run returns no error
    for the updaters it never started; `Run` reports failures of driveUpdater
    only (the `+1` slot of errChan "for a potential ctx error" is never used). -/
theorem cancelled_run_reports_no_error :
    let u : Upd := { name := 7, kind := .plain, getOk := fun _ => true, fetch := fun _ _ => (.ok, 1), closer := fun _ _ => true,
                     parse := fun _ => some ⟨[1], []⟩, storeOk := fun _ => true }
    let env : Env := { upd := fun _ => u, batch := fun _ => 2, toRun := fun _ => [0, 1], stubSets := fun _ => 0,
                       facCalls := fun _ => [], cfgCalls := fun _ => [], keep := fun _ => 0,
                       gc := fun _ => false, gcInst := 99 }
    let evs : List Ev := [.cancel 0, .begin 0, .acquire 0, .wait 0, .drained 0]
    (step env (reach env [] evs) (.ret 0)).2 = .ret [] ∧ (reach env [] evs).pc 0 0 = .idle := by
  decide

/-- Non-vacuity of the hypotheses used above: a run with a failing and a
    healthy updater reaches `drained`, names exactly the failing one, and the
    healthy one's result is in the store. -/
example :
    let good : Upd := { name := 2, kind := .delta, getOk := fun _ => true, fetch := fun _ _ => (.ok, 5), closer := fun _ _ => true,
                        parse := fun _ => some ⟨[1, 2], [3]⟩, storeOk := fun _ => true }
    let bad : Upd := { good with name := 3, parse := fun _ => none }
    let env : Env := { upd := fun i => if i = 0 then good else bad, batch := fun _ => 1,
                       toRun := fun _ => [0, 1], stubSets := fun _ => 0,
                       facCalls := fun _ => [], cfgCalls := fun _ => [], keep := fun _ => 0,
                       gc := fun _ => false, gcInst := 99 }
    let evs : List Ev := [.begin 0, .acquire 0, .launch 0, .tryLock 0 1, .getOps 0 1, .fetch 0 1, .parse 0 1,
      .close 0 1, .status 0 1, .done 0 1, .acquire 0, .launch 0, .tryLock 0 0, .getOps 0 0, .fetch 0 0, .parse 0 0, .store 0 0,
      .close 0 0, .status 0 0, .done 0 0, .wait 0, .drained 0]
    ((reach env [⟨2, .vuln, 4⟩] evs).run 0).pc = .drained ∧ ((reach env [⟨2, .vuln, 4⟩] evs).run 0).errs = [1] ∧
    (reach env [⟨2, .vuln, 4⟩] evs).ops = [⟨2, .vuln, 5⟩, ⟨2, .vuln, 4⟩] ∧
    callsOf (reach env [⟨2, .vuln, 4⟩] evs) 0 0 = [.delta 2 5 [1, 2] [3]] := by
  decide

/-! ### RecordUpdaterStatus and the ReadCloser of Fetch: every outcome of driveUpdater -/

/-- The fingerprint handed to RecordUpdaterStatus (`newFP`): the empty one when
    GetUpdateOperations failed (Fetch was never called), otherwise whatever
    Fetch returned — also next to an error or to Unchanged. -/
theorem status_fingerprint_spec (u : Upd) (prev : Fp) (d0 d1 d2 d3 : Bool) :
    (drive u prev d0 d1 d2 d3).2 = if u.getOk d0 = true then (u.fetch prev d1).2 else 0 := by
  unfold drive
  cases h0 : u.getOk d0
  · simp
  · simp only [if_true]
    rcases hf : u.fetch prev d1 with ⟨res, fp⟩
    cases res
    · cases hp : u.parse d2 with
      | none => rfl
      | some p => cases h3 : u.storeOk d3 <;> simp
    · rfl
    · rfl

/-- RecordUpdaterStatus is called exactly once per driven updater, whatever the
    outcome (stored, unchanged, GetUpdateOperations / Fetch / Parse / store
    error), after driveUpdater's body, with the updater's own name, the value
    of `newFP` and the failure flag of that very driveUpdater call; a worker
    that is skipped, or still inside driveUpdater, has recorded nothing. -/
theorem status_recorded_exactly_once (env : Env) (hist : List Op) (evs : List Ev) (r i : Nat) :
    (∀ res, ((reach env hist evs).pc r i).reported = some res →
      ∃ fp prev d0 d1 d2 d3, drive (env.upd i) prev d0 d1 d2 d3 = (res, fp) ∧
        statusOf (reach env hist evs) r i = [⟨r, i, (env.upd i).name, fp, res.failed⟩]) ∧
    (((reach env hist evs).pc r i).reported = none → statusOf (reach env hist evs) r i = []) := by
  have h := (invO_run env hist evs).st.st r i
  constructor
  · intro res hr; rw [hr] at h; exact h
  · intro hr; rw [hr] at h; exact h

/-- A finished worker has reported: `reported` is defined for exactly the
    workers whose driveUpdater ran to its end. -/
theorem finished_worker_has_reported (p : Pc) (res : Res) (h : p = .finished (some res)) : p.reported = some res := by
  subst h; rfl

/-- The ReadCloser Fetch returned is closed exactly once on every path — next
    to an error, to Unchanged, after a parse or store failure, after success —
    and before the status is recorded; a nil ReadCloser is never closed.  For
    every worker whose driveUpdater has ended (`late`), and in fact always:
    the number of Close calls is 1 if the ReadCloser is closed, else 0, and
    it is not open any more once the status is recorded. -/
theorem closer_closed_exactly_once (env : Env) (hist : List Op) (evs : List Ev) (r i : Nat) :
    closesOf (reach env hist evs) r i = (if (reach env hist evs).body r i = .closed then 1 else 0) ∧
    (((reach env hist evs).pc r i).reported ≠ none → (reach env hist evs).body r i ≠ .opened) ∧
    ((reach env hist evs).pc r i = .finished none → (reach env hist evs).body r i = .unfetched) := by
  have hc := (invO_run env hist evs).cl
  refine ⟨hc.count r i, ?_, ?_⟩
  · intro hrep hop
    have := hc.opened r i hop
    generalize (reach env hist evs).pc r i = p at hrep this
    cases p <;> simp_all [Pc.reported, Pc.canOpen]
  · intro hf
    exact hc.early r i (by rw [hf]; rfl)

/-- The parser is handed contents that have not been closed: a ReadCloser is
    closed only after driveUpdater's body is over. -/
theorem parser_reads_unclosed_contents (env : Env) (hist : List Op) (evs : List Ev) (r i g : Nat) (prev fp : Fp)
    (h : (reach env hist evs).pc r i = .fetched g prev fp) : (reach env hist evs).body r i ≠ .closed := by
  intro hc
  have := (invO_run env hist evs).cl.closed r i hc
  rw [h] at this; cases this

/-- The deferred calls run in reverse order: the status cannot be recorded
    while the ReadCloser is open, and Close is possible only then. -/
theorem status_waits_for_close (env : Env) (s : State) (r i : Nat) :
    (s.body r i = .opened → (step env s (.status r i)).2 = .bad) ∧
    ((step env s (.close r i)).2 = .ok → s.body r i = .opened ∧ ∃ g fp res, s.pc r i = .finishing g fp res) := by
  constructor
  · intro hb
    simp only [step]
    split
    · rfl
    · split
      · rfl
      · rfl
  · intro h
    simp only [step] at h
    split at h
    · cases h
    · split at h
      · rename_i g fp res hpc
        split at h
        · rename_i hb; exact ⟨hb, g, fp, res, hpc⟩
        · cases h
      · cases h

/-- The GC section: with retention configured, `Run` cannot return from
    `drained` directly, and `store.GC` is called with the retention. -/
theorem gc_section_precedes_return (env : Env) (s : State) (r : Nat) (hg : env.gc r = true)
    (hp : (s.run r).pc = .drained) : step env s (.ret r) = (s, .bad) := by
  simp [step, hp, hg]

/-! ### which updaters a run contains: UpdaterSet, registry, options, NewManager -/

open ClairModel.MgrSetup in
/-- `UpdaterSet.Add`: fails exactly when the name is taken and then leaves the
    set alone; otherwise the updater is in under its name.  The set keeps one
    entry per name. -/
theorem uset_add_spec (nm : Nat → Nat) (s : USet) (i : Nat) :
    (USet.add nm s i = none ↔ nm i ∈ s.names) ∧
    (∀ s', USet.add nm s i = some s' → nm i ∉ s.names ∧ s' = (nm i, i) :: s) ∧
    (∀ s', s.WF → USet.add nm s i = some s' → s'.WF) :=
  ⟨(add_spec nm s i).1, (add_spec nm s i).2, fun s' hw h => add_wf nm s s' i hw h⟩

open ClairModel.MgrSetup in
/-- `UpdaterSet.Merge` is all or nothing: it fails exactly when some name is
    in both sets, names exactly those, and leaves the receiver alone; else
    the receiver holds the entries of both, still one per name. -/
theorem uset_merge_all_or_nothing (s t : USet) :
    (∀ ex, USet.merge s t = .inl ex → ex ≠ [] ∧ ∀ n, n ∈ ex ↔ n ∈ t.names ∧ n ∈ s.names) ∧
    (∀ u, USet.merge s t = .inr u → (∀ n ∈ t.names, n ∉ s.names) ∧ u = t ++ s) ∧
    (∀ u, s.WF → t.WF → USet.merge s t = .inr u → u.WF) :=
  ⟨(merge_spec s t).1, (merge_spec s t).2, fun u hs ht h => merge_wf s t u hs ht h⟩

open ClairModel.MgrSetup in
/-- `UpdaterSet.RegexFilter` keeps exactly the entries whose name matches. -/
theorem uset_filter_spec (keep : Nat → Bool) (s : USet) :
    (∀ p, p ∈ USet.regexFilter keep s ↔ p ∈ s ∧ keep p.1 = true) ∧ (s.WF → (USet.regexFilter keep s).WF) :=
  ⟨regexFilter_spec keep s, regexFilter_wf keep s⟩

open ClairModel.MgrSetup in
/-- In a set with one entry per name, `Updaters()` holds one updater per name. -/
theorem uset_one_updater_per_name (s : USet) (h : s.WF) :
    (USet.updaters s).length = s.names.length ∧
    ∀ p q, p ∈ s → q ∈ s → p.1 = q.1 → p = q := by
  refine ⟨by simp [USet.updaters, USet.names], one_per_name s h⟩

open ClairModel.MgrSetup in
/-- `WithOutOfTree`: for every name the first updater of the list that carries
    it is kept, later ones are ignored; one entry per name. -/
theorem out_of_tree_first_wins (nm : Nat → Nat) (us : List Nat) :
    (ootSet nm us).WF ∧ ∀ n, (ootSet nm us).lookup n = us.find? fun i => nm i == n :=
  ⟨ootSet_wf nm us, ootSet_lookup nm us⟩

open ClairModel.MgrSetup in
/-- What each ManagerOption does to the factory map, entry by entry:
    WithEnabled keeps the listed names (nil: everything), WithOutOfTree sets
    the key "outOfTree" and nothing else, WithFactories replaces the map, the
    other options leave it alone. -/
theorem options_factory_map (nm : Nat → Nat) (m : Mgr) (n : Nat) :
    (∀ e, (applyOpt nm m (.enabled (some e))).facs.lookup n = if e.contains n = true then m.facs.lookup n else none) ∧
    ((applyOpt nm m (.enabled none)).facs = m.facs) ∧
    (∀ us, (applyOpt nm m (.outOfTree us)).facs.lookup n =
        if n = ootName then some (.static (ootSet nm us).updaters) else m.facs.lookup n) ∧
    (∀ f, (applyOpt nm m (.factories f)).facs = f) ∧
    (∀ k, (applyOpt nm m (.batch k)).facs = m.facs) ∧ (∀ k, (applyOpt nm m (.interval k)).facs = m.facs) ∧
    (∀ c, (applyOpt nm m (.configs c)).facs = m.facs) ∧ (∀ k, (applyOpt nm m (.gc k)).facs = m.facs) :=
  applyOpt_lookup nm m n

open ClairModel.MgrSetup in
/-- The options in the order libvuln.New passes them (WithEnabled, WithConfigs,
    WithOutOfTree, WithGC; here after an explicit WithFactories): the manager
    runs the enabled ones of the given factories plus the out-of-tree set. -/
theorem canonical_options_factories (nm : Nat → Nat) (reg : List (Nat × Nat)) (db di : Nat) (F : FMap)
    (E : List Nat) (C : Cfgs) (O : List Nat) (G : Int) (n : Nat) :
    let m := build nm reg db di [.factories F, .enabled (some E), .configs C, .outOfTree O, .gc G]
    (m.facs.lookup n = if n = ootName then some (.static (ootSet nm O).updaters)
                       else if E.contains n = true then F.lookup n else none) ∧
    m.retention = G ∧ m.configs = C ∧ m.batch = db ∧ m.interval = di := by
  simp only [build, List.foldl_cons, List.foldl_nil]
  refine ⟨?_, rfl, rfl, rfl, rfl⟩
  simp only [applyOpt]
  rw [lookup_set, lookup_filter_key F (fun k => E.contains k) n]

open ClairModel.MgrSetup in
/-- Finding `enabled-drops-out-of-tree`: the options do not commute, although
    NewManager's comment says they can be run in any order.  WithEnabled after
    WithOutOfTree removes the "outOfTree" factory again: updater 1, handed to
    WithOutOfTree, is not among the updaters of a run, while in the other
    order it is. -/
theorem enabled_after_out_of_tree_counterexample :
    let w : World := { name := fun i => i + 2, ucfg := fun _ => 0, fac := fun _ => ⟨true, [0]⟩, fcfg := fun _ => 0 }
    let F : FMap := [(1, .ext 0)]
    (build w.name [] 4 9 [.factories F, .outOfTree [1], .enabled (some [1])]).toRun w = [0] ∧
    (build w.name [] 4 9 [.factories F, .enabled (some [1]), .outOfTree [1]]).toRun w = [1, 0] := by
  decide

open ClairModel.MgrSetup in
/-- `updater.Register` panics exactly when the name is taken;
    `updater.Registered` hands out the registered factories by name. -/
theorem registry_spec (reg : List (Nat × Nat)) (n f : Nat) :
    (register reg n f = none ↔ n ∈ reg.map (·.1)) ∧
    (∀ r, register reg n f = some r → r = (n, f) :: reg) ∧
    (registered reg).lookup n = (reg.lookup n).map FacV.ext :=
  ⟨(register_spec reg n f).1, (register_spec reg n f).2, registered_lookup reg n⟩

open ClairModel.MgrSetup in
/-- `NewManager` succeeds exactly when the retention is not 1, an HTTP client
    was given and no Configurable factory's Configure failed; the manager is
    then the defaults with the options applied in order, and every
    Configurable factory of its map was configured (with the config of its
    name, or the no-op one). -/
theorem new_manager_spec (w : World) (reg : List (Nat × Nat)) (db di : Nat) (cl : Bool) (opts : List Opt) :
    ((∃ m calls, newManager w reg db di cl opts = .ok m calls) ↔
      (build w.name reg db di opts).retention ≠ 1 ∧ cl = true ∧
      facCfgFails w (build w.name reg db di opts) = false) ∧
    (∀ m calls, newManager w reg db di cl opts = .ok m calls →
      m = build w.name reg db di opts ∧ calls = facCfgCalls w m) :=
  ⟨newManager_ok_iff w reg db di cl opts, newManager_ok_eq w reg db di cl opts⟩

open ClairModel.MgrSetup in
/-- The updaters of a run, in terms of the manager's factory map: the members
    of every factory in the map that could be constructed and is not the stub
    set, minus those whose Configure failed. -/
theorem run_updaters_spec (w : World) (m : Mgr) (i : Nat) :
    i ∈ m.toRun w ↔ ∃ p ∈ m.facs, (facOf w p.2).ok = true ∧ isStub w.name (facOf w p.2) = false ∧
      i ∈ (facOf w p.2).members ∧ w.ucfg i ≠ 2 := by
  unfold Mgr.toRun Mgr.runFacs
  rw [plan_mem]
  constructor
  · rintro ⟨f, hf, hok, hst, hm, hc⟩
    obtain ⟨p, hp, rfl⟩ := List.mem_map.1 hf
    exact ⟨p, hp, hok, hst, hm, by simpa using hc⟩
  · rintro ⟨p, hp, hok, hst, hm, hc⟩
    exact ⟨_, List.mem_map.2 ⟨p, hp, rfl⟩, hok, hst, hm, by simpa using hc⟩

/-- Exactly once per configured updater: when the final wait of a run that was
    not cancelled is over, every configured updater has had exactly one worker
    (which has finished, `all_configured_run`), and nothing else has. -/
theorem configured_updater_run_exactly_once (env : Env) (hist : List Op) (evs : List Ev) (r : Nat)
    (hgc : env.gcInst ∉ env.toRun r)
    (hd : ((reach env hist evs).run r).pc.isDrained = true) (hlive : dead (reach env hist evs) r = false) :
    ((reach env hist evs).run r).tried.Nodup ∧
    ∀ i, i ∈ ((reach env hist evs).run r).tried ↔ i ∈ env.toRun r := by
  have hall := all_configured_run env hist evs r hd hlive
  have hr : InvR env (reach env hist evs) := (inv_run env hist evs).r
  refine ⟨hr.nodup r, fun i => ⟨hr.sub r i, ?_⟩⟩
  intro hi
  have hne : i ≠ env.gcInst := fun he => hgc (he ▸ hi)
  have hf := hall i hi
  exact Decidable.byContradiction fun hn => by
    have := (hr.idle r i hne).2 hn
    rw [this] at hf; cases hf

/-! ### Manager.Start: the periodic loop as a sequence of runs -/

open ClairModel.MgrStart in
/-- The runs Start makes are runs of the run machine: every state the loop
    reaches is reached by the run machine alone, so every theorem above holds
    for each of them. -/
theorem start_runs_are_machine_runs (se : SEnv) (hist : List Op) (sevs : List SEv) :
    ∃ evs : List Ev, (sreach se hist sevs).m = reach se.env hist evs :=
  sreach_inner se hist sevs

open ClairModel.MgrStart in
/-- One run at a time: two runs of the same Start call are never both between
    `begin` and `ret`; the one that is, is the loop's current run. -/
theorem start_runs_one_at_a_time (se : SEnv) (hist : List Op) (sevs : List SEv) (s r r' : Nat)
    (ho : se.owner r = some s) (ho' : se.owner r' = some s)
    (ha : active (sreach se hist sevs).m r = true) (ha' : active (sreach se hist sevs).m r' = true) : r = r' := by
  have h := invSt_run se hist sevs
  obtain ⟨k, hk⟩ := h.own r s ho ha
  obtain ⟨k', hk'⟩ := h.own r' s ho' ha'
  rw [hk] at hk'
  cases hk'; rfl

open ClairModel.MgrStart in
/-- Start returns ctx.Err() only when its context is cancelled and none of its
    runs is in progress; it returns its own error only when no interval is
    configured, and then none of its runs has even begun. -/
theorem start_returns_only_cancelled_and_idle (se : SEnv) (hist : List Op) (sevs : List SEv) (s : Nat) :
    ((sreach se hist sevs).start s = .returned true →
      (sreach se hist sevs).sdead s = true ∧ se.interval s ≠ 0 ∧
      ∀ r, se.owner r = some s → active (sreach se hist sevs).m r = false) ∧
    ((sreach se hist sevs).start s = .returned false →
      se.interval s = 0 ∧ ∀ r, se.owner r = some s → ((sreach se hist sevs).m.run r).pc = .notStarted) := by
  have h := invSt_run se hist sevs
  constructor
  · intro hs
    refine ⟨h.ret s hs, (h.ival s).2 (Or.inr (Or.inr hs)), ?_⟩
    intro r ho
    cases ha : active (sreach se hist sevs).m r
    · rfl
    · obtain ⟨k, hk⟩ := h.own r s ho ha
      rw [hs] at hk; cases hk
  · intro hs
    exact ⟨(h.ival s).1 hs, h.fresh s (Or.inr hs)⟩

open ClairModel.MgrStart in
/-- Without an interval Start runs nothing: it answers with its error at once
    and none of its runs ever begins. -/
theorem start_without_interval_runs_nothing (se : SEnv) (hist : List Op) (sevs : List SEv) (s r : Nat)
    (hi : se.interval s = 0) (ho : se.owner r = some s) :
    ((sreach se hist sevs).m.run r).pc = .notStarted := by
  have h := invSt_run se hist sevs
  cases hs : (sreach se hist sevs).start s with
  | idle => exact h.fresh s (Or.inl hs) r ho
  | returned b =>
    cases b
    · exact h.fresh s (Or.inr hs) r ho
    · exact absurd hi ((h.ival s).2 (Or.inr (Or.inr hs)))
  | inRun k c => exact absurd hi ((h.ival s).2 (Or.inl ⟨k, c, hs⟩))
  | selecting k => exact absurd hi ((h.ival s).2 (Or.inr (Or.inl ⟨k, hs⟩)))

open ClairModel.MgrStart in
/-- The initial run needs no tick: right after Start is called (with an
    interval) its first run can begin. -/
theorem start_initial_run_needs_no_tick (se : SEnv) (st : SState) (s r : Nat) (hi : se.interval s ≠ 0)
    (hs : st.start s = .idle) (ho : se.owner r = some s) (hr : (st.m.run r).pc = .notStarted)
    (hl : st.sdead s = false) :
    (sstep se st (.sbegin s)).2 = .ok ∧
    ∃ o, (sstep se (sstep se st (.sbegin s)).1 (.inner (.begin r))).2 = .inner o ∧ o ≠ .bad := by
  have h1 : sstep se st (.sbegin s) = (st.setStart s (.inRun 0 none), .ok) := by
    simp [sstep, hs, hi]
  rw [h1]
  refine ⟨rfl, ?_⟩
  have hb : (step se.env st.m (.begin r)).2 ≠ .bad := by simp [step, hr]
  refine ⟨(step se.env st.m (.begin r)).2, ?_, hb⟩
  simp [sstep, ho, SState.setStart, startCtx, hl, hb]

open ClairModel.MgrStart in
/-- The runs of a Start call share its context: a run in progress when the
    context is cancelled is cancelled with it. -/
theorem start_run_shares_cancellation (se : SEnv) (hist : List Op) (sevs : List SEv) (s r : Nat)
    (ho : se.owner r = some s) (hd : (sreach se hist sevs).sdead s = true)
    (ha : active (sreach se hist sevs).m r = true) : dead (sreach se hist sevs).m r = true :=
  (invSt_run se hist sevs).deadRun r s ho hd ha

open ClairModel.MgrStart in
/-- After the cancellation the loop may still take a tick (the select chooses
    among ready cases at random), but such a run starts no updater: a run of a
    Start call that has not begun when the context is cancelled never launches
    a worker, whatever happens afterwards. -/
theorem start_dead_run_launches_nothing (se : SEnv) (hist : List Op) (sevs more : List SEv) (s r : Nat)
    (ho : se.owner r = some s) (hd : (sreach se hist sevs).sdead s = true)
    (hn : ((sreach se hist sevs).m.run r).pc = .notStarted) :
    ((Sm.run (sstep se) (sreach se hist sevs) more).m.run r).launchedN = 0 := by
  obtain ⟨evs, he⟩ := sreach_inner se hist sevs
  have h0 : ((sreach se hist sevs).m.run r).launchedN = 0 := by
    rw [he] at hn ⊢
    exact not_started_launched_zero se.env hist evs r hn
  exact (squiet_run se r s ho more _ hd ⟨h0, Or.inl hn⟩).1

end ClairModel.Props.C13
