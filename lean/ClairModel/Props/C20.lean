/-
  C20 — Process-local locks give mutual exclusion and always hand over.
  Property theorems only; helper lemmas live in Proofs/Locks.lean.
  The machine (Model/Locks.lean) is tied to libvuln/updates/locks.go and
  updater/locallocker.go by the hook-trace correspondence (`./check C20`).
-/
import ClairModel.Proofs.Locks
import ClairModel.Proofs.LockCallers

-- every variable of a property statement is bound explicitly: a misspelt name is an error, not a new variable
set_option autoImplicit false

namespace ClairModel.Props.C20
open ClairModel ClairModel.Locks

/-- Every state reachable by any sequence of Lock / TryLock / re-test /
    release (including repeated releases) / parent cancellation satisfies the
    invariant. -/
theorem reachable_inv (ops : List Op) : Inv (Sm.run step init ops) :=
  Sm.invariant_run (Inv := Inv) (fun _ op h => inv_step h op) ops init inv_init

/-- Mutual exclusion: in every reachable state two live grants on one key are
    the same grant. -/
theorem mutex (ops : List Op) (g₁ g₂ : Grant)
    (h₁ : g₁ ∈ (Sm.run step init ops).active) (h₂ : g₂ ∈ (Sm.run step init ops).active)
    (hk : g₁.key = g₂.key) : g₁ = g₂ :=
  eq_of_nodup_map (·.key) _ (reachable_inv ops).oneHolder h₁ h₂ hk

/-- The map of held keys is exactly the set of keys with a live holder. -/
theorem held_iff_holder (ops : List Op) (k : Nat) :
    k ∈ (Sm.run step init ops).held ↔ ∃ g ∈ (Sm.run step init ops).active, g.key = k := by
  rw [(reachable_inv ops).heldIff k, List.mem_map]

/-- A non-blocking attempt on a held key is a single step, changes nothing and
    returns the already-cancelled context (`busy`). -/
theorem trylock_nonblocking_held (s : State) (k p : Nat) (h : k ∈ s.held) :
    step s (.tryLock k p) = (s, .busy) := by
  simp [step, h]

/-- A non-blocking attempt on a free key is granted with a live context. -/
theorem trylock_free_granted (s : State) (k p : Nat) (h : k ∉ s.held) (hp : p ∉ s.deadParents) :
    (step s (.tryLock k p)).2 = .acquired s.issued ∧
    ctxLive (step s (.tryLock k p)).1 s.issued = true := by
  simp [step, h, acquire, ctxLive, hp]

/-- No lost wake-up: in every reachable state a parked goroutine that has not
    been made runnable waits for a key that is really held. -/
theorem no_lost_wakeup (ops : List Op) (w : Waiter)
    (hw : w ∈ (Sm.run step init ops).parked) (hr : w.runnable = false) :
    w.key ∈ (Sm.run step init ops).held :=
  (reachable_inv ops).noLostWake w hw hr

/-- Release makes every parked goroutine runnable (Broadcast). -/
theorem release_wakes_all (s : State) (g : Nat) (gr : Grant)
    (hg : s.active.find? (fun x => x.gid == g) = some gr) :
    ∀ w ∈ (step s (.release g)).1.parked, w.runnable = true := by
  intro w hw
  simp only [step, hg] at hw
  rcases List.mem_map.1 hw with ⟨w', _, rfl⟩
  rfl

/-- Hand-over: when the holder of `k` releases, the first waiter for `k` that
    re-tests is granted the key. -/
theorem handover (s : State) (hinv : Inv s) (gr : Grant) (w : Waiter)
    (hg : gr ∈ s.active) (hw : w ∈ s.parked) (hk : w.key = gr.key) :
    ∃ g', (step (step s (.release gr.gid)).1 (.retest w.tid)).2 = .acquired g' := by
  have hfind : s.active.find? (fun x => x.gid == gr.gid) = some gr := by
    cases hf : s.active.find? (fun x => x.gid == gr.gid) with
    | none =>
      have := List.find?_eq_none.1 hf gr hg
      simp at this
    | some gr' =>
      obtain ⟨hm, he⟩ := find_gid hf
      rw [eq_of_nodup_map (·.gid) _ hinv.gidNodup hm hg he]
  have hinv' := inv_step hinv (.release gr.gid)
  simp only [step, hfind] at hinv' ⊢
  -- the waiter, now runnable, is found by tid
  have hw' : ({ w with runnable := true } : Waiter) ∈ s.parked.map fun w => { w with runnable := true } :=
    List.mem_map.2 ⟨w, hw, rfl⟩
  cases hf : (s.parked.map fun w => ({ w with runnable := true } : Waiter)).find?
      (fun w' => w'.tid == w.tid && w'.runnable) with
  | none =>
    have := List.find?_eq_none.1 hf _ hw'
    simp at this
  | some w'' =>
    have hm := List.mem_of_find?_eq_some hf
    have ht : w''.tid = w.tid := by have := List.find?_some hf; simp at this; exact this.1
    have hww : w'' = { w with runnable := true } :=
      eq_of_nodup_map (·.tid) _ hinv'.tidNodup hm hw' (by simp [ht])
    have hnot : w''.key ∉ s.held.filter (fun k => !(k == gr.key)) := by
      simp [hww, hk]
    simp only [hnot, if_false, acquire]
    exact ⟨_, rfl⟩

/-- Releasing cancels the holder's context: the context of a released grant is dead. -/
theorem find_after_release (s : State) (g : Nat) :
    (step s (.release g)).1.active.find? (fun gr => gr.gid == g) = none := by
  simp only [step]
  split
  · rename_i hf; exact hf
  · apply List.find?_eq_none.2
    intro x hx
    have := (List.mem_filter.1 hx).2
    simpa using this

theorem release_cancels_context (s : State) (g : Nat) :
    ctxLive (step s (.release g)).1 g = false := by
  simp only [ctxLive, find_after_release]

/-- Release is safe to repeat: the second call is a no-op. -/
theorem release_idempotent (s : State) (g : Nat) :
    step (step s (.release g)).1 (.release g) = ((step s (.release g)).1, .noop) := by
  have := find_after_release s g
  generalize (step s (.release g)).1 = s' at this ⊢
  simp only [step, this]

/-- Different keys never block each other: an operation on key `k` leaves the
    held/free status of every other key untouched. -/
theorem keys_independent_trylock (s : State) (k p k' : Nat) (hne : k' ≠ k) :
    (k' ∈ (step s (.tryLock k p)).1.held ↔ k' ∈ s.held) := by
  simp only [step]
  split
  · rfl
  · simp [acquire, hne]

theorem keys_independent_release (s : State) (hinv : Inv s) (gr : Grant) (hg : gr ∈ s.active)
    (k' : Nat) (hne : k' ≠ gr.key) :
    (k' ∈ (step s (.release gr.gid)).1.held ↔ k' ∈ s.held) := by
  simp only [step]
  split
  · rfl
  · rename_i gr' hf
    obtain ⟨hm, he⟩ := find_gid hf
    have : gr' = gr := eq_of_nodup_map (·.gid) _ hinv.gidNodup hm hg he
    subst this
    simp [hne]


/-- A blocking attempt on a free key is granted at once whatever other keys are held. -/
theorem lock_free_granted (s : State) (t k p : Nat) (hk : k ∉ s.held)
    (ht : (s.parked.any fun w => w.tid == t) = false) :
    (step s (.lock t k p)).2 = .acquired s.issued := by
  simp [step, hk, ht, acquire]

/-- The defect that was repaired (`fix:` commit, sync.Once): with the old
    release closure a repeated release by a former holder frees the key under
    the current holder, and a third party is granted it — two live holders. -/
theorem double_release_counterexample :
    let keyOf : Nat → Option Nat := fun _ => some 7
    let ops : List Op := [.tryLock 7 0, .release 0, .tryLock 7 0, .release 0, .tryLock 7 0]
    ((Sm.run (stepNoOnce keyOf) init ops).active.map (·.key)) = [7, 7] := by
  decide

/-- The same history on the repaired machine keeps one holder. -/
example :
    ((Sm.run step init [.tryLock 7 0, .release 0, .tryLock 7 0, .release 0, .tryLock 7 0]).active.map (·.key)) = [7] := by
  decide

/-- Non-vacuity: a reachable state with a holder and two parked waiters meets
    the hypotheses of `handover`. -/
example :
    let s := Sm.run step init [.tryLock 1 0, .lock 10 1 0, .lock 11 1 0, .tryLock 2 0]
    Inv s ∧ (∃ gr ∈ s.active, ∃ w ∈ s.parked, w.key = gr.key) := by
  refine ⟨reachable_inv _, ?_⟩
  decide

/-! ## More about the lock machine itself -/

/-- `Close` (libvuln/updates.localLockSource; updater.localLocker has none) does nothing:
    every key stays as it was, every holder keeps its key. -/
theorem close_noop (s : State) : step s .close = (s, .ok) := rfl

/-- A blocking attempt on a held key does not get it: the goroutine parks. -/
theorem lock_held_parks (s : State) (t k p : Nat) (hk : k ∈ s.held)
    (ht : (s.parked.any fun w => w.tid == t) = false) :
    (step s (.lock t k p)).2 = .parked ∧ (step s (.lock t k p)).1.active = s.active := by
  simp [step, hk, ht]

/-- No lost wake-up / hand-over for any number of keys and waiters: in every
    reachable state a parked goroutine whose key is free has been made runnable,
    and when it re-tests it is granted the key — whoever else is parked, on
    whatever keys. -/
theorem free_key_waiter_acquires (ops : List Op) (w : Waiter)
    (hw : w ∈ (Sm.run step init ops).parked) (hfree : w.key ∉ (Sm.run step init ops).held) :
    w.runnable = true ∧
    (step (Sm.run step init ops) (.retest w.tid)).2 = .acquired (Sm.run step init ops).issued := by
  have hinv := reachable_inv ops
  generalize Sm.run step init ops = s at hw hfree hinv
  have hrun : w.runnable = true := by
    cases hr : w.runnable with
    | true => rfl
    | false => exact absurd (hinv.noLostWake w hw hr) hfree
  refine ⟨hrun, ?_⟩
  simp only [step]
  cases hf : s.parked.find? (fun w' => w'.tid == w.tid && w'.runnable) with
  | none =>
    have := List.find?_eq_none.1 hf w hw
    simp [hrun] at this
  | some w' =>
    have hm := List.mem_of_find?_eq_some hf
    have ht : w'.tid = w.tid := by have := List.find?_some hf; simp at this; exact this.1
    have : w' = w := eq_of_nodup_map (·.tid) _ hinv.tidNodup hm hw ht
    subst this
    simp [hfree, acquire]

/-- The context handed to a holder is live exactly as long as the key is held
    and the parent is not cancelled … -/
theorem ctx_live_while_held (ops : List Op) (gr : Grant) (hg : gr ∈ (Sm.run step init ops).active) :
    ctxLive (Sm.run step init ops) gr.gid = !((Sm.run step init ops).deadParents.contains gr.parent) := by
  have hinv := reachable_inv ops
  generalize Sm.run step init ops = s at hg hinv
  simp only [ctxLive]
  cases hf : s.active.find? (fun x => x.gid == gr.gid) with
  | none =>
    have := List.find?_eq_none.1 hf gr hg
    simp at this
  | some gr' =>
    obtain ⟨hm, he⟩ := find_gid hf
    rw [eq_of_nodup_map (·.gid) _ hinv.gidNodup hm hg he]

/-- … and dead once the grant is gone (released), whatever the parent does. -/
theorem ctx_dead_when_not_held (s : State) (g : Nat) (hg : ∀ gr ∈ s.active, gr.gid ≠ g) :
    ctxLive s g = false := by
  simp only [ctxLive]
  cases hf : s.active.find? (fun x => x.gid == g) with
  | none => rfl
  | some gr =>
    obtain ⟨hm, he⟩ := find_gid hf
    exact absurd he (hg gr hm)

/-- Cancelling a parent context takes no key away and wakes nobody (the
    documented BUG(hank): a parked Lock does not watch its parent). -/
theorem parent_cancel_keeps_keys (s : State) (p : Nat) :
    (step s (.cancelParent p)).1.held = s.held ∧ (step s (.cancelParent p)).1.active = s.active ∧
    (step s (.cancelParent p)).1.parked = s.parked := by
  simp [step]

/-! ## The callers of the lock sources

    `LockCallers` models Libindex.Index, the per-updater goroutine and the GC
    section of updates.Manager.Run, and updater.Updater.fetchOne as brackets
    over the lock machine.  Tied to the code by the caller-level protocol lines
    of `./check C20` (real Libindex.Index / Manager.Run / Updater.Run calls). -/

open ClairModel.LockCallers in
/-- Every state of the caller machine reachable by any interleaving of calls
    beginning, lock events, context checks, bodies ending, releases, returns,
    parent cancellations and outsiders' lock operations satisfies the invariant. -/
theorem callers_reachable_inv (ops : List LockCallers.Op) :
    CInv (Sm.run LockCallers.step LockCallers.init ops) :=
  Sm.invariant_run (Inv := CInv) (fun _ op h => cinv_step h op) ops _ cinv_init

open ClairModel.LockCallers in
/-- Mutual exclusion at the callers: two calls that answer for a grant (granted,
    inside the body, or on the way out with the release pending) on the same key
    are the same call. -/
theorem caller_mutex (ops : List LockCallers.Op) (c₁ c₂ g₁ g₂ : Nat)
    (h₁ : ((Sm.run LockCallers.step LockCallers.init ops).pc c₁).gid? = some g₁)
    (h₂ : ((Sm.run LockCallers.step LockCallers.init ops).pc c₂).gid? = some g₂)
    (hk : (Sm.run LockCallers.step LockCallers.init ops).key c₁ =
          (Sm.run LockCallers.step LockCallers.init ops).key c₂) : c₁ = c₂ := by
  have hinv := callers_reachable_inv ops
  generalize Sm.run LockCallers.step LockCallers.init ops = s at h₁ h₂ hk hinv
  obtain ⟨ho₁, gr₁, hm₁, hg₁, hk₁, _⟩ := hinv.holdHas c₁ g₁ h₁
  obtain ⟨ho₂, gr₂, hm₂, hg₂, hk₂, _⟩ := hinv.holdHas c₂ g₂ h₂
  have : gr₁ = gr₂ := eq_of_nodup_map (·.key) _ hinv.lk.oneHolder hm₁ hm₂ (by simp [hk₁, hk₂, hk])
  subst this
  rw [hg₁] at hg₂; subst hg₂
  rw [ho₁] at ho₂
  exact Option.some.inj ho₂

open ClairModel.LockCallers in
/-- The bracket: a key that was handed to a call is held only while that call
    still has its release pending.  No exit path (context dead before, while or
    after waiting; body failed; body succeeded) leaves a grant behind. -/
theorem bracket_no_orphan (ops : List LockCallers.Op) (gr : Grant) (c : Nat)
    (hg : gr ∈ (Sm.run LockCallers.step LockCallers.init ops).lk.active)
    (ho : (Sm.run LockCallers.step LockCallers.init ops).owner gr.gid = some c) :
    ((Sm.run LockCallers.step LockCallers.init ops).pc c).gid? = some gr.gid :=
  (callers_reachable_inv ops).ownHeld gr hg c ho

open ClairModel.LockCallers in
/-- A call that has called `done`, or returned, holds nothing. -/
theorem returned_holds_nothing (ops : List LockCallers.Op) (c : Nat)
    (hpc : (Sm.run LockCallers.step LockCallers.init ops).pc c = .finished ∨
           (Sm.run LockCallers.step LockCallers.init ops).pc c = .returned) :
    ∀ gr ∈ (Sm.run LockCallers.step LockCallers.init ops).lk.active,
      (Sm.run LockCallers.step LockCallers.init ops).owner gr.gid ≠ some c := by
  intro gr hg ho
  have := bracket_no_orphan ops gr c hg ho
  rcases hpc with h | h <;> rw [h] at this <;> cases this

open ClairModel.LockCallers in
/-- The release a call owes is effective: it answers `released` (never a no-op),
    the call's key is free afterwards, and the context the body ran on is dead. -/
theorem done_releases (s : LockCallers.State) (hinv : CInv s) (c g : Nat)
    (hpc : s.pc c = .mustRelease g) :
    (LockCallers.step s (.done c)).2 = .lk .released ∧
    s.key c ∉ (LockCallers.step s (.done c)).1.lk.held ∧
    (LockCallers.step (LockCallers.step s (.done c)).1 (.bctx c)).2 = .ctxLive false := by
  obtain ⟨_, gr, hm, hg, hk, _⟩ := hinv.holdHas c g (by rw [hpc]; rfl)
  have hfind : s.lk.active.find? (fun x => x.gid == g) = some gr := by
    cases hf : s.lk.active.find? (fun x => x.gid == g) with
    | none =>
      have := List.find?_eq_none.1 hf gr hm
      simp [hg] at this
    | some gr' =>
      obtain ⟨hm', he⟩ := find_gid hf
      rw [eq_of_nodup_map (·.gid) _ hinv.lk.gidNodup hm' hm (by rw [he, hg])]
  refine ⟨?_, ?_, ?_⟩
  · simp only [LockCallers.step, hpc, Locks.step, hfind]
  · simp [LockCallers.step, hpc, Locks.step, hfind, hk]
  · simp only [LockCallers.step, hpc, upd_same]

open ClairModel.LockCallers in
/-- Calling `done` again (a second deferred call, a retry) changes nothing. -/
theorem done_repeat_noop (s : LockCallers.State) (c : Nat) (hpc : s.pc c = .finished ∨ s.pc c = .returned) :
    LockCallers.step s (.done c) = (s, .lk .noop) := by
  rcases hpc with h | h <;> simp only [LockCallers.step, h]

open ClairModel.LockCallers in
/-- A refused TryLock owes no release: its `done` touches no key. -/
theorem refused_done_touches_nothing (s : LockCallers.State) (c : Nat) (hpc : s.pc c = .refused) :
    (LockCallers.step s (.done c)).1.lk = s.lk ∧ (LockCallers.step s (.done c)).2 = .lk .noop := by
  simp only [LockCallers.step, hpc]; exact ⟨trivial, trivial⟩

open ClairModel.LockCallers in
/-- … and it may return without calling it at all (Manager.Run, fetchOne and the
    GC section do call it; nothing depends on that). -/
theorem refused_may_return (s : LockCallers.State) (c : Nat) (hpc : s.pc c = .refused) :
    (LockCallers.step s (.ret c)).2 = .retd 3 ∧ (LockCallers.step s (.ret c)).1.lk = s.lk := by
  simp only [LockCallers.step, hpc]; exact ⟨trivial, trivial⟩

open ClairModel.LockCallers in
/-- The caller looks at the context it was given: the body runs exactly when the
    parent context is not cancelled at that moment; otherwise the call is on its
    way out with the release pending. -/
theorem check_skips_iff_parent_dead (s : LockCallers.State) (c g : Nat) (hpc : s.pc c = .granted g) :
    ((LockCallers.step s (.check c)).2 = .skip ↔ parentDead s c = true) ∧
    ((LockCallers.step s (.check c)).1.pc c).gid? = some g := by
  simp only [LockCallers.step, hpc]
  split <;> simp_all [Pc.gid?]

open ClairModel.LockCallers in
/-- Hand-over between calls: when the call holding a key calls `done`, a call
    parked on that key is granted it at its re-test. -/
theorem caller_handover (s : LockCallers.State) (hinv : CInv s) (h w g : Nat)
    (hh : s.pc h = .mustRelease g) (hw : s.pc w = .waiting) (hk : s.key w = s.key h) :
    ∃ g', (LockCallers.step (LockCallers.step s (.done h)).1 (.retest w)).2 = .lk (.acquired g') := by
  have hinv' := cinv_step hinv (.done h)
  have hfree := (done_releases s hinv h g hh).2.1
  have hne : w ≠ h := by intro e; subst e; rw [hh] at hw; cases hw
  have hpcw : (LockCallers.step s (.done h)).1.pc w = .waiting := by
    simp only [LockCallers.step, hh, upd_other _ _ _ _ hne]; exact hw
  have hkw : (LockCallers.step s (.done h)).1.key w = s.key h := by
    simp only [LockCallers.step, hh]; exact hk
  generalize (LockCallers.step s (.done h)).1 = s' at hinv' hfree hpcw hkw
  obtain ⟨lk', hstep⟩ := waiting_free_retest hinv' w hpcw (by rw [hkw]; exact hfree)
  exact ⟨s'.lk.issued, by simp only [LockCallers.step, hpcw, hstep, settle]⟩

open ClairModel.LockCallers in
/-- Deadlock freedom: in every reachable state where only callers hold keys and
    some call is not over, some caller has a step that brings the whole set of
    calls strictly closer to completion (measure `mu`). -/
theorem callers_progress (ops : List LockCallers.Op)
    (ho : ownedAll (Sm.run LockCallers.step LockCallers.init ops))
    (hpos : 0 < mu (Sm.run LockCallers.step LockCallers.init ops)) :
    ∃ op, internal op = true ∧
      mu (LockCallers.step (Sm.run LockCallers.step LockCallers.init ops) op).1 <
      mu (Sm.run LockCallers.step LockCallers.init ops) :=
  progress (callers_reachable_inv ops) ho hpos

open ClairModel.LockCallers in
/-- No step of any caller ever moves the calls away from completion, so under a
    fair scheduler (every enabled decreasing step is eventually taken) every
    call returns. -/
theorem callers_never_regress (s : LockCallers.State) (op : LockCallers.Op) (hop : internal op = true) :
    mu (LockCallers.step s op).1 ≤ mu s :=
  mu_le_internal s op hop

open ClairModel.LockCallers in
/-- Liveness with hand-over, any number of calls and keys: from every reachable
    state where only callers hold keys the callers can, by their own steps
    alone, bring every call to its end; then no key is held and nobody is left
    answering for a grant. -/
theorem callers_drain (ops : List LockCallers.Op)
    (ho : ownedAll (Sm.run LockCallers.step LockCallers.init ops)) :
    ∃ more, (∀ op ∈ more, internal op = true) ∧
      mu (Sm.run LockCallers.step LockCallers.init (ops ++ more)) = 0 ∧
      (Sm.run LockCallers.step LockCallers.init (ops ++ more)).lk.held = [] ∧
      (Sm.run LockCallers.step LockCallers.init (ops ++ more)).lk.active = [] := by
  obtain ⟨more, hint, hz, hinv, ho'⟩ := drain _ _ (callers_reachable_inv ops) ho (Nat.le_refl _)
  refine ⟨more, hint, ?_⟩
  rw [Sm.run_append]
  obtain ⟨ha, hh⟩ := mu_zero_free hinv ho' hz
  exact ⟨hz, hh, ha⟩

open ClairModel.LockCallers in
/-- Lock operations by somebody who is not one of the modelled callers are plain
    lock-machine steps (on odd thread ids), so every theorem about `Locks.step`
    above applies to them unchanged; only a caller's own release function is
    out of an outsider's reach. -/
theorem raw_is_lock_step (s : LockCallers.State) (op : Locks.Op)
    (h : ∀ g, op = .release g → s.owner g = none) :
    LockCallers.step s (.raw op) =
      ({ s with lk := (Locks.step s.lk (rawOp op)).1 }, .lk (Locks.step s.lk (rawOp op)).2) := by
  cases op with
  | release g => simp [LockCallers.step, h g rfl, rawOp]
  | _ => rfl

/-- The history of seeded change C20-c3: call 0 (Index of manifest 7) is in its
    body, call 1 for the same manifest parks, its parent context is cancelled,
    call 0 finishes and releases, call 1 is granted the key on its dead context. -/
def abandonedWaiter : List LockCallers.Op :=
  [.begin .index 7 0, .acquire 0, .check 0, .begin .index 7 1, .acquire 1, .raw (.cancelParent 1),
   .leave 0 0, .done 0, .retest 1, .check 1, .done 1, .ret 0, .ret 1]

open ClairModel.LockCallers in
/-- A caller that registers its release only after looking at the context (the
    `stepLateDefer` machine: C20-c3, and the same slip in any other caller)
    leaves the key held with every call returned: the next call for that key
    parks and nobody is left to wake it. -/
theorem late_defer_counterexample :
    let s := Sm.run stepLateDefer LockCallers.init abandonedWaiter
    allReturned s = true ∧ s.lk.held = [7] ∧
    (stepLateDefer (stepLateDefer s (.begin .index 7 2)).1 (.acquire 2)).2 = .lk .parked := by
  decide

open ClairModel.LockCallers in
/-- The same history on the machine of the code as it is: everything returned, nothing held. -/
example :
    let s := Sm.run LockCallers.step LockCallers.init abandonedWaiter
    allReturned s = true ∧ s.lk.held = [] ∧ s.res 1 = 2 := by
  decide

open ClairModel.LockCallers in
/-- Non-vacuity of `caller_handover` / `callers_drain`: a reachable state with a
    call on its way out, a call parked on the same key, and only callers holding keys. -/
example :
    let s := Sm.run LockCallers.step LockCallers.init
      [.begin .index 7 0, .acquire 0, .check 0, .begin .index 7 1, .acquire 1, .leave 0 0]
    s.pc 0 = .mustRelease 0 ∧ s.pc 1 = .waiting ∧ s.key 1 = s.key 0 ∧
    (∀ gr ∈ s.lk.active, (s.owner gr.gid).isSome = true) := by
  decide

/-! ## Which lock source is used -/

open ClairModel.LockCallers in
/-- A lock source that is passed in is the one that is used, at every entry point. -/
theorem select_given_respected (e : Entry) : select e true = .given := rfl

open ClairModel.LockCallers in
/-- Without one: libindex.New refuses to build; libvuln.New and updater.New fall
    back to a fresh process-local lock source.  No entry point goes on with no
    lock source at all. -/
theorem select_default (e : Entry) :
    select e false = (match e with | .libindex => Sel.rejected | .libvuln => .localSrc | .updater => .localSrc) := by
  cases e <;> rfl

end ClairModel.Props.C20
