/-
  C20 — Process-local locks give mutual exclusion and always hand over.
  Property theorems only; helper lemmas live in Proofs/Locks.lean.
  The machine (Model/Locks.lean) is tied to libvuln/updates/locks.go and
  updater/locallocker.go by the hook-trace correspondence (`./check C20`).
-/
import ClairModel.Proofs.Locks

-- every variable of a property statement is bound explicitly: a misspelt name is an error, not a new variable
set_option autoImplicit false

namespace ClairModel.Props.C20
open ClairModel ClairModel.Locks

/-- Every state reachable by any sequence of Lock / TryLock / re-test /
    release (including repeated releases) / parent cancellation satisfies the
    invariant. -/
theorem reachable_inv (ops : List Op) : Inv (Sm.run step init ops) :=
  Sm.invariant_run (Inv := Inv) (fun _ op h => inv_step h op) ops init inv_init

/-- Mutual exclusion: in every reachable state two live grants on one key are
    the same grant. -/
theorem mutex (ops : List Op) (g₁ g₂ : Grant)
    (h₁ : g₁ ∈ (Sm.run step init ops).active) (h₂ : g₂ ∈ (Sm.run step init ops).active)
    (hk : g₁.key = g₂.key) : g₁ = g₂ :=
  eq_of_nodup_map (·.key) _ (reachable_inv ops).oneHolder h₁ h₂ hk

/-- The map of held keys is exactly the set of keys with a live holder. -/
theorem held_iff_holder (ops : List Op) (k : Nat) :
    k ∈ (Sm.run step init ops).held ↔ ∃ g ∈ (Sm.run step init ops).active, g.key = k := by
  rw [(reachable_inv ops).heldIff k, List.mem_map]

/-- A non-blocking attempt on a held key is a single step, changes nothing and
    returns the already-cancelled context (`busy`). -/
theorem trylock_nonblocking_held (s : State) (k p : Nat) (h : k ∈ s.held) :
    step s (.tryLock k p) = (s, .busy) := by
  simp [step, h]

/-- A non-blocking attempt on a free key is granted with a live context. -/
theorem trylock_free_granted (s : State) (k p : Nat) (h : k ∉ s.held) (hp : p ∉ s.deadParents) :
    (step s (.tryLock k p)).2 = .acquired s.issued ∧
    ctxLive (step s (.tryLock k p)).1 s.issued = true := by
  simp [step, h, acquire, ctxLive, hp]

/-- No lost wake-up: in every reachable state a parked goroutine that has not
    been made runnable waits for a key that is really held. -/
theorem no_lost_wakeup (ops : List Op) (w : Waiter)
    (hw : w ∈ (Sm.run step init ops).parked) (hr : w.runnable = false) :
    w.key ∈ (Sm.run step init ops).held :=
  (reachable_inv ops).noLostWake w hw hr

/-- Release makes every parked goroutine runnable (Broadcast). -/
theorem release_wakes_all (s : State) (g : Nat) (gr : Grant)
    (hg : s.active.find? (fun x => x.gid == g) = some gr) :
    ∀ w ∈ (step s (.release g)).1.parked, w.runnable = true := by
  intro w hw
  simp only [step, hg] at hw
  rcases List.mem_map.1 hw with ⟨w', _, rfl⟩
  rfl

/-- Hand-over: when the holder of `k` releases, the first waiter for `k` that
    re-tests is granted the key. -/
theorem handover (s : State) (hinv : Inv s) (gr : Grant) (w : Waiter)
    (hg : gr ∈ s.active) (hw : w ∈ s.parked) (hk : w.key = gr.key) :
    ∃ g', (step (step s (.release gr.gid)).1 (.retest w.tid)).2 = .acquired g' := by
  have hfind : s.active.find? (fun x => x.gid == gr.gid) = some gr := by
    cases hf : s.active.find? (fun x => x.gid == gr.gid) with
    | none =>
      have := List.find?_eq_none.1 hf gr hg
      simp at this
    | some gr' =>
      obtain ⟨hm, he⟩ := find_gid hf
      rw [eq_of_nodup_map (·.gid) _ hinv.gidNodup hm hg he]
  have hinv' := inv_step hinv (.release gr.gid)
  simp only [step, hfind] at hinv' ⊢
  -- the waiter, now runnable, is found by tid
  have hw' : ({ w with runnable := true } : Waiter) ∈ s.parked.map fun w => { w with runnable := true } :=
    List.mem_map.2 ⟨w, hw, rfl⟩
  cases hf : (s.parked.map fun w => ({ w with runnable := true } : Waiter)).find?
      (fun w' => w'.tid == w.tid && w'.runnable) with
  | none =>
    have := List.find?_eq_none.1 hf _ hw'
    simp at this
  | some w'' =>
    have hm := List.mem_of_find?_eq_some hf
    have ht : w''.tid = w.tid := by have := List.find?_some hf; simp at this; exact this.1
    have hww : w'' = { w with runnable := true } :=
      eq_of_nodup_map (·.tid) _ hinv'.tidNodup hm hw' (by simp [ht])
    have hnot : w''.key ∉ s.held.filter (fun k => !(k == gr.key)) := by
      simp [hww, hk]
    simp only [hnot, if_false, acquire]
    exact ⟨_, rfl⟩

/-- Releasing cancels the holder's context: the context of a released grant is dead. -/
theorem find_after_release (s : State) (g : Nat) :
    (step s (.release g)).1.active.find? (fun gr => gr.gid == g) = none := by
  simp only [step]
  split
  · rename_i hf; exact hf
  · apply List.find?_eq_none.2
    intro x hx
    have := (List.mem_filter.1 hx).2
    simpa using this

theorem release_cancels_context (s : State) (g : Nat) :
    ctxLive (step s (.release g)).1 g = false := by
  simp only [ctxLive, find_after_release]

/-- Release is safe to repeat: the second call is a no-op. -/
theorem release_idempotent (s : State) (g : Nat) :
    step (step s (.release g)).1 (.release g) = ((step s (.release g)).1, .noop) := by
  have := find_after_release s g
  generalize (step s (.release g)).1 = s' at this ⊢
  simp only [step, this]

/-- Different keys never block each other: an operation on key `k` leaves the
    held/free status of every other key untouched. -/
theorem keys_independent_trylock (s : State) (k p k' : Nat) (hne : k' ≠ k) :
    (k' ∈ (step s (.tryLock k p)).1.held ↔ k' ∈ s.held) := by
  simp only [step]
  split
  · rfl
  · simp [acquire, hne]

theorem keys_independent_release (s : State) (hinv : Inv s) (gr : Grant) (hg : gr ∈ s.active)
    (k' : Nat) (hne : k' ≠ gr.key) :
    (k' ∈ (step s (.release gr.gid)).1.held ↔ k' ∈ s.held) := by
  simp only [step]
  split
  · rfl
  · rename_i gr' hf
    obtain ⟨hm, he⟩ := find_gid hf
    have : gr' = gr := eq_of_nodup_map (·.gid) _ hinv.gidNodup hm hg he
    subst this
    simp [hne]


/-- A blocking attempt on a free key is granted at once whatever other keys are held. -/
theorem lock_free_granted (s : State) (t k p : Nat) (hk : k ∉ s.held)
    (ht : (s.parked.any fun w => w.tid == t) = false) :
    (step s (.lock t k p)).2 = .acquired s.issued := by
  simp [step, hk, ht, acquire]

/-- The defect that was repaired (`fix:` commit, sync.Once): with the old
    release closure a repeated release by a former holder frees the key under
    the current holder, and a third party is granted it — two live holders. -/
theorem double_release_counterexample :
    let keyOf : Nat → Option Nat := fun _ => some 7
    let ops : List Op := [.tryLock 7 0, .release 0, .tryLock 7 0, .release 0, .tryLock 7 0]
    ((Sm.run (stepNoOnce keyOf) init ops).active.map (·.key)) = [7, 7] := by
  decide

/-- The same history on the repaired machine keeps one holder. -/
example :
    ((Sm.run step init [.tryLock 7 0, .release 0, .tryLock 7 0, .release 0, .tryLock 7 0]).active.map (·.key)) = [7] := by
  decide

/-- Non-vacuity: a reachable state with a holder and two parked waiters meets
    the hypotheses of `handover`. -/
example :
    let s := Sm.run step init [.tryLock 1 0, .lock 10 1 0, .lock 11 1 0, .tryLock 2 0]
    Inv s ∧ (∃ gr ∈ s.active, ∃ w ∈ s.parked, w.key = gr.key) := by
  refine ⟨reachable_inv _, ?_⟩
  decide

end ClairModel.Props.C20
