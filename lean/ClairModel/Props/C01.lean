/-
  C01 — Index report equals the contents of the final image.
  Property theorems only; helper lemmas live in Proofs/Coalesce.lean and
  Proofs/LayerFS.lean.  The models (Model/Coalesce.lean, Model/LayerFS.lean)
  are tied to the Go code by the correspondence run of `./check C01`
  (real coalescers / MergeSR / Resolver / fileIsDeleted on generated
  artifacts) and by the end-to-end oracle (real scanners on generated layer
  histories vs. the flattened image).
-/
import ClairModel.Proofs.Coalesce
import ClairModel.Proofs.LayerFS
import ClairModel.Proofs.MergeOrder
import ClairModel.Proofs.DistFS

-- every variable of a property statement is bound explicitly: a misspelt name is an error, not a new variable
set_option autoImplicit false

namespace ClairModel.Props.C01
open ClairModel ClairModel.Coalesce ClairModel.LayerFS

/-! ## Part 1 — the finished report is well-formed (all artifact lists) -/

/-- No coalescer (linux, rhel, python/java/ruby/nodejs, gobin, whiteout) ever
    returns an error or dereferences nil, whatever the per-layer artifacts are:
    `PackageSearcher.Search` always finds the package it is asked about,
    `DistSearcher.Search` is always called in bounds, and the rhel coalescer's
    `dbs[db].environments[id]` lookup always hits. -/
theorem coalescers_never_fail (k : Kind) (arts : List Layer) : ∃ r, coalesceKind k arts = .ok r := by
  obtain ⟨r, h, _⟩ := coalesceKind_ok (S := False) k arts (fun h => h.elim)
  exact ⟨r, h⟩

/-- `report_wellformed`, per coalescer, for ALL artifact lists.  Every reported package is
    stored under its own id and has at least one environment; for every environment the
    layer named by `IntroducedIn` is one of the given layers and really holds a package in
    the environment's database with the name and version of an artifact package carrying
    this id; the distribution id is empty (no distribution) or resolves in the report; every
    repository id resolves in the report or is the empty string (the empty string is written
    by the gobin coalescer only, see `gobin_empty_repo_id_counterexample`). -/
theorem report_wellformed (k : Kind) (arts : List Layer) (r : Report) (h : coalesceKind k arts = .ok r)
    (id : String) (p : Pkg) (hp : aget id r.pkgs = some p) :
    p.id = id ∧ ∃ es, aget id r.envs = some es ∧ es ≠ [] ∧ ∀ e ∈ es,
      (∃ a ∈ arts, a.hash = e.intro ∧ ∃ q ∈ a.pkgs, q.db = e.db ∧
        ∃ p' ∈ allPkgs arts, p'.id = id ∧ p'.db = e.db ∧ p'.name = q.name ∧ p'.version = q.version) ∧
      (e.distId = "" ∨ (aget e.distId r.dists).isSome) ∧
      ∀ rid ∈ e.repoIds, rid = "" ∨ (aget rid r.repos).isSome := by
  obtain ⟨r', h', hinv⟩ := coalesceKind_ok (S := False) k arts (fun h => h.elim)
  rw [h] at h'; cases h'
  obtain ⟨hid, es, hes, hne⟩ := hinv.pkgEnv id p (mem_of_aget hp)
  refine ⟨hid, es, hes, hne, fun e he => ?_⟩
  obtain ⟨hb, hr⟩ := (hinv.envOk id es (mem_of_aget hes)).2 e he
  exact ⟨hb, hr.1, fun rid hrid => (hr.2 rid hrid).imp (·.2) (fun x => x)⟩

/-- Strict form: every repository id an environment mentions resolves inside the same report.
    Holds for every coalescer; for gobin under the contract of its scanner (a layer with `go:`
    packages carries the go repository — `LayerScanner` stores `DefaultRepository` whenever the
    gobin scanner found a package). -/
theorem report_repository_ids_resolve (k : Kind) (arts : List Layer) (r : Report) (h : coalesceKind k arts = .ok r)
    (hgo : k = .gobin → GoRepoPresent arts)
    (id : String) (es : List Env) (hes : aget id r.envs = some es) (e : Env) (he : e ∈ es) :
    ∀ rid ∈ e.repoIds, (aget rid r.repos).isSome := by
  obtain ⟨r', h', hinv⟩ := coalesceKind_ok (S := True) k arts (fun _ => hgo)
  rw [h] at h'; cases h'
  intro rid hrid
  rcases ((hinv.envOk id es (mem_of_aget hes)).2 e he).2.2 rid hrid with ⟨hn, _⟩ | h1
  · exact absurd trivial hn
  · exact h1

/-- Without that contract the strict form is false for the gobin coalescer: a layer with a
    `go:` package and no go repository yields the repository id "" which resolves nowhere. -/
theorem gobin_empty_repo_id_counterexample :
    ∃ arts r, coalesceKind .gobin arts = .ok r ∧
      ∃ id es e, aget id r.envs = some es ∧ e ∈ es ∧ ∃ rid ∈ e.repoIds, (aget rid r.repos).isSome = false := by
  refine ⟨[{ hash := "L0", pkgs := [{ id := "1", name := "m", version := "v1", kind := "binary", arch := "", src := "", db := "go:usr/bin/app", fp := "usr/bin/app" }] }],
    _, rfl, "1", _, _, rfl, List.mem_cons_self, "", List.mem_cons_self, rfl⟩

/-- Environments exist only for reported packages. -/
theorem report_envs_belong_to_packages (k : Kind) (arts : List Layer) (r : Report) (h : coalesceKind k arts = .ok r)
    (id : String) (es : List Env) (hes : aget id r.envs = some es) : (aget id r.pkgs).isSome := by
  obtain ⟨r', h', hinv⟩ := coalesceKind_ok (S := False) k arts (fun h => h.elim)
  rw [h] at h'; cases h'
  exact (hinv.envOk id es (mem_of_aget hes)).1

/-- For the rhel, language and gobin coalescers the introducing layer holds a package with
    the reported *id* in the environment's database. -/
theorem report_introduced_in_holds_id (k : Kind) (hk : k = .rhel ∨ k = .lang ∨ k = .gobin)
    (arts : List Layer) (r : Report) (h : coalesceKind k arts = .ok r)
    (id : String) (es : List Env) (hes : aget id r.envs = some es) (e : Env) (he : e ∈ es) :
    ∃ a ∈ arts, a.hash = e.intro ∧ ∃ q ∈ a.pkgs, q.db = e.db ∧ q.id = id := by
  rcases hk with hk | hk | hk <;> subst hk
  · obtain ⟨r', h', hinv, _⟩ := rhelCoalesce_ok (S := False) arts
    simp only [coalesceKind] at h; rw [h] at h'; cases h'
    exact ((hinv.envOk id es (mem_of_aget hes)).2 e he).1
  · obtain ⟨r', h', hinv, _⟩ := langCoalesce_ok (S := False) arts
    simp only [coalesceKind] at h; rw [h] at h'; cases h'
    exact ((hinv.envOk id es (mem_of_aget hes)).2 e he).1
  · obtain ⟨r', h', hinv, _⟩ := gobinCoalesce_ok (S := False) arts (fun h => h.elim)
    simp only [coalesceKind] at h; rw [h] at h'; cases h'
    exact ((hinv.envOk id es (mem_of_aget hes)).2 e he).1

/-- linux: `IntroducedIn` is the *first* layer holding a package with the (name, database,
    version) of the reported one (the searcher's struct key, after the fix of the
    concatenated string key). -/
theorem linux_introduced_in_is_first_layer (arts : List Layer) (r : Report) (h : linuxCoalesce arts = .ok r)
    (id : String) (es : List Env) (hes : aget id r.envs = some es) (e : Env) (he : e ∈ es) :
    ∃ p ∈ allPkgs arts, p.id = id ∧ p.db = e.db ∧
      ∃ pre a post, arts = pre ++ a :: post ∧ a.hash = e.intro ∧ a.pkgs.any (sameKey p) = true ∧
        ∀ b ∈ pre, b.pkgs.any (sameKey p) = false := by
  unfold linuxCoalesce at h
  rcases linuxFill_from _ _ _ h id es hes e he with ⟨es0, h0, _⟩ | ⟨db, p, hm, hid, henv⟩
  · simp at h0
  · obtain ⟨hp, hdb⟩ := linux_entries_ok db p hm
    obtain ⟨e', he', hedb, _, hfirst, _⟩ := linuxEnv_spec (db := db) hp
    rw [henv] at he'; cases he'
    exact ⟨p, hp, hid, by rw [hedb, hdb], hfirst⟩

/-- The concatenated key `Name + PackageDB + Version` the searcher used before the fix is not
    injective: the two packages of the recorded witness get the same key. -/
theorem keyify_concat_collides : "a" ++ "bc" ++ "d" = "ab" ++ "c" ++ "d" ∧ ("a", "bc", "d") ≠ ("ab", "c", "d") := by
  decide

/-! ## Part 2 — which packages the coalescers keep -/

/-- `linux_newest_db_wins`: the linux coalescer reports package `id` for database `d`
    exactly when the newest layer whose artifacts mention `d` holds a package with that id
    recorded in `d`. -/
theorem linux_newest_db_wins (arts : List Layer) (r : Report) (h : linuxCoalesce arts = .ok r)
    (d id : String) :
    (∃ es, aget id r.envs = some es ∧ ∃ e ∈ es, e.db = d) ↔
      ∃ a, lastMention d arts = some a ∧ ∃ p ∈ a.pkgs, p.db = d ∧ p.id = id := by
  unfold linuxCoalesce at h
  constructor
  · rintro ⟨es, hes, e, he, hd⟩
    rcases linuxFill_from _ _ _ h id es hes e he with ⟨es0, h0, _⟩ | ⟨db, p, hm, hid, henv⟩
    · simp at h0
    · obtain ⟨a, hl, hp, hdb⟩ := mem_linux_entries.1 hm
      have : db = d := by rw [← hd]; exact (linuxEnv_db henv).1.symm
      subst this
      exact ⟨a, hl, p, hp, hdb, hid⟩
  · rintro ⟨a, hl, p, hp, hdb, hid⟩
    have hm : (d, p) ∈ dbEntries (linuxDbs arts) := mem_linux_entries.2 ⟨a, hl, hp, hdb⟩
    obtain ⟨es, hes, e, he, hd⟩ := linuxFill_has _ _ _ h d p hm
    exact ⟨es, by rw [← hid]; exact hes, e, he, hd⟩

/-- `lastMention` really is the newest mentioning layer: nothing after it mentions `d`. -/
theorem lastMention_is_newest (d : String) (arts : List Layer) (a : Layer) (h : lastMention d arts = some a) :
    ∃ pre post, arts = pre ++ a :: post ∧ mentions d a = true ∧ ∀ b ∈ post, mentions d b = false :=
  lastMention_newest d arts a h

/-- `rhel_last_layer_wins`: the rhel coalescer reports exactly the ids found in the last
    layer that has any package ("a package survives only if still present in the last
    package-bearing layer"). -/
theorem rhel_last_layer_wins (arts : List Layer) (r : Report) (h : rhelCoalesce arts = .ok r) (id : String) :
    (aget id r.pkgs).isSome ↔ ∃ q ∈ lastPkgs arts, q.id = id :=
  rhelCoalesce_ids arts r h id

/-- … and, database by database: every environment of a reported id names a database in which the last
    package-bearing layer holds the package (a package that moved to another database is not reported under
    the old one). -/
theorem rhel_last_layer_wins_with_database (arts : List Layer) (r : Report) (h : rhelCoalesce arts = .ok r)
    (id : String) (es : List Env) (hes : aget id r.envs = some es) (e : Env) (he : e ∈ es) :
    ∃ q ∈ lastPkgs arts, q.id = id ∧ q.db = e.db :=
  rhelCoalesce_env_in_last h hes he

/-! ## Part 3 — the whole coalesce step: coalescers, MergeSR, whiteout resolver, IndexRecords -/

/-- `report_wellformed` for `MergeSR ∘ Resolve`, for ALL per-ecosystem artifact lists and
    layer lists: the coalesce step of the controller never fails (in particular the resolver
    never indexes an empty environment list), every package of the finished report has at
    least one environment, each `IntroducedIn` names a layer of some ecosystem's artifacts that
    holds the package, and the distribution / repository ids resolve in the finished report.
    When every ecosystem's artifact list is packed per manifest layer (as the controller does)
    the introducing layer belongs to the manifest. -/
theorem index_report_wellformed (layers : List String) (ecos : List (Kind × List Layer)) :
    ∃ r, indexCoalesce layers ecos = some r ∧
      ∀ id p, aget id r.pkgs = some p →
        p.id = id ∧ ∃ es, aget id r.envs = some es ∧ es ≠ [] ∧ ∀ e ∈ es,
          (∃ ka ∈ ecos, ∃ a ∈ ka.2, a.hash = e.intro ∧ ∃ q ∈ a.pkgs, q.db = e.db ∧
            ∃ p' ∈ allPkgs ka.2, p'.id = id ∧ p'.db = e.db ∧ p'.name = q.name ∧ p'.version = q.version) ∧
          ((∀ ka ∈ ecos, ka.2.map (·.hash) = layers) → e.intro ∈ layers) ∧
          (e.distId = "" ∨ (aget e.distId r.dists).isSome) ∧
          ∀ rid ∈ e.repoIds, rid = "" ∨ (aget rid r.repos).isSome := by
  obtain ⟨r, h, hinv⟩ := indexCoalesce_ok (S := False) layers ecos (fun h => h.elim)
  refine ⟨r, h, fun id p hp => ?_⟩
  obtain ⟨hid, es, hes, hne⟩ := hinv.pkgEnv id p (mem_of_aget hp)
  refine ⟨hid, es, hes, hne, fun e he => ?_⟩
  obtain ⟨⟨ka, hka, a, ha, hh, rest⟩, hr⟩ := (hinv.envOk id es (mem_of_aget hes)).2 e he
  refine ⟨⟨ka, hka, a, ha, hh, rest⟩, ?_, hr.1, fun rid hrid => (hr.2 rid hrid).imp (·.2) (fun x => x)⟩
  intro hl
  rw [← hl ka hka, ← hh]
  exact List.mem_map.2 ⟨a, ha, rfl⟩

/-- Strict repository resolution for the finished report, under the gobin scanner contract. -/
theorem index_repository_ids_resolve (layers : List String) (ecos : List (Kind × List Layer))
    (hgo : ∀ ka ∈ ecos, ka.1 = .gobin → GoRepoPresent ka.2)
    (r : Report) (h : indexCoalesce layers ecos = some r)
    (id : String) (es : List Env) (hes : aget id r.envs = some es) (e : Env) (he : e ∈ es) :
    ∀ rid ∈ e.repoIds, (aget rid r.repos).isSome := by
  obtain ⟨r', h', hinv⟩ := indexCoalesce_ok (S := True) layers ecos (fun _ => hgo)
  rw [h] at h'; cases h'
  intro rid hrid
  rcases ((hinv.envOk id es (mem_of_aget hes)).2 e he).2.2 rid hrid with ⟨hn, _⟩ | h1
  · exact absurd trivial hn
  · exact h1

/-- `IndexRecords` of the finished report: every record's package is a reported package with an
    environment `e` such that the record's distribution is non-nil whenever `e` names one, and
    its repository is the lookup of one of `e`'s repository ids (non-nil under the gobin
    scanner contract). -/
theorem index_records_resolve (layers : List String) (ecos : List (Kind × List Layer))
    (hgo : ∀ ka ∈ ecos, ka.1 = .gobin → GoRepoPresent ka.2)
    (r : Report) (h : indexCoalesce layers ecos = some r) (x : Record) (hx : x ∈ indexRecords r) :
    ∃ id es e, (id, x.pkg) ∈ r.pkgs ∧ aget id r.envs = some es ∧ e ∈ es ∧
      (e.distId ≠ "" → x.dist.isSome) ∧ (e.repoIds = [] → x.repo = none) ∧
      (e.repoIds ≠ [] → x.repo.isSome) := by
  obtain ⟨r', h', hinv⟩ := indexCoalesce_ok (S := True) layers ecos (fun _ => hgo)
  rw [h] at h'; cases h'
  obtain ⟨id, es, e, h1, h2, h3, h4, h5, h6⟩ := indexRecords_spec hinv x hx
  refine ⟨id, es, e, h1, h2, h3, h4, h5, fun hne => ?_⟩
  obtain ⟨_, _, _, h7⟩ := h6 hne
  exact h7 trivial

/-- `IndexRecords` is complete, for ALL reports: every (package, environment) yields a record per repository
    id of the environment — or one record without repository when the environment names none — carrying the
    lookups of the environment's distribution and of that repository id. -/
theorem index_records_complete (r : Report) (id : String) (p : Pkg) (hp : (id, p) ∈ r.pkgs)
    (e : Env) (he : e ∈ (aget p.id r.envs).getD []) :
    (e.repoIds = [] → { pkg := p, dist := aget e.distId r.dists, repo := none } ∈ indexRecords r) ∧
    ∀ rid ∈ e.repoIds, { pkg := p, dist := aget e.distId r.dists, repo := aget rid r.repos } ∈ indexRecords r := by
  constructor
  · intro hnil
    simp only [indexRecords, List.mem_flatMap]
    exact ⟨(id, p), hp, e, he, by simp [envRecords, hnil]⟩
  · intro rid hrid
    simp only [indexRecords, List.mem_flatMap]
    refine ⟨(id, p), hp, e, he, ?_⟩
    have hne : e.repoIds.isEmpty = false := by
      cases h : e.repoIds with
      | nil => rw [h] at hrid; simp at hrid
      | cons x xs => rfl
    simp only [envRecords, hne, Bool.false_eq_true, if_false, List.mem_map]
    exact ⟨rid, hrid, rfl⟩

/-- The resolver's `ir.Environments[pkgID][0]` is an index-out-of-range panic on a report with a
    package that has no environment: well-formedness of the coalescers' output is what keeps
    `Resolve` total. -/
theorem resolver_needs_environments_counterexample :
    resolve ["L0"] { pkgs := [("1", { id := "1", name := "n", version := "v", kind := "", arch := "", src := "", db := "d", fp := "" })] } = none := by
  rfl

/-! ## Part 4 — index(layers) = scan(flatten(layers))

  `indexModel S layers`: every layer scanned in isolation by the scanners `S` (OS package
  databases — one ecosystem each, coalesced by linux.Coalescer (`osDbs`) or rhel.Coalescer
  (`rhelDbs`) —, language package files, whiteout files), the per-ecosystem coalescers, MergeSR,
  the whiteout resolver.  `scanImage S layers`: the same scanners on the single file system
  `flatten layers` (OCI whiteout / opaque semantics).

  Full statement (FALSE of the unchanged code, see the counterexamples below and
  findings/C01.txt):

      ∀ S layers, ∃ r, indexModel S layers = some r ∧
        ∀ id db, reportHas r id db = imageHas S layers id db
-/

/-- `whiteout/resolver.go fileIsDeleted` is the OCI whiteout rule, for ALL paths: for a whiteout
    entry `w` (base name starting with `.wh.`) other than an opaque marker at the root of the
    layer, `fileIsDeleted fp w` holds exactly when `w` covers `fp` — `.wh.x` covers `x` and
    everything below it, `.wh..wh..opq` covers everything below its directory (and not the
    directory itself). -/
theorem fileIsDeleted_is_oci_cover (fp w : String) (hw : isWhiteout w = true)
    (hroot : ¬ (base w = opqName ∧ dir w = ".")) : fileIsDeleted fp w = covers w fp :=
  fileIsDeleted_eq_covers fp w hw hroot

/-- A package without `Filepath` (every OS package) is never removed by the resolver. -/
theorem resolver_keeps_packages_without_filepath (w : String) : fileIsDeleted "" w = false :=
  fileIsDeleted_nofp w

/-- `index_eq_flatten_partial`: for ALL scanners (any number of OS package databases under
    linux.Coalescer or rhel.Coalescer, any number of file ecosystems under the python|java|ruby|nodejs
    coalescers or under gobin's) and ALL layer stacks satisfying the decidable predicate `Tame`
    (Proofs/LayerFS.lean: layers with one digest have the same entries — duplicate layers are allowed —;
    a path once per layer; at most one whiteout per layer; no opaque marker at the root of a layer;
    package files hidden by whiteouts only; OS databases never hidden and never empty; no package file
    overwritten with other packages; one path and database per file package id; OS, and the different file
    ecosystems', ids apart; `go:` databases for Go executables) indexing succeeds and the finished report
    lists package `id` with package database `db` exactly when the scanners find it on the flattened image. -/
theorem index_eq_flatten_partial (S : Scanners) (layers : List FSLayer) (ht : Tame S layers) :
    ∃ r, indexModel S layers = some r ∧ ∀ id db, reportHas r id db = imageHas S layers id db := by
  obtain ⟨r, hr, h⟩ := index_eq_flatten ht
  refine ⟨r, hr, fun id db => ?_⟩
  have := h id db
  rw [← reportHas_iff, ← imageHas_iff] at this
  cases h1 : reportHas r id db <;> cases h2 : imageHas S layers id db <;> simp_all

set_option maxRecDepth 10000 in
/-- The hypothesis is satisfiable on a non-trivial history: install (OS database, python and
    nodejs packages, a Go executable), upgrade with the old files whited out, removal, the executable
    moved and rebuilt, an unrelated file, a layer applied a second time. -/
theorem tame_example : Tame Ex.S0 Ex.tameStack := by decide

set_option maxRecDepth 10000 in
example : imageHas Ex.S0 Ex.tameStack "requests-2" "lang:site/requests-2.dist-info/METADATA" = true ∧
    imageHas Ex.S0 Ex.tameStack "requests-1" "lang:site/requests-1.dist-info/METADATA" = false ∧
    imageHas Ex.S0 Ex.tameStack "curl-7" Ex.dpkgDB = true ∧
    imageHas Ex.S0 Ex.tameStack "left-pad-1" "lang:app/node_modules/left-pad/package.json" = false ∧
    imageHas Ex.S0 Ex.tameStack "dep-1b" "go:usr/local/bin/app" = true ∧
    imageHas Ex.S0 Ex.tameStack "dep-1" "go:usr/bin/app" = false := by decide

set_option maxRecDepth 10000 in
/-- … and with the OS database under the rhel coalescer. -/
theorem tame_example_rhel : Tame Ex.S1 Ex.rhelStack := by decide

set_option maxRecDepth 10000 in
example : imageHas Ex.S1 Ex.rhelStack "bash-2" Ex.rpmDB = true ∧ imageHas Ex.S1 Ex.rhelStack "bash-1" Ex.rpmDB = false ∧
    imageHas Ex.S1 Ex.rhelStack "requests-1" "lang:site/requests-1.dist-info/METADATA" = false := by decide

set_option maxRecDepth 10000 in
/-- clause `oneWhiteout` (finding whiteout-one-per-layer): two whiteouts in one layer, only the
    last reaches the resolver; `requests-1` stays reported although its file is deleted. -/
theorem index_eq_flatten_two_whiteouts_counterexample :
    Ex.reportedNotInImage Ex.S0 Ex.twoWhiteouts "requests-1" "lang:a/x" := by decide

set_option maxRecDepth 10000 in
/-- clause `oneWhiteout`, second half: a directory named `.wh.x` is reported by the whiteout scanner (it looks
    at names only) and deletes the package from the report; as a layer entry it is an ordinary directory. -/
theorem index_eq_flatten_whiteout_directory_counterexample :
    Ex.inImageNotReported Ex.S0 Ex.whiteoutDirectory "requests-1" "lang:a/x" := by decide

set_option maxRecDepth 10000 in
/-- clause `noOverwrite` (finding lang-overwrite-in-place): the overwritten package stays reported. -/
theorem index_eq_flatten_overwrite_counterexample :
    Ex.reportedNotInImage Ex.S0 Ex.overwritten "left-pad-1" "lang:app/node_modules/left-pad/package.json" := by decide

set_option maxRecDepth 10000 in
/-- clause `onePath` (finding lang-same-package-two-paths): one environment per id survives. -/
theorem index_eq_flatten_two_paths_counterexample :
    Ex.inImageNotReported Ex.S0 Ex.twoPaths "requests-1" "lang:a/m" := by decide

set_option maxRecDepth 10000 in
/-- clause `osDb` (finding os-db-removed): the database is whited out, its packages stay reported. -/
theorem index_eq_flatten_db_removed_counterexample :
    Ex.reportedNotInImage Ex.S0 Ex.dbRemoved "bash-1" Ex.dpkgDB := by decide

set_option maxRecDepth 10000 in
/-- clause `osDb` (finding os-db-emptied): the newest database lists nothing, the old packages stay reported. -/
theorem index_eq_flatten_db_emptied_counterexample :
    Ex.reportedNotInImage Ex.S0 Ex.dbEmptied "bash-1" Ex.dpkgDB := by decide

set_option maxRecDepth 10000 in
/-- clause `disjoint`: an OS package and a language package under one id — deleting the language
    file drops the OS package from the report too. -/
theorem index_eq_flatten_shared_id_counterexample :
    Ex.inImageNotReported Ex.S0 Ex.sharedId "X" Ex.dpkgDB := by decide

set_option maxRecDepth 10000 in
/-- clause `noRootOpaque`: `fileIsDeleted` ignores an opaque marker at the root of a layer. -/
theorem index_eq_flatten_root_opaque_counterexample :
    Ex.reportedNotInImage Ex.S0 Ex.rootOpaque "requests-1" "lang:a/x" := by decide

set_option maxRecDepth 10000 in
/-- clause `hidesSpec`: a regular file replacing the package's directory deletes the package
    without any whiteout; the resolver only looks at whiteouts. -/
theorem index_eq_flatten_dir_replaced_counterexample :
    Ex.reportedNotInImage Ex.S0 Ex.dirReplaced "requests-1" "lang:a/x" := by decide

set_option maxRecDepth 10000 in
/-- clause `digests`: two different layers under one digest — `layerSorter` keys layers by digest, so the
    whiteout of the second is not "after" the package of the first. -/
theorem index_eq_flatten_digest_collision_counterexample :
    Ex.reportedNotInImage Ex.S0 Ex.digestCollision "requests-1" "lang:a/x" := by decide

set_option maxRecDepth 10000 in
/-- clause `paths`: a layer that lists one path twice (the flattened image holds one file per path, a scan of
    the layer's entries sees both; pkg/tarfs — property C11 — hands the scanners one entry per path). -/
theorem index_eq_flatten_path_twice_counterexample :
    Ex.reportedNotInImage Ex.S0 Ex.pathTwice "requests-2" "lang:a/x" := by decide

set_option maxRecDepth 10000 in
/-- clause `noOverwrite`, Go form: an executable rebuilt in place; the old build's dependency stays reported. -/
theorem index_eq_flatten_go_rebuilt_counterexample :
    Ex.reportedNotInImage Ex.S0 Ex.goRebuilt "dep-1" "go:usr/bin/app" := by decide

set_option maxRecDepth 10000 in
/-- clause `onePath`, Go form (finding gobin-shared-stdlib): two executables built with one toolchain share the
    package `stdlib`; the gobin coalescer keeps one environment per id, so one executable's goes missing. -/
theorem index_eq_flatten_go_shared_stdlib_counterexample :
    Ex.inImageNotReported Ex.S0 Ex.twoGoBinaries "stdlib-1.21" "go:usr/bin/app" := by decide

set_option maxRecDepth 10000 in
/-- … and when the executable whose environment survived is deleted later, the shared package vanishes from the
    report although the other executable is still in the image. -/
theorem index_eq_flatten_go_shared_stdlib_deleted_counterexample :
    Ex.inImageNotReported Ex.S0 Ex.twoGoBinariesOneDeleted "stdlib-1.21" "go:usr/bin/app" := by decide

set_option maxRecDepth 10000 in
/-- clause `goDb`: the gobin coalescer drops every package whose database does not start with `go:`. -/
theorem index_eq_flatten_go_db_prefix_counterexample :
    Ex.inImageNotReported Ex.S0 Ex.goOddDb "odd-1" "exe:usr/bin/odd" := by decide

set_option maxRecDepth 10000 in
/-- clause `ecosApart` (finding lang-shared-id-across-ecosystems): two language ecosystems find the same
    (name, version) — one package id — at two paths, and the python one is deleted later.  MergeSR keeps the
    `Package` of whichever coalescer finished last and both environments; the resolver tests that package's
    file path only.  nodejs last: the deleted python package stays reported … -/
theorem index_eq_flatten_cross_ecosystem_id_counterexample :
    Ex.reportedNotInImage Ex.S2 Ex.crossEco "six-1" "python:a/p" := by decide

set_option maxRecDepth 10000 in
/-- … python last: the nodejs package, still in the image, is dropped with it.  The finished report depends
    on the order in which the coalescer goroutines finish. -/
theorem index_eq_flatten_cross_ecosystem_id_order_counterexample :
    Ex.inImageNotReported Ex.S2' Ex.crossEco "six-1" "nodejs:b/j" := by decide

/-! ## Part 5 — MergeSR for any completion order of the coalescer goroutines

  `coalesce` starts one goroutine per ecosystem; each appends its report to `reports` when it is done, so the
  list MergeSR receives is in completion order.  Full statement (FALSE of the unchanged code, see the
  counterexample): the finished report does not depend on that order. -/

/-- `mergesr_order_independent_partial`: for ALL source reports and ALL lists of coalescer reports that are
    `Compatible` (two reports — or one report under a repeated key — never store different values under one
    key: the same `Package` under a package id, the same `Distribution`, `Repository`, `File`), MergeSR over any
    permutation of the list yields an equivalent report: the same value under every key of Packages,
    Distributions, Repositories, Files, and under every package id the same environments up to their order. -/
theorem mergesr_order_independent_partial (src : Report) (rs rs' : List Report) (hp : rs.Perm rs')
    (hc : Compatible rs) : (mergeSR src rs).Equiv (mergeSR src rs') :=
  mergeSR_perm src rs rs' hp hc

/-- `index_report_order_independent_partial`: the whole coalesce step (coalescers, MergeSR, whiteout resolver)
    for ALL layer lists and ALL per-ecosystem artifacts: when the ecosystems' reports are `Compatible`, any two
    completion orders give equivalent finished reports (the resolver looks at a package's environments only
    through the largest layer index, and at `Files` only through lookups). -/
theorem index_report_order_independent_partial (layers : List String) (ecos ecos' : List (Kind × List Layer))
    (hp : ecos.Perm ecos') (hc : Compatible (ecos.map repOf)) (r r' : Report)
    (h : indexCoalesce layers ecos = some r) (h' : indexCoalesce layers ecos' = some r') : r.Equiv r' :=
  index_order_independent layers ecos ecos' hp hc r r' h h'

/-- `repOf` is the report the ecosystem's coalescer returns (no coalescer fails). -/
theorem repOf_is_coalescer_report (k : Kind) (arts : List Layer) : coalesceKind k arts = .ok (repOf (k, arts)) := by
  obtain ⟨r, hr, _⟩ := coalesceKind_ok (S := False) k arts (fun h => h.elim)
  simp [repOf, hr]

set_option maxRecDepth 10000 in
/-- Without `Compatible` the statement is false (finding lang-shared-id-across-ecosystems): a python and a
    nodejs package under one package id, the python file whited out by the next layer.  With the nodejs
    coalescer finishing last the package stays in the report; with the python coalescer finishing last it is
    deleted — together with the nodejs environment. -/
theorem index_report_order_counterexample :
    ∃ layers ecos ecos' r r', ecos.Perm ecos' ∧ indexCoalesce layers ecos = some r ∧ indexCoalesce layers ecos' = some r' ∧
      (aget "1" r.pkgs).isSome = true ∧ (aget "1" r'.pkgs).isSome = false := by
  let py : Kind × List Layer := (.lang, [{ hash := "L0", pkgs := [{ id := "1", name := "ms", version := "2.0.0", kind := "binary", arch := "", src := "", db := "python:site", fp := "site/ms-2.0.0.dist-info/METADATA" }], repos := [{ id := "r1", name := "pypi", key := "", uri := "" }] }, { hash := "L1" }])
  let js : Kind × List Layer := (.lang, [{ hash := "L0", pkgs := [{ id := "1", name := "ms", version := "2.0.0", kind := "binary", arch := "", src := "", db := "nodejs:node_modules/ms/package.json", fp := "node_modules/ms/package.json" }], repos := [{ id := "r2", name := "npm", key := "", uri := "" }] }, { hash := "L1" }])
  let wh : Kind × List Layer := (.wh, [{ hash := "L0" }, { hash := "L1", files := [{ path := "site/.wh.ms-2.0.0.dist-info", kind := "whiteout" }] }])
  refine ⟨["L0", "L1"], [py, js, wh], [js, py, wh], _, _, List.Perm.swap js py [wh], rfl, rfl, ?_, ?_⟩ <;> decide

/-! ## Part 6 — what exactly an environment says: introducing layer, distribution, repositories -/

/-- `linux_dist_choice` (linux/distsearcher.go): every environment of the linux coalescer's report, for ALL
    artifact lists: it names the first layer holding the package's (name, database, version), and the
    distribution of `DistSearcher.Search` for that layer — the layer's own first distribution, else the first
    distribution of the nearest earlier layer that has one, else of the nearest later one, else none. -/
theorem linux_dist_choice (arts : List Layer) (r : Report) (h : linuxCoalesce arts = .ok r)
    (id : String) (es : List Env) (hes : aget id r.envs = some es) (e : Env) (he : e ∈ es) :
    ∃ p ∈ allPkgs arts, p.id = id ∧ ∃ pre a post, arts = pre ++ a :: post ∧ a.hash = e.intro ∧
      a.pkgs.any (sameKey p) = true ∧ (∀ b ∈ pre, b.pkgs.any (sameKey p) = false) ∧
      e.distId = (((match a.dists.head? with
        | some d => some d
        | none => match firstSome (distSlots pre).reverse with
          | some d => some d
          | none => firstSome (distSlots post)) : Option Dist).map (·.id)).getD "" := by
  unfold linuxCoalesce at h
  rcases linuxFill_from _ _ _ h id es hes e he with ⟨es0, h0, _⟩ | ⟨db, p, hm, hid, henv⟩
  · simp at h0
  · obtain ⟨hp, _⟩ := linux_entries_ok db p hm
    obtain ⟨pre, a, post, h1, h2, h3, h4, h5⟩ := linuxEnv_exact henv
    exact ⟨p, hp, hid, pre, a, post, h1, h2, h3, h4, h5⟩

/-- `rhel_one_environment_per_id`: the rhel coalescer reports every package id with exactly one environment
    (the final loop skips an id it has already put into the report). -/
theorem rhel_one_environment_per_id (arts : List Layer) (r : Report) (h : rhelCoalesce arts = .ok r)
    (id : String) (es : List Env) (hes : aget id r.envs = some es) : es.length = 1 :=
  (rhelCoalesce_oneEnv h).2 id es hes

/-- … so a package recorded in two package databases of the last layer is reported for one of them only,
    where linux.Coalescer reports both. -/
theorem rhel_two_databases_counterexample :
    ∃ arts r r', rhelCoalesce arts = .ok r ∧ linuxCoalesce arts = .ok r' ∧
      ((aget "1" r.envs).getD []).map (·.db) = ["var/lib/rpm"] ∧
      ((aget "1" r'.envs).getD []).map (·.db) = ["var/lib/rpm", "usr/lib/sysimage/rpm"] := by
  refine ⟨[{ hash := "L0", pkgs := [
      { id := "1", name := "bash", version := "5", kind := "binary", arch := "x86_64", src := "", db := "var/lib/rpm", fp := "" },
      { id := "1", name := "bash", version := "5", kind := "binary", arch := "x86_64", src := "", db := "usr/lib/sysimage/rpm", fp := "" }] }],
    _, _, rfl, rfl, ?_, ?_⟩ <;> decide

/-- `rhel_env_exact` (whole-report form of the rhel coalescer's walk), for ALL artifact lists: every
    environment of the report was built at the first layer — of the artifacts after Red Hat repositories have
    been shared between the layers — that holds the package in the environment's database; it names that
    layer, the distribution current there (the last layer up to it with a distribution, else the first
    distribution of any layer, else none) and exactly that layer's repositories. -/
theorem rhel_env_exact (arts : List Layer) (r : Report) (h : rhelCoalesce arts = .ok r)
    (id : String) (es : List Env) (hes : aget id r.envs = some es) (e : Env) (he : e ∈ es) :
    ∃ pre a post, rhelShare arts = pre ++ a :: post ∧ (∃ p ∈ a.pkgs, p.db = e.db ∧ p.id = id) ∧
      (∀ b ∈ pre, ∀ p ∈ b.pkgs, ¬ (p.db = e.db ∧ p.id = id)) ∧
      e.intro = a.hash ∧ e.repoIds = a.repos.map (·.id) ∧
      e.distId = distIdOf (curAfter (firstDist (rhelShare arts)) (pre ++ [a])) := by
  obtain ⟨pre, a, post, h1, h2, h3, h4⟩ := rhelCoalesce_env_exact h hes he
  refine ⟨pre, a, post, h1, h2, h3, ?_, ?_, ?_⟩ <;> rw [h4] <;> rfl

/-- Sharing leaves digests, packages and distributions of every layer alone … -/
theorem rhel_share_keeps_layers (arts : List Layer) :
    (rhelShare arts).map (fun a => (a.hash, a.pkgs, a.dists)) = arts.map (fun a => (a.hash, a.pkgs, a.dists)) :=
  rhelShare_core arts

/-- … "if Red Hat product information is found, it taints all the layers": when some layer carries a
    repository with key `rhel-cpe-repository`, every layer does after sharing … -/
theorem rhel_share_taints_all_layers (arts : List Layer) (h : ∃ a ∈ arts, filterRH a.repos ≠ []) :
    ∀ a' ∈ rhelShare arts, filterRH a'.repos ≠ [] :=
  rhelShare_taints arts h

/-- … and sharing invents nothing: every repository of a layer after sharing is a repository of some layer. -/
theorem rhel_shared_repos_come_from_layers (arts : List Layer) :
    ∀ a' ∈ rhelShare arts, ∀ x ∈ a'.repos, ∃ a ∈ arts, x ∈ a.repos :=
  rhelShare_repos_from arts

/-- Consequently every environment of an image with Red Hat repositories carries one. -/
theorem rhel_env_has_redhat_repository (arts : List Layer) (hrh : ∃ a ∈ arts, filterRH a.repos ≠ [])
    (r : Report) (h : rhelCoalesce arts = .ok r)
    (id : String) (es : List Env) (hes : aget id r.envs = some es) (e : Env) (he : e ∈ es) :
    ∃ x, x.key = rhelRepoKey ∧ x.id ∈ e.repoIds ∧ ∃ a ∈ arts, x ∈ a.repos := by
  obtain ⟨pre, a, post, h1, _, _, _, h5, _⟩ := rhel_env_exact arts r h id es hes e he
  have hmem : a ∈ rhelShare arts := by rw [h1]; simp
  have hne := rhelShare_taints arts hrh a hmem
  cases hf : filterRH a.repos with
  | nil => exact absurd hf hne
  | cons x xs =>
    have hx : x ∈ filterRH a.repos := by rw [hf]; exact List.mem_cons_self
    have hx' := List.mem_filter.1 hx
    refine ⟨x, by simpa using hx'.2, by rw [h5]; exact List.mem_map.2 ⟨x, hx'.1, rfl⟩,
      rhelShare_repos_from arts a hmem x hx'.1⟩

/-- `index_dist_eq_flatten_partial`: for ALL scanners and ALL layer stacks on which every OS ecosystem's
    distribution scanner is stable (`DistStable`, decidable: its file is never hidden, and every layer carrying
    the file makes it say the same), every environment of the finished report names exactly the distribution
    the same scanner finds on the flattened image — linux ecosystems through `DistSearcher`, rhel ecosystems
    through the walk's current distribution —, and file ecosystems name none. -/
theorem index_dist_eq_flatten_partial (S : Scanners) (layers : List FSLayer) (hs : DistStable S layers)
    (r : Report) (hr : indexModel S layers = some r) (id : String) (es : List Env) (hes : aget id r.envs = some es)
    (e : Env) (he : e ∈ es) :
    (∃ d ∈ S.osDbs, e.db = d ∧ e.distId = imgDistId S false d layers) ∨
    (∃ d ∈ S.rhelDbs, e.db = d ∧ e.distId = imgDistId S true d layers) ∨
    (e.distId = "" ∧ e.repoIds ≠ []) :=
  index_dist_eq_flatten hs hr hes he

/-- `index_dists_eq_flatten_partial`: on the same stacks the `Distributions` map of the finished report holds
    exactly the distributions the OS ecosystems' scanners find on the flattened image (no distribution of an
    older release lingers, none is missing). -/
theorem index_dists_eq_flatten_partial (S : Scanners) (layers : List FSLayer) (hs : DistStable S layers)
    (r : Report) (hr : indexModel S layers = some r) (k : String) :
    (aget k r.dists).isSome ↔
      (∃ d ∈ S.osDbs, ∃ D, imageDist S false d layers = some D ∧ D.id = k) ∨
      (∃ d ∈ S.rhelDbs, ∃ D, imageDist S true d layers = some D ∧ D.id = k) :=
  index_dists_eq_flatten hs hr k

set_option maxRecDepth 10000 in
/-- the hypothesis holds on the worked example, with a distribution actually found -/
theorem dist_stable_example : DistStable Ex.S0 Ex.tameStack ∧ imgDistId Ex.S0 false Ex.dpkgDB Ex.tameStack = "debian-12" := by
  decide

set_option maxRecDepth 10000 in
/-- Without `DistStable` the statement is false: after a distribution upgrade (the release file changes from
    debian 11 to debian 12) a package installed before the upgrade and still installed is tagged with the old
    distribution, the flattened image says debian 12. -/
theorem index_dist_upgrade_counterexample :
    (indexModel Ex.S0 Ex.distUpgrade).map (fun r => (((aget "bash-1" r.envs).getD []).filter (·.db = Ex.dpkgDB)).map (·.distId)) = some ["debian-11"] ∧
    imgDistId Ex.S0 false Ex.dpkgDB Ex.distUpgrade = "debian-12" := by
  decide

/-! ## Part 7 — whiteout coalescer and layer order -/

/-- `whiteout/coalescer.go`, for ALL artifact lists: under a layer digest the report holds the last file of
    all the files the layers with that digest carry (`ir.Files[l.Hash.String()] = f` overwrites) — one file per
    digest, which is finding whiteout-one-per-layer. -/
theorem whiteout_coalescer_keeps_last_file_per_digest (arts : List Layer) (r : Report) (h : whCoalesce arts = .ok r)
    (digest : String) : aget digest r.files = lastVal digest (whPairs arts) ∧ r.pkgs = [] ∧ r.envs = [] := by
  simp only [whCoalesce, Except.ok.injEq] at h
  subst h
  refine ⟨?_, rfl, rfl⟩
  simp only
  rw [whFiles_eq, aget_foldl_aset_last]
  cases lastVal digest (whPairs arts) <;> rfl

/-- `layerSorter`: a digest stands for its LAST position in the manifest, a digest that is not in the manifest
    for position 0; `isChildOf(a, b)` compares these numbers. -/
theorem layer_sorter_last_position (pre post : List String) (h : String) (hn : h ∉ post) :
    sorterIdx (pre ++ h :: post) h = pre.length ∧ ∀ layers : List String, ∀ x, x ∉ layers → sorterIdx layers x = 0 :=
  ⟨sorterIdx_split h pre post hn, fun layers x hx => by unfold sorterIdx; exact sorterGo_notin x layers 0 0 hx⟩

/-- The resolver decides by the newest layer among a package's environments: the layer it compares whiteouts
    with has the largest position of all `IntroducedIn` digests (whatever their order in the list). -/
theorem resolver_package_layer_is_newest (layers : List String) (e0 : Env) (es : List Env) :
    sorterIdx layers (pkgLayer layers es e0.intro) = envMax layers (e0 :: es) := by
  rw [pkgLayer_idx]; rfl

/-! ## Part 8 — store read faults in the coalesce state -/

/-- `index_store_fault_fails`: for ALL layer lists and ALL outcomes of the store reads of `coalesce` (per
    ecosystem and layer; `none` = `PackagesByLayer` / `DistributionsByLayer` / `RepositoriesByLayer` /
    `FilesByLayer` returned an error): one failed read makes the Index call fail — no report is finished
    from partial artifacts (e.g. without the whiteouts of a layer). -/
theorem index_store_fault_fails (layers : List String) (reads : List (Kind × List (Option Layer)))
    (h : ∃ kr ∈ reads, none ∈ kr.2) : indexCoalesceReads layers reads = none := by
  have hall : ∀ {α : Type} (l : List (Option α)), none ∈ l → allSome l = none := by
    intro α l
    induction l with
    | nil => simp
    | cons o l ih =>
      intro hm
      cases o with
      | none => rfl
      | some x =>
        have : none ∈ l := by simpa using hm
        simp [allSome, ih this]
  have hp : packReads reads = none := by
    induction reads with
    | nil => obtain ⟨kr, hkr, _⟩ := h; simp at hkr
    | cons kr rest ih =>
      obtain ⟨k, rs⟩ := kr
      obtain ⟨kr', hm, hn⟩ := h
      simp only [packReads]
      rcases List.mem_cons.1 hm with h1 | h1
      · subst h1; rw [hall rs hn]
      · rw [ih ⟨kr', h1, hn⟩]; cases allSome rs <;> rfl
  simp [indexCoalesceReads, hp]

/-- … and when every read succeeds the result is the coalesce step on exactly what was read: a finished
    report never comes from anything but the complete artifacts. -/
theorem index_store_reads_ok (layers : List String) (ecos : List (Kind × List Layer)) :
    indexCoalesceReads layers (ecos.map fun ka => (ka.1, ka.2.map some)) = indexCoalesce layers ecos := by
  have hall : ∀ {α : Type} (l : List α), allSome (l.map some) = some l := by
    intro α l
    induction l with
    | nil => rfl
    | cons x l ih => simp [allSome, ih]
  have hp : packReads (ecos.map fun ka => (ka.1, ka.2.map some)) = some ecos := by
    induction ecos with
    | nil => rfl
    | cons ka rest ih => simp [packReads, hall, ih]
  simp [indexCoalesceReads, hp]

end ClairModel.Props.C01
