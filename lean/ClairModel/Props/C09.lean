/-
  C09 — Only bytes matching the declared digest are ever scanned.

  Property theorems only; helper lemmas live in Proofs/Fetch.lean, the model
  in Model/Fetch.lean.  The model is tied to libindex/fetcher.go,
  internal/zreader, internal/httputil, digest.go and layer.go by
    (A) Gen/Fetch.lean, regenerated from those sources on every run (magic
        headers and detector order, accepted status, content-type fix-up and
        switch, Layer.Init media types, digest algorithm sizes), over which
        the table theorems below are stated, and
    (B) the correspondence run of `./check C09` (go/internal/c09), which
        realizes scripted responses through the real RemoteFetchArena and
        compares every outcome with this model.

  `Params` (hash, gzip/zstd decoders, tarfs.New, url.ParseRequestURI) are
  universally quantified: nothing below assumes anything about them.
-/
import ClairModel.Proofs.Fetch
import ClairModel.Proofs.FetchReader
import ClairModel.Proofs.FetchSched
import ClairModel.Proofs.FetchMisc

-- every variable of a property statement is bound explicitly: a misspelt name is an error, not a new variable
set_option autoImplicit false

namespace ClairModel.Props.C09
open ClairModel ClairModel.Bytes ClairModel.Codec ClairModel.Fetch

/-! ## the download: publish only after the digest matched -/

/-- A file is stored in the arena (`rc.Swap`) only if the request was answered
    with an accepted status, the response ended cleanly (`io.EOF` from the
    transport, nothing else), the digest string parsed, and the hash of
    *every byte the transport delivered* equals the digest's checksum. -/
theorem publish_only_if_digest_matches (P : Params) (arena : Arena) (key uri : Bytes) (r : Resp)
    (k payload : Bytes) (h : .publish k payload ∈ (fetchUnlinked P arena key uri r).effs) :
    k = key ∧ r.refused = false ∧ r.status ∈ Gen.Fetch.acceptStatus ∧ r.term = .eof ∧
      ∃ dg, digestParse key = some dg ∧ P.hash dg.algo r.body = dg.checksum := by
  obtain ⟨hk, ha⟩ := (publish_iff P true arena key uri r r.body k payload).1 h
  obtain ⟨dg, _, _, hd, _, _, _, _, hh⟩ := ha.rest
  exact ⟨hk, ha.not_refused, by simpa using ha.status_ok, ha.drained rfl, dg, hd, hh⟩

/-- In the effect sequence of one download `publish` occurs at most once, as the
    last effect, directly after the comparison that succeeded. -/
theorem publish_is_last_and_follows_compare (P : Params) (arena : Arena) (key uri : Bytes) (r : Resp)
    (k payload : Bytes) (h : .publish k payload ∈ (fetchUnlinked P arena key uri r).effs) :
    ∃ pre, (fetchUnlinked P arena key uri r).effs = pre ++ [.compare true, .publish k payload] ∧
      ∀ e ∈ pre, ∀ a b, e ≠ .publish a b :=
  publish_shape P true arena key uri r r.body k payload h

/-- What is stored is the output of the decoder selected by the magic bytes of
    the body, run over the whole body; that kind is gzip, zstd or none, and it
    is the kind the (possibly fixed-up) content type asks for. -/
theorem published_payload_exact (P : Params) (arena : Arena) (key uri : Bytes) (r : Resp)
    (k payload : Bytes) (h : .publish k payload ∈ (fetchUnlinked P arena key uri r).effs) :
    ∃ kind ct, detect r.body .eof = some kind ∧ (kind = .gzip ∨ kind = .zstd ∨ kind = .none) ∧
      effectiveCT r.ctype kind = some ct ∧ wantKind ct = some kind ∧
      decompress P kind r.body .eof = some payload := by
  obtain ⟨_, ha⟩ := (publish_iff P true arena key uri r r.body k payload).1 h
  obtain ⟨dg, kind, ct, _, hk, hct, hw, hsp, _⟩ := ha.rest
  have hdec := (spool_some hsp).1
  have ht := ha.drained rfl
  rw [ht] at hk hdec
  exact ⟨kind, ct, hk, wantKind_supported hw, hct, hw, hdec⟩

/-- Read with the assumption that makes a digest a name - the hash has no
    collisions (stated here only for the algorithm at hand): if `blob` is the
    byte string whose hash the digest records, a publish means that exactly
    `blob` was received and that the stored file is its decompression. -/
theorem published_is_the_named_blob (P : Params) (arena : Arena) (key uri : Bytes) (r : Resp)
    (k payload : Bytes) (dg : Digest) (blob : Bytes)
    (hd : digestParse key = some dg) (hblob : P.hash dg.algo blob = dg.checksum)
    (hcf : ∀ a b, P.hash dg.algo a = P.hash dg.algo b → a = b)
    (h : .publish k payload ∈ (fetchUnlinked P arena key uri r).effs) :
    r.body = blob ∧ ∃ kind, detect blob .eof = some kind ∧ decompress P kind blob .eof = some payload := by
  obtain ⟨_, _, _, _, dg', hd', hh⟩ := publish_only_if_digest_matches P arena key uri r k payload h
  rw [hd] at hd'
  cases hd'
  have hb : r.body = blob := hcf _ _ (hh.trans hblob.symm)
  obtain ⟨kind, _, hk, _, _, _, hdec⟩ := published_payload_exact P arena key uri r k payload h
  rw [hb] at hk hdec
  exact ⟨hb, kind, hk, hdec⟩

/-- The file `fetchUnlinkedFile` returns is either one already in the arena
    under the same digest string, or the one just published; in the second case
    `Accept` lists everything that was checked. -/
theorem result_is_arena_file_or_fresh (P : Params) (arena : Arena) (key uri : Bytes) (r : Resp) (payload : Bytes) :
    (fetchUnlinked P arena key uri r).out = some payload ↔
      ((uri ≠ [] ∧ (digestParse key).isSome ∧ P.uriOK uri = true ∧
          ∃ e, arena.lookup key = some e ∧ e.payload = payload) ∨
        Accept P true arena key uri r r.body payload) :=
  out_some_iff P true arena key uri r r.body payload

/-- A layer found in the arena costs no request: the response plays no part. -/
theorem arena_hit_makes_no_request (P : Params) (arena : Arena) (key uri : Bytes) (r r' : Resp) (e : Entry)
    (h : arena.lookup key = some e) :
    fetchUnlinked P arena key uri r = fetchUnlinked P arena key uri r' ∧
      Eff.request ∉ (fetchUnlinked P arena key uri r).effs := by
  unfold fetchUnlinked fetchCore fetchCoreH
  constructor
  · simp only [h]
  · simp only [h]
    repeat' split
    all_goals simp

/-! ## the reject table: each of these alone makes the fetch fail, and nothing is stored -/

/-- Empty URI, a digest string that does not parse, or a URI that is no request URI. -/
theorem reject_invalid_description (P : Params) (arena : Arena) (key uri : Bytes) (r : Resp)
    (h : uri = [] ∨ digestParse key = none ∨ P.uriOK uri = false) :
    fetchUnlinked P arena key uri r = ⟨[], none⟩ :=
  invalid_rejects h

theorem reject_request_failure (P : Params) (arena : Arena) (key uri : Bytes) (r : Resp)
    (hmiss : arena.lookup key = none) (h : r.refused = true) :
    (fetchUnlinked P arena key uri r).out = none ∧ ∀ k p, .publish k p ∉ (fetchUnlinked P arena key uri r).effs :=
  not_accept_rejects hmiss fun _ ha => by simp [ha.not_refused] at h

/-- Any status other than the accepted ones (the generated table: 200 only). -/
theorem reject_status (P : Params) (arena : Arena) (key uri : Bytes) (r : Resp)
    (hmiss : arena.lookup key = none) (h : r.status ∉ Gen.Fetch.acceptStatus) :
    (fetchUnlinked P arena key uri r).out = none ∧ ∀ k p, .publish k p ∉ (fetchUnlinked P arena key uri r).effs :=
  not_accept_rejects hmiss fun _ ha => h (by simpa using ha.status_ok)

/-- A response that does not end with a clean end of file - short of its
    Content-Length, chunked without the terminal chunk, reset, or stalled into
    the deadline - at whatever point, whatever the decoders make of it. -/
theorem reject_transport_failure (P : Params) (arena : Arena) (key uri : Bytes) (r : Resp)
    (hmiss : arena.lookup key = none) (h : r.term ≠ .eof) :
    (fetchUnlinked P arena key uri r).out = none ∧ ∀ k p, .publish k p ∉ (fetchUnlinked P arena key uri r).effs :=
  not_accept_rejects hmiss fun _ ha => h (ha.drained rfl)

/-- bzip2 (recognised by its magic) is refused under every content type. -/
theorem reject_bzip2 (P : Params) (arena : Arena) (key uri : Bytes) (r : Resp)
    (hmiss : arena.lookup key = none) (h : detect r.body r.term = some .bzip2) :
    (fetchUnlinked P arena key uri r).out = none ∧ ∀ k p, .publish k p ∉ (fetchUnlinked P arena key uri r).effs :=
  not_accept_rejects hmiss fun _ ha => by
    obtain ⟨_, k, _, _, hk, _, hw, _, _⟩ := ha.rest
    rw [h] at hk
    cases hk
    rcases wantKind_supported hw with h | h | h <;> cases h

/-- A content type that is neither generic nor one of the switch's cases. -/
theorem reject_unknown_content_type (P : Params) (arena : Arena) (key uri : Bytes) (r : Resp)
    (hmiss : arena.lookup key = none) (hg : isFixup r.ctype = false) (h : wantKind r.ctype = none) :
    (fetchUnlinked P arena key uri r).out = none ∧ ∀ k p, .publish k p ∉ (fetchUnlinked P arena key uri r).effs :=
  not_accept_rejects hmiss fun _ ha => by
    obtain ⟨_, k, ct, _, _, hct, hw, _, _⟩ := ha.rest
    simp only [effectiveCT, hg, Bool.false_eq_true, if_false, Option.some.injEq] at hct
    subst hct
    rw [h] at hw
    cases hw

/-- A content type that announces another compression than the magic shows. -/
theorem reject_mismatched_content_type (P : Params) (arena : Arena) (key uri : Bytes) (r : Resp)
    (hmiss : arena.lookup key = none) (hg : isFixup r.ctype = false) (k w : Kind)
    (hk : detect r.body r.term = some k) (hw : wantKind r.ctype = some w) (hne : k ≠ w) :
    (fetchUnlinked P arena key uri r).out = none ∧ ∀ k p, .publish k p ∉ (fetchUnlinked P arena key uri r).effs :=
  not_accept_rejects hmiss fun _ ha => by
    obtain ⟨_, k', ct, _, hk', hct, hw', _, _⟩ := ha.rest
    simp only [effectiveCT, hg, Bool.false_eq_true, if_false, Option.some.injEq] at hct
    subst hct
    rw [hk] at hk'
    rw [hw] at hw'
    cases hk'
    cases hw'
    exact hne rfl

/-- A body its decoder cannot decode to the end. -/
theorem reject_undecodable (P : Params) (arena : Arena) (key uri : Bytes) (r : Resp)
    (hmiss : arena.lookup key = none) (k : Kind) (hk : detect r.body r.term = some k)
    (h : decompress P k r.body r.term = none) :
    (fetchUnlinked P arena key uri r).out = none ∧ ∀ k p, .publish k p ∉ (fetchUnlinked P arena key uri r).effs :=
  not_accept_rejects hmiss fun _ ha => by
    obtain ⟨_, k', _, _, hk', _, _, hsp, _⟩ := ha.rest
    have hdec := (spool_some hsp).1
    rw [hk] at hk'
    cases hk'
    rw [h] at hdec
    cases hdec

/-- Delivered bytes whose hash is not the digest's checksum: any flipped bit,
    truncation, extension or wrong digest of either algorithm that changes the hash. -/
theorem reject_checksum_mismatch (P : Params) (arena : Arena) (key uri : Bytes) (r : Resp) (dg : Digest)
    (hmiss : arena.lookup key = none) (hd : digestParse key = some dg) (h : P.hash dg.algo r.body ≠ dg.checksum) :
    (fetchUnlinked P arena key uri r).out = none ∧ ∀ k p, .publish k p ∉ (fetchUnlinked P arena key uri r).effs :=
  not_accept_rejects hmiss fun _ ha => by
    obtain ⟨dg', _, _, hd', _, _, _, _, hh⟩ := ha.rest
    rw [hd] at hd'
    cases hd'
    exact h hh

/-! ## the defect repaired by the `fix:` commit -/

/-- Before the fix the checksum was compared as soon as the decompressor was
    content. A decoder that reports a clean end when its input stops at a
    frame boundary (as the zstd reader does) made a response that fell short
    of its Content-Length pass: here a 4-byte "frame", the transport ending
    with `short`, and a file is returned. -/
theorem short_read_accepted_before_fix_counterexample :
    let P : Params := { hash := fun _ _ => List.replicate 32 0, unz := fun _ _ _ => some [1],
                        tarOK := fun _ => true, uriOK := fun _ => true }
    let key : Bytes := sha256 ++ 58 :: List.replicate 64 48
    let r : Resp := { body := [40, 181, 47, 253], term := .short }
    (fetchUnlinkedNoDrain P [] key [104] r).out = some [1] ∧
    (fetchUnlinked P [] key [104] r).out = none := by
  decide

/-! ## the reader stack: the hash sees exactly what the transport delivered, however it is cut up -/

/-- Whatever sizes a consumer reads with, the bytes written into the hash are
    exactly the bytes it was handed, and together with what is still to come
    they are the stream. -/
theorem tee_hashes_what_was_read (chunks : List Bytes) (ns : List Nat) :
    let res := Tee.readMany ⟨chunks, []⟩ ns
    res.2.hashed = res.1 ∧ res.2.hashed ++ res.2.rest.flatten = chunks.flatten := by
  have h := Tee.readMany_inv ⟨chunks, []⟩ ns
  simp only [List.nil_append] at h
  exact ⟨h.2, h.1⟩

/-- After `io.Copy(io.Discard, tr)` the hash has seen the whole stream,
    whatever the consumer before it had or had not read. -/
theorem drain_covers_stream (s : Stream) (ns : List Nat) :
    (Tee.readMany ⟨s.chunks, []⟩ ns).2.drain.hashed = s.bytes ∧
    (Tee.readMany ⟨s.chunks, []⟩ ns).2.drain.rest = [] := by
  have h := Tee.readMany_inv ⟨s.chunks, []⟩ ns
  have hd := Tee.drain_all (Tee.readMany ⟨s.chunks, []⟩ ns).2
  simp only [List.nil_append] at h
  exact ⟨by rw [hd.2, h.1]; rfl, hd.1⟩

/-- The fetch over a stream is the fetch over its bytes: neither the pieces the
    transport delivers nor the read sizes of sniffing and decompression matter. -/
theorem chunking_irrelevant (P : Params) (arena : Arena) (key uri : Bytes) (r : Resp) (s : Stream) (ns : List Nat) :
    fetchStream P true arena key uri r s ns =
      fetchUnlinked P arena key uri { r with body := s.bytes, term := s.term } := by
  unfold fetchStream fetchUnlinked fetchCore
  simp only [if_true]
  rw [(drain_covers_stream s ns).1]

theorem same_bytes_same_result (P : Params) (arena : Arena) (key uri : Bytes) (r : Resp)
    (s₁ s₂ : Stream) (ns₁ ns₂ : List Nat) (hb : s₁.bytes = s₂.bytes) (ht : s₁.term = s₂.term) :
    fetchStream P true arena key uri r s₁ ns₁ = fetchStream P true arena key uri r s₂ ns₂ := by
  rw [chunking_irrelevant, chunking_irrelevant, hb, ht]

/-! ## histories: what scanners can see, over every sequence of calls on one arena -/

/-- In every state reachable by any sequence of RealizeDescriptions / Realize /
    Close calls, with any responses, every file in the arena holds the
    decompression (by a supported decoder chosen by the magic) of bytes that
    hash to the digest string it is stored under. -/
theorem arena_always_verified (P : Params) (ops : List Op) :
    ArenaInv P (Sm.run (step P) init ops).arena :=
  Sm.invariant_run (Inv := fun s => ArenaInv P s.arena) (fun s op h => step_inv P s op h) ops init
    (by intro e he; cases he)

/-- Whatever happened before, a call that succeeds returns one view per layer,
    and every tar view - the bytes behind `Layer.Reader()` and `Layer.FS()` -
    is verified for the digest of its layer, whether it was downloaded in this
    call or found in the arena. -/
theorem exposed_payload_verified (P : Params) (ops : List Op) (id : Nat) (reqs : List Req) (hold : Bool)
    (vs : List View)
    (h : (step P (Sm.run (step P) init ops) (.realize id reqs hold)).2 = .ok vs) :
    vs.length = reqs.length ∧ ∀ rv ∈ reqs.zip vs, ∀ p, rv.2 = .tar p → Verified P rv.1.key p := by
  have hinv := arena_always_verified P ops
  have hl := realizeLoop_inv (P := P) reqs _ hinv
  simp only [step] at h
  cases hr : realizeLoop P (Sm.run (step P) init ops).arena reqs with
  | mk a r1 =>
    obtain ⟨ks, vs', ok⟩ := r1
    rw [hr] at hl h
    cases ok with
    | false => simp at h
    | true =>
      have hv : vs' = vs := by
        simp only [] at h
        split at h <;> simpa using h
      subst hv
      exact hl.2 rfl

/-- A failing call returns no layer at all (`Out.err` carries none) and leaves
    the arena verified; a layer that fails alone fails the call. -/
theorem failed_layer_fails_call (P : Params) (s : State) (id : Nat) (pre post : List Req) (rq : Req) (hold : Bool)
    (hpre : (realizeLoop P s.arena pre).2.2.2 = true)
    (h : (fetchInto P (realizeLoop P s.arena pre).1 rq).2 = none) :
    (step P s (.realize id (pre ++ rq :: post) hold)).2 = .err := by
  have key : ∀ (pre : List Req) (a : Arena), (realizeLoop P a pre).2.2.2 = true →
      (fetchInto P (realizeLoop P a pre).1 rq).2 = none →
      (realizeLoop P a (pre ++ rq :: post)).2.2.2 = false := by
    intro pre
    induction pre with
    | nil =>
      intro a _ hf
      simp only [realizeLoop, List.nil_append] at hf ⊢
      cases hfi : fetchInto P a rq with
      | mk a' ov => rw [hfi] at hf; simp only [] at hf; subst hf; rfl
    | cons x xs ih =>
      intro a hp hf
      simp only [realizeLoop, List.cons_append] at hp hf ⊢
      cases hfi : fetchInto P a x with
      | mk a' ov =>
        rw [hfi] at hp hf
        cases ov with
        | none => simp at hp
        | some v =>
          simp only [] at hp hf ⊢
          cases hl : realizeLoop P a' xs with
          | mk a'' r1 =>
            obtain ⟨ks, vs, ok⟩ := r1
            rw [hl] at hp hf
            simp only [] at hp hf
            have := ih a' (by rw [hl]; exact hp) (by rw [hl]; exact hf)
            cases hl2 : realizeLoop P a' (xs ++ rq :: post) with
            | mk a3 r3 =>
              obtain ⟨ks3, vs3, ok3⟩ := r3
              rw [hl2] at this
              simpa using this
  have hk := key pre s.arena hpre h
  simp only [step]
  cases hr : realizeLoop P s.arena (pre ++ rq :: post) with
  | mk a r1 =>
    obtain ⟨ks, vs, ok⟩ := r1
    rw [hr] at hk
    simp only [] at hk
    subst hk
    rfl

/-! ## one download, one request; the spool file -/

/-- A fetch makes at most one request: there is no second attempt whose bytes
    could be mixed with those of the first. -/
theorem at_most_one_request (P : Params) (arena : Arena) (key uri : Bytes) (r : Resp) :
    (fetchUnlinked P arena key uri r).requests ≤ 1 := by
  unfold fetchUnlinked fetchCore fetchCoreH FileResult.requests
  repeat' split
  all_goals simp

/-- The request is made exactly when the description is valid and the arena has
    no file under the digest string. -/
theorem request_iff_valid_miss (P : Params) (arena : Arena) (key uri : Bytes) (r : Resp) :
    (fetchUnlinked P arena key uri r).requests = 1 ↔
      (uri ≠ [] ∧ (digestParse key).isSome ∧ P.uriOK uri = true ∧ arena.lookup key = none) := by
  unfold fetchUnlinked fetchCore fetchCoreH FileResult.requests
  repeat' split
  all_goals simp_all

/-- A spool file that cannot take the decompressed payload (ENOSPC, EFBIG,
    EIO at any point of the copy or the flush) makes the fetch fail and nothing
    is stored. -/
theorem reject_spool_failure (P : Params) (arena : Arena) (key uri : Bytes) (r : Resp)
    (hmiss : arena.lookup key = none)
    (h : ∀ k p, decompress P k r.body r.term = some p → fits r.disk p = false) :
    (fetchUnlinked P arena key uri r).out = none ∧ ∀ k p, .publish k p ∉ (fetchUnlinked P arena key uri r).effs :=
  not_accept_rejects hmiss fun payload ha => by
    obtain ⟨_, k, _, _, _, _, _, hsp, _⟩ := ha.rest
    obtain ⟨hdec, hfit⟩ := spool_some hsp
    rw [h k payload hdec] at hfit
    cases hfit

/-- What is published was written to the spool file completely. -/
theorem published_fits_disk (P : Params) (arena : Arena) (key uri : Bytes) (r : Resp)
    (k payload : Bytes) (h : .publish k payload ∈ (fetchUnlinked P arena key uri r).effs) :
    fits r.disk payload = true := by
  obtain ⟨_, ha⟩ := (publish_iff P true arena key uri r r.body k payload).1 h
  obtain ⟨_, _, _, _, _, _, _, hsp, _⟩ := ha.rest
  exact (spool_some hsp).2

/-! ## consumers of a realized layer: every byte read is the payload's byte -/

section consumers
open ClairModel.FetchReader

/-- Whatever any number of consumers do with readers of one Layer, in any
    interleaving - `Read`, `ReadAt`, `Seek`, `io.Copy`, new readers - every
    byte string handed to any of them is a stretch of the payload. -/
theorem reader_bytes_are_payload_bytes (s : LState) (ops : List (Nat × ROp)) (c : Nat) (b : Bytes)
    (h : (c, ROut.bytes b) ∈ (run s ops).2) : ∃ off, b = (s.payload.drop off).take b.length :=
  run_bytes ops s c b h

/-- A consumer's results do not depend on what other consumers of the same
    Layer do in between: they are what it would get if it were alone. -/
theorem consumers_independent (s : LState) (ops : List (Nat × ROp)) (c : Nat) :
    (run s ops).2.filter (fun o => o.1 == c) = (run s (ops.filter (fun o => o.1 == c))).2 :=
  (run_indep c ops s s ⟨rfl, rfl, rfl⟩).1

/-- A consumer that only reads forward (`Read`, `io.Copy`) from a cursor at
    `p` gets consecutive bytes of the payload starting at `p`. -/
theorem sequential_consumer_reads_consecutive_bytes (s : LState) (c p : Nat) (ops : List (Nat × ROp))
    (hopen : s.closed = false) (hr : s.rd c = some p) (hseq : ∀ o ∈ ops, o.1 = c ∧ isSeq o.2 = true) :
    bytesOf (run s ops).2 = (s.payload.drop p).take (bytesOf (run s ops).2).length :=
  (seq_run ops s c p hopen hr hseq).1

/-- After any history, a new `Layer.Reader()` copied to its end yields the
    whole payload - not the remainder somebody else left. -/
theorem fresh_reader_reads_whole_payload (s : LState) (ops : List (Nat × ROp)) (c : Nat) (hopen : s.closed = false) :
    (run (run s ops).1 [(c, .open_), (c, .copy)]).2 = [(c, .opened), (c, .bytes s.payload)] := by
  have hf := run_frame ops s
  have hc : (run s ops).1.closed = false := hf.2.trans hopen
  generalize (run s ops).1 = s1 at hf hc
  have hp := hf.1
  by_cases hz : s1.payload.length ≤ 0
  · have he : s1.payload = [] := List.eq_nil_of_length_eq_zero (by omega)
    simp [run, FetchReader.step, hc, LState.set, he, ← hp]
  · simp [run, FetchReader.step, hc, LState.set, hz, ← hp]

/-- Once the fetch proxy is closed no operation delivers a byte, also through
    readers obtained before. -/
theorem closed_layer_gives_no_bytes (s : LState) (c : Nat) (op : ROp) (b : Bytes)
    (h : (FetchReader.step s.close c op).2 = .bytes b) : b = [] :=
  step_closed s.close c op b rfl h

end consumers

/-! ## concurrent users of one arena -/

section sched
open ClairModel.FetchSched

/-- Under every schedule of tasks entering the singleflight, downloads being
    answered and proxies being closed, every file in the arena is verified
    for the digest string it is stored under. -/
theorem sched_arena_always_verified (P : Params) (ops : List SOp) :
    ArenaInv P (Sm.run (FetchSched.step P) FetchSched.init ops).arena :=
  Sm.invariant_run (Inv := fun s => ArenaInv P s.arena) (fun s op h => (FetchSched.step_inv P s op h).1) ops
    FetchSched.init (by intro e he; cases he)

/-- Under every schedule, a task that gets a layer - as the leader of a
    download, by joining one in flight, or from the arena - gets bytes verified
    for the digest of *its own* description. -/
theorem sched_exposed_payload_verified (P : Params) (ops : List SOp) (op : SOp) (rs : List (Nat × Res))
    (id : Nat) (p : Bytes)
    (h : (FetchSched.step P (Sm.run (FetchSched.step P) FetchSched.init ops) op).2 = .results rs)
    (hm : (id, Res.ok (.tar p)) ∈ rs) :
    ∃ t ∈ (Sm.run (FetchSched.step P) FetchSched.init ops).tasks, t.id = id ∧ Verified P t.req.key p :=
  (FetchSched.step_inv P _ op (sched_arena_always_verified P ops)).2 rs h id p hm

/-- A task waits for somebody else's download only if that download runs
    under the task's own digest string; the URI plays no part. -/
theorem join_only_under_own_digest (P : Params) (s : SState) (id : Nat)
    (h : (FetchSched.step P s (.enter id)).2 = .join) :
    ∃ t f, findTask s id = some t ∧ f ∈ s.flights ∧ f.key = t.req.key :=
  join_same_key P s id h

end sched

/-! ## digest strings -/

/-- A digest string that parses names sha256 with 32 bytes or sha512 with 64. -/
theorem accepted_digest_wellformed (t : Bytes) (d : Digest) (h : digestParse t = some d) :
    (d.algo = sha256 ∧ d.checksum.length = 32) ∨ (d.algo = sha512 ∧ d.checksum.length = 64) :=
  digestParse_sound h

/-- The algorithm table the digest model uses is the one in digest.go's
    `setChecksum` (regenerated): same names, same sizes, nothing else. -/
theorem digest_algos_tie :
    Gen.Fetch.digestAlgos =
      [(String.ofList (sha256.map Char.ofNat), 32), (String.ofList (sha512.map Char.ofNat), 64)] ∧
    digestSize sha256 = some 32 ∧ digestSize sha512 = some 64 ∧
    ∀ a, digestSize a ≠ none → a = sha256 ∨ a = sha512 := by
  refine ⟨by decide, by decide, by decide, ?_⟩
  intro a h
  unfold digestSize at h
  split at h
  · exact Or.inl ‹_›
  · split at h
    · exact Or.inr ‹_›
    · exact absurd rfl h

/-- `ParseDigest` accepts exactly the well-formed texts: an algorithm name
    without a colon, the first colon, and hex digits decoding to as many bytes
    as `setChecksum` wants for that algorithm. -/
theorem parse_accepts_exactly_wellformed (t : Bytes) (d : Digest) :
    digestParse t = some d ↔
      ∃ hx, t = d.algo ++ 58 :: hx ∧ 58 ∉ d.algo ∧ hexDecode hx = some d.checksum ∧
        digestSize d.algo = some d.checksum.length :=
  FetchMisc.digestParse_iff t d

/-- The canonical text of a digest (`String()`) parses back to the digest. -/
theorem canonical_text_parses_back (d : Digest) (hs : digestSize d.algo = some d.checksum.length)
    (hb : ∀ b ∈ d.checksum, b < 256) : digestParse (digestRepr d) = some d :=
  (FetchMisc.digestParse_iff _ d).2
    ⟨hexEncode d.checksum, rfl, FetchMisc.algo_no_colon hs, hexDecode_hexEncode _ hb, hs⟩

/-- `UnmarshalText` on any receiver succeeds exactly when `ParseDigest` does,
    and then the receiver holds the parsed digest and its canonical text,
    whatever it held before. -/
theorem unmarshal_agrees_with_parse (d : FetchMisc.DVal) (t : Bytes) :
    (FetchMisc.unmarshal d t).2 = (digestParse t).isSome ∧
    ∀ dg, digestParse t = some dg → (FetchMisc.unmarshal d t).1 = ⟨dg.algo, dg.checksum, digestRepr dg⟩ :=
  FetchMisc.unmarshal_ok d t

/-- `Scan` of what `Value` produced for a parsed digest gives that digest back. -/
theorem scan_value_roundtrip (d0 : FetchMisc.DVal) (t : Bytes) (dg : Digest) (h : digestParse t = some dg)
    (hb : ∀ b ∈ dg.checksum, b < 256) :
    FetchMisc.scan d0 (.str (FetchMisc.value (FetchMisc.unmarshal {} t).1)) = ((FetchMisc.unmarshal {} t).1, false) := by
  have h1 := (FetchMisc.unmarshal_ok {} t).2 dg h
  have hs : digestSize dg.algo = some dg.checksum.length := by
    obtain ⟨_, _, _, _, hs⟩ := (FetchMisc.digestParse_iff t dg).1 h
    exact hs
  have h2 := canonical_text_parses_back dg hs hb
  simp only [FetchMisc.scan, FetchMisc.value, h1]
  rw [(FetchMisc.unmarshal_ok d0 (digestRepr dg)).2 dg h2, (FetchMisc.unmarshal_ok d0 (digestRepr dg)).1, h2]
  rfl

/-- A text that `UnmarshalText` / `Scan` rejects leaves the receiver exactly as
    it was (no digest with one text's algorithm and another's checksum), and
    `Scan` of a string reports an error exactly for the texts `ParseDigest` rejects. -/
theorem rejected_text_leaves_digest_untouched (d : FetchMisc.DVal) (t : Bytes) (h : digestParse t = none) :
    FetchMisc.unmarshal d t = (d, false) ∧ FetchMisc.scan d (.str t) = (d, true) := by
  have h1 := (FetchMisc.unmarshal_ok d t).1
  rw [h] at h1
  have h2 := FetchMisc.unmarshal_reject d t h1
  refine ⟨Prod.ext h2 h1, ?_⟩
  simp only [FetchMisc.scan, h1, h2]
  rfl

/-- `CheckResponse` returns nil exactly for the listed status codes. -/
theorem check_response_ok_iff (codes : List Nat) (status : Nat) :
    FetchMisc.checkResponse codes status = true ↔ status ∈ codes := by
  simp [FetchMisc.checkResponse]

/-- `detectCompression` on a slice of any length (also shorter than the
    longest mask): a kind other than the default is reported only for a
    detector whose whole mask fits into the slice and whose magic bytes are the
    slice's first bytes. -/
theorem sniff_needs_full_magic (b : Bytes) :
    detectCompression b = Kind.ofName Gen.Fetch.defaultKind ∨
    ∃ d ∈ Gen.Fetch.detectors, detectCompression b = Kind.ofName d.1 ∧ d.2.2.1 ≤ b.length ∧ b.take d.2.1.length = d.2.1 := by
  unfold detectCompression
  cases hf : Gen.Fetch.detectors.find? (detFires · b) with
  | none => exact Or.inl rfl
  | some d =>
    refine Or.inr ⟨d, List.mem_of_find?_eq_some hf, rfl, ?_⟩
    have := List.find?_some hf
    simp only [detFires, Bool.and_eq_true, decide_eq_true_eq, beq_iff_eq] at this
    exact ⟨this.1.1, this.1.2⟩

/-! ## the generated tables say what the property needs -/

/-- Every compression constant and every kind named by a table is one the model knows. -/
theorem kind_names_known :
    (Gen.Fetch.kindNames.all fun n => Kind.ofName n != .other) = true ∧
    (Gen.Fetch.detectors.all fun d => Kind.ofName d.1 != .other) = true ∧
    (Gen.Fetch.ctCases.all fun c => Kind.ofName c.2.2 != .other) = true ∧
    (Gen.Fetch.fixupTable.all fun p => Kind.ofName p.1 != .other) = true ∧
    Kind.ofName Gen.Fetch.defaultKind = .none := by
  decide

/-- Only 200 is accepted. -/
theorem accept_status_only_200 : Gen.Fetch.acceptStatus = [200] := by decide

/-- No content type makes the fetcher expect bzip2 (or an unknown kind), and a
    generic content type is never replaced on behalf of a bzip2 body. -/
theorem bzip2_never_expected (ct : String) :
    wantKind ct ≠ some .bzip2 ∧ wantKind ct ≠ some .other ∧ fixupFor .bzip2 = none ∧ fixupFor .other = none := by
  refine ⟨fun h => ?_, fun h => ?_, by decide, by decide⟩
  · rcases wantKind_supported h with h | h | h <;> cases h
  · rcases wantKind_supported h with h | h | h <;> cases h

/-- The fix-up is consistent with the switch: the content type substituted
    for a sniffed kind is one the switch maps back to that kind. -/
theorem fixup_consistent (k : Kind) (ct : String) (h : fixupFor k = some ct) : wantKind ct = some k := by
  cases k <;> simp [fixupFor, Gen.Fetch.fixupTable, Kind.ofName] at h
  all_goals (subst h; decide)

/-- The OCI layer media types and the docker/GHCR spellings select the right decoder. -/
theorem known_content_types :
    wantKind "application/vnd.oci.image.layer.v1.tar" = some .none ∧
    wantKind "application/vnd.oci.image.layer.v1.tar+gzip" = some .gzip ∧
    wantKind "application/vnd.oci.image.layer.v1.tar+zstd" = some .zstd ∧
    wantKind "application/vnd.oci.image.layer.nondistributable.v1.tar+gzip" = some .gzip ∧
    wantKind "application/vnd.docker.image.rootfs.diff.tar.gzip" = some .gzip ∧
    wantKind "application/x-gzip" = some .gzip ∧
    wantKind "application/x-bzip2" = none ∧
    wantKind "application/vnd.oci.image.layer.v1.tar+bzip2" = none := by
  decide

/-- Sniffing: the magic numbers of RFC 1952, RFC 8878 and bzip2, in a window of four bytes. -/
theorem sniff_gzip (x : Nat) (rest : Bytes) (t : Term) : detect (31 :: 139 :: 8 :: x :: rest) t = some .gzip := by
  simp [detect, Gen.Fetch.maxSz, detectCompression, Gen.Fetch.detectors, detFires, Kind.ofName]

theorem sniff_zstd (rest : Bytes) (t : Term) : detect (40 :: 181 :: 47 :: 253 :: rest) t = some .zstd := by
  simp [detect, Gen.Fetch.maxSz, detectCompression, Gen.Fetch.detectors, detFires, Kind.ofName]

theorem sniff_bzip2 (l : Nat) (rest : Bytes) (t : Term) (h1 : 49 ≤ l) (h2 : l ≤ 57) :
    detect (66 :: 90 :: 104 :: l :: rest) t = some .bzip2 := by
  simp [detect, Gen.Fetch.maxSz, detectCompression, Gen.Fetch.detectors, detFires, Kind.ofName, h1, h2]

/-- Fewer bytes than the window: passed through as uncompressed if the
    response ended cleanly, an error otherwise. -/
theorem sniff_short (body : Bytes) (t : Term) (h : body.length < 4) :
    detect body t = if t = .eof then some .none else none := by
  have : ¬ Gen.Fetch.maxSz ≤ body.length := by simp [Gen.Fetch.maxSz]; omega
  simp [detect, this]

/-- The deprecated `Realize` assigns a media type `Layer.Init` reads as a tar. -/
theorem legacy_media_type_is_tar : Gen.Fetch.tarMediaTypes.contains Gen.Fetch.legacyMediaType = true := by
  decide

/-- `Layer.Init`: only the listed media types give a view, and a tar view is
    the fetched file itself (no other bytes can come from it). -/
theorem init_view_is_the_file (P : Params) (mt : String) (payload : Bytes) (v : View)
    (h : initLayer P mt payload = some v) :
    (v = .tar payload ∧ Gen.Fetch.tarMediaTypes.contains mt = true ∧ P.tarOK payload = true) ∨
    (v = .dir ∧ Gen.Fetch.dirMediaTypes.contains mt = true) := by
  unfold initLayer at h
  split at h
  · rename_i hm
    split at h
    · rename_i ht
      simp only [Option.some.injEq] at h
      exact Or.inl ⟨h.symm, hm, ht⟩
    · cases h
  · split at h
    · rename_i hm
      simp only [Option.some.injEq] at h
      exact Or.inr ⟨h.symm, hm⟩
    · cases h

/-- `Layer.Init` as the fetcher calls it (the digest parsed before, the URI
    non-empty) is `initLayer`; called directly it also refuses a malformed
    digest and a filesystem layer without a URI. -/
theorem layer_init_checks (P : Params) (digest : Bytes) (uriEmpty : Bool) (mt : String) (payload : Bytes) :
    (digestParse digest = none → layerInit P digest uriEmpty mt payload = none) ∧
    ((digestParse digest).isSome → uriEmpty = false → layerInit P digest uriEmpty mt payload = initLayer P mt payload) ∧
    (∀ p, layerInit P digest uriEmpty mt payload = some (.tar p) → p = payload ∧ P.tarOK payload = true) := by
  refine ⟨fun h => by simp [layerInit, h], fun h hu => ?_, fun p hp => ?_⟩
  · obtain ⟨d, hd⟩ := Option.isSome_iff_exists.1 h
    simp [layerInit, initLayer, hd, hu]
  · unfold layerInit at hp
    split at hp
    · cases hp
    · split at hp
      · split at hp
        · rename_i ht
          simp only [Option.some.injEq, View.tar.injEq] at hp
          exact ⟨hp.symm, ht⟩
        · cases hp
      · split at hp
        · split at hp <;> cases hp
        · cases hp

/-- The hypotheses of the theorems above are satisfiable: a correct gzip layer
    under a generic content type is published. -/
example :
    let P : Params := { hash := fun _ _ => List.replicate 32 0, unz := fun _ _ _ => some [7, 7],
                        tarOK := fun _ => true, uriOK := fun _ => true }
    let key : Bytes := sha256 ++ 58 :: List.replicate 64 48
    (fetchUnlinked P [] key [104] { body := [31, 139, 8, 0, 1] }).out = some [7, 7] := by
  decide

end ClairModel.Props.C09
