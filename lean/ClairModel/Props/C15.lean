/-
  C15 — A damaged feed is never accepted as a complete snapshot.
  Property theorems only; helper lemmas live in Proofs/Framing.lean.
  The scanners and read loops (Model/Framing.lean) are tied to the parsers in
  /repo by the damage-sweep correspondence of `./check C15`: the real
  Parse / DeltaParse / ParseEnrichment run on every prefix, on readers failing
  at every position and on byte flips, and must answer what the model answers.
-/
import ClairModel.Proofs.Framing

-- every variable of a property statement is bound explicitly: a misspelt name is an error, not a new variable
set_option autoImplicit false

namespace ClairModel.Props.C15
open ClairModel ClairModel.Framing

variable {σ α : Type}

/-! ### framing: self-delimiting documents -/

/-- No strict prefix of a complete document is complete or rejected: a scanner
    that stops at the first closing byte sees every strict prefix as an open
    value.  (Any scanner; the JSON and XML instances follow.) -/
theorem scanner_prefix_free (step : σ → Byte → Step σ) (s : σ) (d : Bytes)
    (h : scanFrom step s 0 d = .complete d.length) (k : Nat) (hk : k < d.length) :
    scanFrom step s 0 (d.take k) = .incomplete := by
  rw [scanFrom_take, h]
  simp only [cutVerdict, Nat.zero_add]
  rw [if_neg (by omega)]

/-- A JSON text whose top-level value is an object or array: no strict prefix
    of a complete one is complete (encoding/json reports io.ErrUnexpectedEOF or
    io.EOF for all of them). -/
theorem json_container_prefix_free (d : Bytes) (h : scanJson d = .complete d.length)
    (k : Nat) (hk : k < d.length) : scanJson (d.take k) = .incomplete :=
  scanner_prefix_free jsonStep jsonInit d h k hk

/-- An XML document (prolog and one root element): no strict prefix of a
    complete one is complete. -/
theorem xml_document_prefix_free (d : Bytes) (h : scanXml d = .complete d.length)
    (k : Nat) (hk : k < d.length) : scanXml (d.take k) = .incomplete :=
  scanner_prefix_free xmlStep xmlInit d h k hk

/-- Exact verdict on every cut of any input: open before the verdict's offset,
    unchanged from there on (so bytes after the value are never looked at). -/
theorem scanner_cut (step : σ → Byte → Step σ) (s : σ) (d : Bytes) (k : Nat) :
    scanFrom step s 0 (d.take k) = cutVerdict (scanFrom step s 0 d) 0 k :=
  scanFrom_take step s 0 d k

/-- The JSON scanner closes a value only on `}` or `]`. -/
theorem json_closes_on_bracket (s : JState) (b : Byte) (h : jsonStep s b = .done) :
    b = 0x7d ∨ b = 0x5d := by
  have pop : ∀ st, (jsonPop st = .done) → True := fun _ _ => trivial
  have endv : ∀ st, jsonEndValue st b = .done → b = 0x7d ∨ b = 0x5d := by
    intro st h
    unfold jsonEndValue at h
    split at h
    · simp at h
    · split at h <;> simp at h
    · split at h
      · simp at h
      · split at h
        · rename_i hb; exact Or.inl hb
        · simp at h
    · split at h
      · simp at h
      · split at h
        · rename_i hb; exact Or.inr hb
        · simp at h
  have begv : ∀ st, jsonBeginValue st b ≠ .done := by
    intro st
    unfold jsonBeginValue
    repeat' split
    all_goals simp
  have aft : ∀ st, jsonAfterScalar st b = .done → b = 0x7d ∨ b = 0x5d := by
    intro st h
    unfold jsonAfterScalar at h
    split at h
    · simp at h
    · exact endv st h
  unfold jsonStep at h
  split at h
  · repeat' split at h
    all_goals simp at h
  · split at h
    · simp at h
    · exact absurd h (begv _)
  · split at h
    · simp at h
    · split at h
      · rename_i hb; exact Or.inr hb
      · exact absurd h (begv _)
  · split at h
    · simp at h
    · split at h
      · rename_i hb; exact Or.inl hb
      · split at h <;> simp at h
  · repeat' split at h
    all_goals simp at h
  · split at h
    · simp at h
    · exact endv _ h
  · repeat' split at h
    all_goals simp at h
  · repeat' split at h
    all_goals simp at h
  · repeat' split at h
    all_goals simp at h
  · repeat' split at h
    all_goals simp at h
  · repeat' split at h
    all_goals first | simp at h | exact aft _ h
  · repeat' split at h
    all_goals first | simp at h | exact aft _ h
  · repeat' split at h
    all_goals simp at h
  · repeat' split at h
    all_goals first | simp at h | exact aft _ h
  · repeat' split at h
    all_goals simp at h
  · repeat' split at h
    all_goals simp at h
  · repeat' split at h
    all_goals first | simp at h | exact aft _ h
  · repeat' split at h
    all_goals first | simp at h | exact aft _ h

/-! ### parsers that decode one document -/

/-- How a `Decode` reads is irrelevant: the outcome depends on the concatenation
    of the chunks only (not on chunk sizes, not on the terminal). -/
theorem decode_chunking_irrelevant (step : σ → Byte → Step σ) (init : σ) (sem : Bytes → Option α)
    (st st' : Stream) (h : st.bytes = st'.bytes) :
    decodeOne step init sem st = decodeOne step init sem st' := by
  unfold decodeOne
  rw [scanChunks_eq, scanChunks_eq]
  have h' : st.chunks.flatten = st'.chunks.flatten := h
  simp only [Stream.bytes, h']

/-- ubuntu, oracle, suse, photon `Parse` (and alpine, debian before their
    end-of-input check): on ANY stream whose
    bytes are a prefix of the intact feed (any cut position, any chunking,
    ending in EOF or in a read error) the parser fails or returns exactly what
    it returns on the intact feed.  Never anything else, in particular never a
    strict subset. -/
theorem one_decode_never_subset (step : σ → Byte → Step σ) (init : σ) (sem : Bytes → Option α)
    (d : Bytes) (st : Stream) (k : Nat) (hst : st.bytes = d.take k) :
    decodeOne step init sem st = .err ∨
    decodeOne step init sem st = decodeOne step init sem ⟨[d], .eof⟩ := by
  unfold decodeOne
  rw [scanChunks_eq, scanChunks_eq]
  have hb : (Stream.mk [d] Term.eof).bytes = d := by simp [Stream.bytes]
  have hc : st.chunks.flatten = d.take k := hst
  simp only [hb, hc, hst, List.flatten_cons, List.flatten_nil, List.append_nil]
  rw [scanFrom_take]
  cases hw : scanFrom step init 0 d with
  | incomplete => left; simp [cutVerdict]
  | invalid n => left; simp only [cutVerdict, Nat.zero_add]; by_cases hn : n ≤ k <;> simp [hn]
  | complete n =>
    simp only [cutVerdict, Nat.zero_add]
    by_cases hn : n ≤ k
    · right
      rw [if_pos hn]
      simp only [List.take_take, Nat.min_eq_left hn]
    · left; rw [if_neg hn]

/-- The same for a JSON document decoded once (the decode step of alpine, debian, cvss's NVD feed). -/
theorem json_decode_never_subset (sem : Bytes → Option α) (d : Bytes) (st : Stream) (k : Nat)
    (hst : st.bytes = d.take k) :
    decodeOne jsonStep jsonInit sem st = .err ∨
    decodeOne jsonStep jsonInit sem st = decodeOne jsonStep jsonInit sem ⟨[d], .eof⟩ :=
  one_decode_never_subset jsonStep jsonInit sem d st k hst

/-- The same for the OVAL feeds (ubuntu, oracle, suse, photon). -/
theorem xml_decode_never_subset (sem : Bytes → Option α) (d : Bytes) (st : Stream) (k : Nat)
    (hst : st.bytes = d.take k) :
    decodeOne xmlStep xmlInit sem st = .err ∨
    decodeOne xmlStep xmlInit sem st = decodeOne xmlStep xmlInit sem ⟨[d], .eof⟩ :=
  one_decode_never_subset xmlStep xmlInit sem d st k hst

/-- A cut strictly inside the document always fails. -/
theorem one_decode_truncation_detected (step : σ → Byte → Step σ) (init : σ) (sem : Bytes → Option α)
    (d : Bytes) (n : Nat) (hd : scanFrom step init 0 d = .complete n)
    (st : Stream) (k : Nat) (hst : st.bytes = d.take k) (hk : k < n) :
    decodeOne step init sem st = .err := by
  unfold decodeOne
  rw [scanChunks_eq]
  have hc : st.chunks.flatten = d.take k := hst
  rw [hc, scanFrom_take, hd]
  simp only [cutVerdict, Nat.zero_add]
  rw [if_neg (by omega)]

/-- alpine and debian `Parse` (decode, then `Token()` must report EOF): success
    implies that the reader ended in EOF and that the whole input is one
    document followed by white space only — a document that a corrupt byte
    closes early, with the rest of the feed behind it, is a failure. -/
theorem whole_input_is_one_document (step : σ → Byte → Step σ) (init : σ) (sem : Bytes → Option α)
    (st : Stream) (v : α) (h : decodeOneEnd step init sem st = .ok v) :
    st.term = .eof ∧ ∃ n, scanFrom step init 0 st.bytes = .complete n ∧
      (st.bytes.drop n).all isWs = true ∧ sem (st.bytes.take n) = some v := by
  unfold decodeOneEnd at h
  rw [scanChunks_eq] at h
  split at h
  · rename_i n hn
    split at h
    · rename_i hc
      refine ⟨hc.1, n, hn, hc.2, ?_⟩
      split at h
      · rename_i w hw; simp only [Res.ok.injEq] at h; rw [hw, h]
      · simp at h
    · simp at h
  · simp at h

/-- A byte other than white space after the document is a failure. -/
theorem early_close_detected (step : σ → Byte → Step σ) (init : σ) (sem : Bytes → Option α)
    (st : Stream) (n : Nat) (hn : scanFrom step init 0 st.bytes = .complete n)
    (b : Byte) (hb : b ∈ st.bytes.drop n) (hw : isWs b = false) :
    decodeOneEnd step init sem st = .err := by
  unfold decodeOneEnd
  rw [scanChunks_eq]
  have hn' : scanFrom step init 0 st.chunks.flatten = .complete n := hn
  rw [hn']
  simp only
  have : ¬ ((st.bytes.drop n).all isWs = true) := by
    intro hall
    rw [List.all_eq_true] at hall
    have := hall b hb
    rw [hw] at this
    exact Bool.noConfusion this
  rw [if_neg (fun hc => this hc.2)]

/-- alpine and debian `Parse` on any stream whose bytes are a prefix of a valid
    feed: fails, or returns exactly the intact result. -/
theorem json_end_never_subset (step : σ → Byte → Step σ) (init : σ) (sem : Bytes → Option α)
    (d : Bytes) (v : α) (hd : decodeOneEnd step init sem ⟨[d], .eof⟩ = .ok v)
    (st : Stream) (k : Nat) (hst : st.bytes = d.take k) :
    decodeOneEnd step init sem st = .err ∨ decodeOneEnd step init sem st = .ok v := by
  obtain ⟨_, n, hn, hws, hsem⟩ := whole_input_is_one_document step init sem _ v hd
  have hb : (Stream.mk [d] Term.eof).bytes = d := by simp [Stream.bytes]
  rw [hb] at hn hws hsem
  unfold decodeOneEnd
  rw [scanChunks_eq]
  have hc : st.chunks.flatten = d.take k := hst
  rw [hc, hst, scanFrom_take, hn]
  simp only [cutVerdict, Nat.zero_add]
  by_cases hk : n ≤ k
  · rw [if_pos hk]
    simp only [List.take_take, Nat.min_eq_left hk, hsem]
    by_cases hc2 : st.term = .eof ∧ ((d.take k).drop n).all isWs = true
    · right; rw [if_pos hc2]
    · left; rw [if_neg hc2]
  · left; rw [if_neg hk]

/-- aws `Parse` (decode, then read to the end of the input): success implies
    the reader ended in EOF — a read error anywhere, also after the document
    (a gzip checksum or length mismatch), is a parse failure. -/
theorem drain_propagates_aws (step : σ → Byte → Step σ) (init : σ) (sem : Bytes → Option α)
    (st : Stream) (v : α) (h : decodeOneDrain step init sem st = .ok v) : st.term = .eof := by
  unfold decodeOneDrain at h
  split at h
  · split at h
    · assumption
    · simp at h
  · simp at h

/-- aws `Parse` on a prefix of the intact plaintext: fails or equals the intact result. -/
theorem aws_never_subset (step : σ → Byte → Step σ) (init : σ) (sem : Bytes → Option α)
    (d : Bytes) (st : Stream) (k : Nat) (hst : st.bytes = d.take k) :
    decodeOneDrain step init sem st = .err ∨
    decodeOneDrain step init sem st = decodeOneDrain step init sem ⟨[d], .eof⟩ := by
  unfold decodeOneDrain
  rcases one_decode_never_subset step init sem d st k hst with h | h
  · left; rw [h]
  · rw [h]
    cases decodeOne step init sem ⟨[d], .eof⟩ with
    | err => left; rfl
    | ok v =>
      by_cases ht : st.term = .eof
      · right; simp [ht]
      · left; simp [ht]

/-! ### the VEX line loop -/

/-- rhel/vex `DeltaParse` (after the fix): success implies the reader ended in
    EOF, nothing was left unterminated, and the result is the translation of
    every line of the input. -/
theorem loop_propagates_vex (sem : Bytes → Option α) (st : Stream) (vs : List α)
    (h : lineLoop sem st = .ok vs) :
    st.term = .eof ∧ (splitLines st.bytes).1.flatten = st.bytes ∧
    mapAll sem (splitLines st.bytes).1 = some vs := by
  unfold lineLoop at h
  rcases hs : splitLines st.bytes with ⟨ls, rest⟩
  rw [hs] at h
  simp only at h
  cases hm : mapAll sem ls with
  | none => simp [hm] at h
  | some ws =>
    simp only [hm] at h
    split at h
    · rename_i hc
      simp only [Res.ok.injEq] at h
      have hf := splitLines_flatten st.bytes
      rw [hs] at hf
      simp only [hc.2, List.append_nil] at hf
      exact ⟨hc.1, hf, by rw [h]⟩
    · simp at h

/-- A read error (a corrupt or truncated snappy stream) is always a failure. -/
theorem vex_read_error_detected (sem : Bytes → Option α) (chunks : List Bytes) :
    lineLoop sem ⟨chunks, .err⟩ = .err := by
  unfold lineLoop
  rcases splitLines (Stream.mk chunks Term.err).bytes with ⟨ls, rest⟩
  simp only
  cases mapAll sem ls <;> simp

/-- A final record without its newline is a failure, whatever the terminal. -/
theorem vex_unterminated_detected (sem : Bytes → Option α) (st : Stream)
    (h : (splitLines st.bytes).2 ≠ []) : lineLoop sem st = .err := by
  unfold lineLoop
  rcases hs : splitLines st.bytes with ⟨ls, rest⟩
  rw [hs] at h
  simp only at h ⊢
  cases mapAll sem ls <;> simp [h]

/-- On any stream whose bytes are a prefix of the intact spool, `DeltaParse`
    fails or returns the translation of the first `j` lines; and when the
    terminal is a read error it fails. -/
theorem vex_prefix_damage (sem : Bytes → Option α) (d : Bytes) (vs : List α)
    (hd : lineLoop sem ⟨[d], .eof⟩ = .ok vs)
    (st : Stream) (k : Nat) (hst : st.bytes = d.take k) :
    lineLoop sem st = .err ∨ ∃ j, lineLoop sem st = .ok (vs.take j) ∧ st.term = .eof ∧
      (splitLines st.bytes).2 = [] := by
  have hd' := loop_propagates_vex sem _ vs hd
  have hb : (Stream.mk [d] Term.eof).bytes = d := by simp [Stream.bytes]
  rw [hb] at hd'
  obtain ⟨more, hm⟩ := splitLines_take d k
  unfold lineLoop
  rw [hst]
  rcases hs : splitLines (d.take k) with ⟨ls, rest⟩
  rw [hs] at hm
  simp only at hm ⊢
  have hmap := hd'.2.2
  rw [hm] at hmap
  have := mapAll_append sem ls more vs hmap
  rw [this]
  simp only
  by_cases hc : st.term = .eof ∧ rest = []
  · right
    refine ⟨ls.length, ?_, hc.1, ?_⟩
    · rw [if_pos hc]
    · exact hc.2
  · left; rw [if_neg hc]

/-- Line-delimited records alone cannot detect a cut at a line boundary: for
    every sequence of well-formed lines and every `j`, the first `j` lines
    followed by a clean EOF are accepted with the translation of those `j`
    lines.  Detection of such a cut rests on the wrapper (and the snappy
    framing of the VEX spool has no end marker: finding vex-spool-line-boundary). -/
theorem not_prefix_free_jsonl (sem : Bytes → Option α) (ls : List Bytes)
    (hl : ∀ l ∈ ls, IsLine l) (vs : List α) (hv : mapAll sem ls = some vs) (j : Nat) :
    lineLoop sem ⟨[(ls.take j).flatten], .eof⟩ = .ok (vs.take j) := by
  unfold lineLoop
  have hb : (Stream.mk [(ls.take j).flatten] Term.eof).bytes = (ls.take j).flatten := by simp [Stream.bytes]
  rw [hb, splitLines_lines _ (fun l h => hl l (List.mem_of_mem_take h))]
  simp only
  have : mapAll sem (ls.take j ++ ls.drop j) = some vs := by rw [List.take_append_drop]; exact hv
  have h2 := mapAll_append sem _ _ vs this
  rw [h2]
  simp only [List.length_take, and_self, if_true]
  congr 1
  have hlen := mapAll_length sem ls vs hv
  rw [List.take_eq_take_iff]
  omega

/-- Concrete witness of the above with a strict subset: two records, cut after the first. -/
theorem vex_line_boundary_counterexample :
    let sem : Bytes → Option Bytes := some
    lineLoop sem ⟨[[0x61, 10, 0x62, 10]], .eof⟩ = .ok [[0x61, 10], [0x62, 10]] ∧
    lineLoop sem ⟨[[0x61, 10]], .eof⟩ = .ok [[0x61, 10]] := by
  decide

/-- The loop as it was before commit 389c2ebf accepted a stream that ends in a
    read error after one of two records, and dropped an unterminated record. -/
theorem vex_unfixed_counterexample :
    let sem : Bytes → Option Bytes := some
    lineLoopUnfixed sem ⟨[[0x61, 10]], .err⟩ = .ok [[0x61, 10]] ∧
    lineLoopUnfixed sem ⟨[[0x61, 10, 0x62]], .eof⟩ = .ok [[0x61, 10]] ∧
    lineLoop sem ⟨[[0x61, 10]], .err⟩ = .err ∧
    lineLoop sem ⟨[[0x61, 10, 0x62]], .eof⟩ = .err := by
  decide

/-! ### the enrichment record loops -/

/-- epss `ParseEnrichment`: success implies the reader ended in EOF and only
    white space followed the last complete record. -/
theorem loop_propagates_epss (step : σ → Byte → Step σ) (init : σ) (sem : Bytes → Option α)
    (st : Stream) (vs : List α) (h : recordLoop step init sem st = .ok vs) :
    st.term = .eof ∧
    (splitValues step init (st.bytes.length + 1) st.bytes).2 = .clean ∧
    mapAll sem (splitValues step init (st.bytes.length + 1) st.bytes).1 = some vs := by
  unfold recordLoop at h
  rcases hs : splitValues step init (st.bytes.length + 1) st.bytes with ⟨vals, tail⟩
  rw [hs] at h
  simp only at h ⊢
  cases hm : mapAll sem vals with
  | none => simp [hm] at h
  | some ws =>
    simp only [hm] at h
    split at h
    · rename_i hc
      simp only [Res.ok.injEq] at h
      exact ⟨hc.1, hc.2, by rw [h]⟩
    · simp at h

/-- A read error is always a failure of the epss loop, also exactly at a record boundary. -/
theorem epss_read_error_detected (step : σ → Byte → Step σ) (init : σ) (sem : Bytes → Option α)
    (chunks : List Bytes) : recordLoop step init sem ⟨chunks, .err⟩ = .err := by
  unfold recordLoop
  rcases splitValues step init ((Stream.mk chunks Term.err).bytes.length + 1) (Stream.mk chunks Term.err).bytes with ⟨vals, tail⟩
  simp only
  cases mapAll sem vals <;> simp

/-- epss `ParseEnrichment` on any stream whose bytes are a prefix of a valid
    spool: it fails, or returns the first `j` records after a clean EOF; with a
    read error as terminal it always fails.  (`j` short of all records is the
    cut at a record boundary: finding still-valid-epss.) -/
theorem epss_prefix_damage (step : σ → Byte → Step σ) (init : σ) (sem : Bytes → Option α)
    (d : Bytes) (vs : List α) (hd : recordLoop step init sem ⟨[d], .eof⟩ = .ok vs)
    (st : Stream) (k : Nat) (hst : st.bytes = d.take k) :
    recordLoop step init sem st = .err ∨
    ∃ j, recordLoop step init sem st = .ok (vs.take j) ∧ st.term = .eof := by
  have hd' := loop_propagates_epss step init sem _ vs hd
  have hb : (Stream.mk [d] Term.eof).bytes = d := by simp [Stream.bytes]
  rw [hb] at hd'
  obtain ⟨more, hm⟩ := splitValues_take step init ((d.take k).length + 1) (d.length + 1) d k
    (by omega) (by omega)
  unfold recordLoop
  rw [hst]
  rcases hs : splitValues step init ((d.take k).length + 1) (d.take k) with ⟨vals, tail⟩
  rw [hs] at hm
  simp only at hm ⊢
  have hmap := hd'.2.2
  rw [hm] at hmap
  rw [mapAll_append sem vals more vs hmap]
  simp only
  by_cases hc : st.term = .eof ∧ tail = .clean
  · right; exact ⟨vals.length, by rw [if_pos hc], hc.1⟩
  · left; rw [if_neg hc]

/-- cvss `ParseEnrichment`: the same, and a successful result always ends in
    the one empty record that was appended before the `Decode` that hit EOF. -/
theorem loop_propagates_cvss (step : σ → Byte → Step σ) (init : σ) (sem : Bytes → Option α) (zero : α)
    (st : Stream) (rs : List α) (h : recordLoopCvss step init sem zero st = .ok rs) :
    st.term = .eof ∧ ∃ vs, rs = vs ++ [zero] ∧ recordLoop step init sem st = .ok vs := by
  unfold recordLoopCvss at h
  cases hr : recordLoop step init sem st with
  | err => simp [hr] at h
  | ok vs =>
    simp only [hr, Res.ok.injEq] at h
    exact ⟨(loop_propagates_epss step init sem st vs hr).1, vs, h.symm, rfl⟩

theorem cvss_read_error_detected (step : σ → Byte → Step σ) (init : σ) (sem : Bytes → Option α) (zero : α)
    (chunks : List Bytes) : recordLoopCvss step init sem zero ⟨chunks, .err⟩ = .err := by
  unfold recordLoopCvss
  rw [epss_read_error_detected]

/-- The same for cvss (every successful result carries the trailing empty record). -/
theorem cvss_prefix_damage (step : σ → Byte → Step σ) (init : σ) (sem : Bytes → Option α) (zero : α)
    (d : Bytes) (rs : List α) (hd : recordLoopCvss step init sem zero ⟨[d], .eof⟩ = .ok rs)
    (st : Stream) (k : Nat) (hst : st.bytes = d.take k) :
    recordLoopCvss step init sem zero st = .err ∨
    ∃ vs j, rs = vs ++ [zero] ∧ recordLoopCvss step init sem zero st = .ok (vs.take j ++ [zero]) ∧
      st.term = .eof := by
  obtain ⟨_, vs, hrs, hvs⟩ := loop_propagates_cvss step init sem zero _ rs hd
  unfold recordLoopCvss
  rcases epss_prefix_damage step init sem d vs hvs st k hst with h | ⟨j, h, ht⟩
  · left; rw [h]
  · right; exact ⟨vs, j, hrs, by rw [h], ht⟩

/-! ### compression wrappers, by contract -/

/-- Contract of a decompressor on the compressed feed `z`: every strict prefix
    of `z` makes it end in an error (not EOF) after delivering a prefix of the
    plaintext.  (gzip, bzip2 and zstd with their end-of-stream markers and
    checksums, read to the end; checked on the real decompressors by the harness.) -/
structure DetectsTruncation (dec : Bytes → Bytes × Term) (z : Bytes) : Prop where
  term_err : ∀ k, k < z.length → (dec (z.take k)).2 = .err
  plain_prefix : ∀ k, k < z.length → ∃ j, (dec (z.take k)).1 = (dec z).1.take j

/-- Under that contract a truncated compressed spool never parses: line loop. -/
theorem compressed_truncation_detected_lines (sem : Bytes → Option α) (dec : Bytes → Bytes × Term)
    (z : Bytes) (hc : DetectsTruncation dec z) (k : Nat) (hk : k < z.length) :
    lineLoop sem ⟨[(dec (z.take k)).1], (dec (z.take k)).2⟩ = .err := by
  rw [hc.term_err k hk]
  exact vex_read_error_detected sem _

/-- … record loop. -/
theorem compressed_truncation_detected_records (step : σ → Byte → Step σ) (init : σ)
    (sem : Bytes → Option α) (dec : Bytes → Bytes × Term)
    (z : Bytes) (hc : DetectsTruncation dec z) (k : Nat) (hk : k < z.length) :
    recordLoop step init sem ⟨[(dec (z.take k)).1], (dec (z.take k)).2⟩ = .err := by
  rw [hc.term_err k hk]
  exact epss_read_error_detected step init sem _

/-- … decode-and-drain (aws behind gzip). -/
theorem compressed_truncation_detected_drain (step : σ → Byte → Step σ) (init : σ)
    (sem : Bytes → Option α) (dec : Bytes → Bytes × Term)
    (z : Bytes) (hc : DetectsTruncation dec z) (k : Nat) (hk : k < z.length) :
    decodeOneDrain step init sem ⟨[(dec (z.take k)).1], (dec (z.take k)).2⟩ = .err := by
  unfold decodeOneDrain
  rw [hc.term_err k hk]
  cases decodeOne step init sem _ <;> simp

/-- … a single decode without drain: fails, or equals the intact result (when
    only bytes after the document were lost). -/
theorem compressed_truncation_one_decode (step : σ → Byte → Step σ) (init : σ)
    (sem : Bytes → Option α) (dec : Bytes → Bytes × Term)
    (z : Bytes) (hc : DetectsTruncation dec z) (k : Nat) (hk : k < z.length) :
    decodeOne step init sem ⟨[(dec (z.take k)).1], (dec (z.take k)).2⟩ = .err ∨
    decodeOne step init sem ⟨[(dec (z.take k)).1], (dec (z.take k)).2⟩ =
      decodeOne step init sem ⟨[(dec z).1], .eof⟩ := by
  obtain ⟨j, hj⟩ := hc.plain_prefix k hk
  exact one_decode_never_subset step init sem (dec z).1 _ j (by simp [Stream.bytes, hj])

/-- The snappy framing of the VEX spool has no end marker: a cut at a chunk
    boundary is a clean EOF.  Contract: off the chunk boundaries a cut is an error. -/
structure DetectsOffBoundary (dec : Bytes → Bytes × Term) (z : Bytes) (boundary : Nat → Prop) : Prop where
  term_err : ∀ k, k < z.length → ¬ boundary k → (dec (z.take k)).2 = .err

theorem snappy_truncation_detected_off_boundary (sem : Bytes → Option α) (dec : Bytes → Bytes × Term)
    (z : Bytes) (boundary : Nat → Prop) (hc : DetectsOffBoundary dec z boundary)
    (k : Nat) (hk : k < z.length) (hb : ¬ boundary k) :
    lineLoop sem ⟨[(dec (z.take k)).1], (dec (z.take k)).2⟩ = .err := by
  rw [hc.term_err k hk hb]
  exact vex_read_error_detected sem _

/-! ### the update manager -/

/-- driveUpdater hands nothing to the store when Parse fails (or Fetch fails,
    or reports the database unchanged): the previous snapshot stays. -/
theorem manager_stores_nothing_on_parse_error (fetch : FetchOut) :
    (drive fetch (Res.err : Res α)).1 = .none := by
  cases fetch <;> rfl

/-- The store is updated exactly with the value of a successful parse of a
    successful fetch. -/
theorem manager_stores_iff (fetch : FetchOut) (parse : Res α) (v : α) :
    (drive fetch parse).1 = .update v ↔ fetch = .fetched ∧ parse = .ok v := by
  cases fetch <;> cases parse <;> simp [drive]

/-- End to end for a one-document parser: whatever prefix of the feed reaches
    it, the store is either not touched or receives the intact snapshot. -/
theorem damaged_feed_never_replaces_snapshot (step : σ → Byte → Step σ) (init : σ)
    (sem : Bytes → Option α) (d : Bytes) (st : Stream) (k : Nat) (hst : st.bytes = d.take k) :
    (drive .fetched (decodeOne step init sem st)).1 = .none ∨
    (drive .fetched (decodeOne step init sem st)).1 =
      (drive .fetched (decodeOne step init sem ⟨[d], .eof⟩)).1 := by
  rcases one_decode_never_subset step init sem d st k hst with h | h
  · left; rw [h]; rfl
  · right; rw [h]

/-! ### hypotheses are satisfiable -/

example : scanJson [0x7b, 0x22, 0x61, 0x22, 0x3a, 0x5b, 0x31, 0x2c, 0x32, 0x5d, 0x7d] = .complete 11 := by decide
example : scanXml [0x3c, 0x61, 0x3e, 0x3c, 0x62, 0x2f, 0x3e, 0x3c, 0x2f, 0x61, 0x3e] = .complete 11 := by decide
example : recordLoop jsonStep jsonInit (some : Bytes → Option Bytes) ⟨[[0x7b, 0x7d, 10, 0x5b, 0x5d, 10]], .eof⟩
    = .ok [[0x7b, 0x7d], [0x5b, 0x5d]] := by decide

end ClairModel.Props.C15
