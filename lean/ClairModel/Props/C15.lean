/-
  C15 — A damaged feed is never accepted as a complete snapshot.
  Property theorems only; helper lemmas live in Proofs/Framing.lean.
  The scanners and read loops (Model/Framing.lean) are tied to the parsers in
  /repo by the damage-sweep correspondence of `./check C15`: the real
  Parse / DeltaParse / ParseEnrichment run on every prefix, on readers failing
  at every position and on byte flips, and must answer what the model answers.
-/
import ClairModel.Proofs.Framing
import ClairModel.Proofs.FeedTransfer
import ClairModel.Lib.Sm

-- every variable of a property statement is bound explicitly: a misspelt name is an error, not a new variable
set_option autoImplicit false

namespace ClairModel.Props.C15
open ClairModel ClairModel.Framing

variable {σ α : Type}

/-! ### framing: self-delimiting documents -/

/-- No strict prefix of a complete document is complete or rejected: a scanner
    that stops at the first closing byte sees every strict prefix as an open
    value.  (Any scanner; the JSON and XML instances follow.) -/
theorem scanner_prefix_free (step : σ → Byte → Step σ) (s : σ) (d : Bytes)
    (h : scanFrom step s 0 d = .complete d.length) (k : Nat) (hk : k < d.length) :
    scanFrom step s 0 (d.take k) = .incomplete := by
  rw [scanFrom_take, h]
  simp only [cutVerdict, Nat.zero_add]
  rw [if_neg (by omega)]

/-- A JSON text whose top-level value is an object or array: no strict prefix
    of a complete one is complete (encoding/json reports io.ErrUnexpectedEOF or
    io.EOF for all of them). -/
theorem json_container_prefix_free (d : Bytes) (h : scanJson d = .complete d.length)
    (k : Nat) (hk : k < d.length) : scanJson (d.take k) = .incomplete :=
  scanner_prefix_free jsonStep jsonInit d h k hk

/-- An XML document (prolog and one root element): no strict prefix of a
    complete one is complete. -/
theorem xml_document_prefix_free (d : Bytes) (h : scanXml d = .complete d.length)
    (k : Nat) (hk : k < d.length) : scanXml (d.take k) = .incomplete :=
  scanner_prefix_free xmlStep xmlInit d h k hk

/-- Exact verdict on every cut of any input: open before the verdict's offset,
    unchanged from there on (so bytes after the value are never looked at). -/
theorem scanner_cut (step : σ → Byte → Step σ) (s : σ) (d : Bytes) (k : Nat) :
    scanFrom step s 0 (d.take k) = cutVerdict (scanFrom step s 0 d) 0 k :=
  scanFrom_take step s 0 d k

/-- The JSON scanner closes a value only on `}` or `]`. -/
theorem json_closes_on_bracket (s : JState) (b : Byte) (h : jsonStep s b = .done) :
    b = 0x7d ∨ b = 0x5d := by
  have pop : ∀ st, (jsonPop st = .done) → True := fun _ _ => trivial
  have endv : ∀ st, jsonEndValue st b = .done → b = 0x7d ∨ b = 0x5d := by
    intro st h
    unfold jsonEndValue at h
    split at h
    · simp at h
    · split at h <;> simp at h
    · split at h
      · simp at h
      · split at h
        · rename_i hb; exact Or.inl hb
        · simp at h
    · split at h
      · simp at h
      · split at h
        · rename_i hb; exact Or.inr hb
        · simp at h
  have begv : ∀ st, jsonBeginValue st b ≠ .done := by
    intro st
    unfold jsonBeginValue
    repeat' split
    all_goals simp
  have aft : ∀ st, jsonAfterScalar st b = .done → b = 0x7d ∨ b = 0x5d := by
    intro st h
    unfold jsonAfterScalar at h
    split at h
    · simp at h
    · exact endv st h
  unfold jsonStep at h
  split at h
  · repeat' split at h
    all_goals simp at h
  · split at h
    · simp at h
    · exact absurd h (begv _)
  · split at h
    · simp at h
    · split at h
      · rename_i hb; exact Or.inr hb
      · exact absurd h (begv _)
  · split at h
    · simp at h
    · split at h
      · rename_i hb; exact Or.inl hb
      · split at h <;> simp at h
  · repeat' split at h
    all_goals simp at h
  · split at h
    · simp at h
    · exact endv _ h
  · repeat' split at h
    all_goals simp at h
  · repeat' split at h
    all_goals simp at h
  · repeat' split at h
    all_goals simp at h
  · repeat' split at h
    all_goals simp at h
  · repeat' split at h
    all_goals first | simp at h | exact aft _ h
  · repeat' split at h
    all_goals first | simp at h | exact aft _ h
  · repeat' split at h
    all_goals simp at h
  · repeat' split at h
    all_goals first | simp at h | exact aft _ h
  · repeat' split at h
    all_goals simp at h
  · repeat' split at h
    all_goals simp at h
  · repeat' split at h
    all_goals first | simp at h | exact aft _ h
  · repeat' split at h
    all_goals first | simp at h | exact aft _ h

/-! ### parsers that decode one document -/

/-- How a `Decode` reads is irrelevant: the outcome depends on the concatenation
    of the chunks only (not on chunk sizes, not on the terminal). -/
theorem decode_chunking_irrelevant (step : σ → Byte → Step σ) (init : σ) (sem : Bytes → Option α)
    (st st' : Stream) (h : st.bytes = st'.bytes) :
    decodeOne step init sem st = decodeOne step init sem st' := by
  unfold decodeOne
  rw [scanChunks_eq, scanChunks_eq]
  have h' : st.chunks.flatten = st'.chunks.flatten := h
  simp only [Stream.bytes, h']

/-- ubuntu, oracle, suse, photon `Parse` (and alpine, debian before their
    end-of-input check): on ANY stream whose
    bytes are a prefix of the intact feed (any cut position, any chunking,
    ending in EOF or in a read error) the parser fails or returns exactly what
    it returns on the intact feed.  Never anything else, in particular never a
    strict subset. -/
theorem one_decode_never_subset (step : σ → Byte → Step σ) (init : σ) (sem : Bytes → Option α)
    (d : Bytes) (st : Stream) (k : Nat) (hst : st.bytes = d.take k) :
    decodeOne step init sem st = .err ∨
    decodeOne step init sem st = decodeOne step init sem ⟨[d], .eof⟩ := by
  unfold decodeOne
  rw [scanChunks_eq, scanChunks_eq]
  have hb : (Stream.mk [d] Term.eof).bytes = d := by simp [Stream.bytes]
  have hc : st.chunks.flatten = d.take k := hst
  simp only [hb, hc, hst, List.flatten_cons, List.flatten_nil, List.append_nil]
  rw [scanFrom_take]
  cases hw : scanFrom step init 0 d with
  | incomplete => left; simp [cutVerdict]
  | invalid n => left; simp only [cutVerdict, Nat.zero_add]; by_cases hn : n ≤ k <;> simp [hn]
  | complete n =>
    simp only [cutVerdict, Nat.zero_add]
    by_cases hn : n ≤ k
    · right
      rw [if_pos hn]
      simp only [List.take_take, Nat.min_eq_left hn]
    · left; rw [if_neg hn]

/-- The same for a JSON document decoded once (the decode step of alpine, debian, cvss's NVD feed). -/
theorem json_decode_never_subset (sem : Bytes → Option α) (d : Bytes) (st : Stream) (k : Nat)
    (hst : st.bytes = d.take k) :
    decodeOne jsonStep jsonInit sem st = .err ∨
    decodeOne jsonStep jsonInit sem st = decodeOne jsonStep jsonInit sem ⟨[d], .eof⟩ :=
  one_decode_never_subset jsonStep jsonInit sem d st k hst

/-- The same for the OVAL feeds (ubuntu, oracle, suse, photon). -/
theorem xml_decode_never_subset (sem : Bytes → Option α) (d : Bytes) (st : Stream) (k : Nat)
    (hst : st.bytes = d.take k) :
    decodeOne xmlStep xmlInit sem st = .err ∨
    decodeOne xmlStep xmlInit sem st = decodeOne xmlStep xmlInit sem ⟨[d], .eof⟩ :=
  one_decode_never_subset xmlStep xmlInit sem d st k hst

/-- A cut strictly inside the document always fails. -/
theorem one_decode_truncation_detected (step : σ → Byte → Step σ) (init : σ) (sem : Bytes → Option α)
    (d : Bytes) (n : Nat) (hd : scanFrom step init 0 d = .complete n)
    (st : Stream) (k : Nat) (hst : st.bytes = d.take k) (hk : k < n) :
    decodeOne step init sem st = .err := by
  unfold decodeOne
  rw [scanChunks_eq]
  have hc : st.chunks.flatten = d.take k := hst
  rw [hc, scanFrom_take, hd]
  simp only [cutVerdict, Nat.zero_add]
  rw [if_neg (by omega)]

/-- alpine and debian `Parse` (decode, then `Token()` must report EOF): success
    implies that the reader ended in EOF and that the whole input is one
    document followed by white space only — a document that a corrupt byte
    closes early, with the rest of the feed behind it, is a failure. -/
theorem whole_input_is_one_document (step : σ → Byte → Step σ) (init : σ) (sem : Bytes → Option α)
    (st : Stream) (v : α) (h : decodeOneEnd step init sem st = .ok v) :
    st.term = .eof ∧ ∃ n, scanFrom step init 0 st.bytes = .complete n ∧
      (st.bytes.drop n).all isWs = true ∧ sem (st.bytes.take n) = some v := by
  unfold decodeOneEnd at h
  rw [scanChunks_eq] at h
  split at h
  · rename_i n hn
    split at h
    · rename_i hc
      refine ⟨hc.1, n, hn, hc.2, ?_⟩
      split at h
      · rename_i w hw; simp only [Res.ok.injEq] at h; rw [hw, h]
      · simp at h
    · simp at h
  · simp at h

/-- A byte other than white space after the document is a failure. -/
theorem early_close_detected (step : σ → Byte → Step σ) (init : σ) (sem : Bytes → Option α)
    (st : Stream) (n : Nat) (hn : scanFrom step init 0 st.bytes = .complete n)
    (b : Byte) (hb : b ∈ st.bytes.drop n) (hw : isWs b = false) :
    decodeOneEnd step init sem st = .err := by
  unfold decodeOneEnd
  rw [scanChunks_eq]
  have hn' : scanFrom step init 0 st.chunks.flatten = .complete n := hn
  rw [hn']
  simp only
  have : ¬ ((st.bytes.drop n).all isWs = true) := by
    intro hall
    rw [List.all_eq_true] at hall
    have := hall b hb
    rw [hw] at this
    exact Bool.noConfusion this
  rw [if_neg (fun hc => this hc.2)]

/-- alpine and debian `Parse` on any stream whose bytes are a prefix of a valid
    feed: fails, or returns exactly the intact result. -/
theorem json_end_never_subset (step : σ → Byte → Step σ) (init : σ) (sem : Bytes → Option α)
    (d : Bytes) (v : α) (hd : decodeOneEnd step init sem ⟨[d], .eof⟩ = .ok v)
    (st : Stream) (k : Nat) (hst : st.bytes = d.take k) :
    decodeOneEnd step init sem st = .err ∨ decodeOneEnd step init sem st = .ok v := by
  obtain ⟨_, n, hn, hws, hsem⟩ := whole_input_is_one_document step init sem _ v hd
  have hb : (Stream.mk [d] Term.eof).bytes = d := by simp [Stream.bytes]
  rw [hb] at hn hws hsem
  unfold decodeOneEnd
  rw [scanChunks_eq]
  have hc : st.chunks.flatten = d.take k := hst
  rw [hc, hst, scanFrom_take, hn]
  simp only [cutVerdict, Nat.zero_add]
  by_cases hk : n ≤ k
  · rw [if_pos hk]
    simp only [List.take_take, Nat.min_eq_left hk, hsem]
    by_cases hc2 : st.term = .eof ∧ ((d.take k).drop n).all isWs = true
    · right; rw [if_pos hc2]
    · left; rw [if_neg hc2]
  · left; rw [if_neg hk]

/-- aws `Parse` (decode, then read to the end of the input): success implies
    the reader ended in EOF — a read error anywhere, also after the document
    (a gzip checksum or length mismatch), is a parse failure. -/
theorem drain_propagates_aws (step : σ → Byte → Step σ) (init : σ) (sem : Bytes → Option α)
    (st : Stream) (v : α) (h : decodeOneDrain step init sem st = .ok v) : st.term = .eof := by
  unfold decodeOneDrain at h
  split at h
  · split at h
    · assumption
    · simp at h
  · simp at h

/-- aws `Parse` on a prefix of the intact plaintext: fails or equals the intact result. -/
theorem aws_never_subset (step : σ → Byte → Step σ) (init : σ) (sem : Bytes → Option α)
    (d : Bytes) (st : Stream) (k : Nat) (hst : st.bytes = d.take k) :
    decodeOneDrain step init sem st = .err ∨
    decodeOneDrain step init sem st = decodeOneDrain step init sem ⟨[d], .eof⟩ := by
  unfold decodeOneDrain
  rcases one_decode_never_subset step init sem d st k hst with h | h
  · left; rw [h]
  · rw [h]
    cases decodeOne step init sem ⟨[d], .eof⟩ with
    | err => left; rfl
    | ok v =>
      by_cases ht : st.term = .eof
      · right; simp [ht]
      · left; simp [ht]

/-! ### the VEX line loop -/

/-- rhel/vex `DeltaParse` (after the fix): success implies the reader ended in
    EOF, nothing was left unterminated, and the result is the translation of
    every line of the input. -/
theorem loop_propagates_vex (sem : Bytes → Option α) (st : Stream) (vs : List α)
    (h : lineLoop sem st = .ok vs) :
    st.term = .eof ∧ (splitLines st.bytes).1.flatten = st.bytes ∧
    mapAll sem (splitLines st.bytes).1 = some vs := by
  unfold lineLoop at h
  rcases hs : splitLines st.bytes with ⟨ls, rest⟩
  rw [hs] at h
  simp only at h
  cases hm : mapAll sem ls with
  | none => simp [hm] at h
  | some ws =>
    simp only [hm] at h
    split at h
    · rename_i hc
      simp only [Res.ok.injEq] at h
      have hf := splitLines_flatten st.bytes
      rw [hs] at hf
      simp only [hc.2, List.append_nil] at hf
      exact ⟨hc.1, hf, by rw [h]⟩
    · simp at h

/-- A read error (a corrupt or truncated snappy stream) is always a failure. -/
theorem vex_read_error_detected (sem : Bytes → Option α) (chunks : List Bytes) :
    lineLoop sem ⟨chunks, .err⟩ = .err := by
  unfold lineLoop
  rcases splitLines (Stream.mk chunks Term.err).bytes with ⟨ls, rest⟩
  simp only
  cases mapAll sem ls <;> simp

/-- A final record without its newline is a failure, whatever the terminal. -/
theorem vex_unterminated_detected (sem : Bytes → Option α) (st : Stream)
    (h : (splitLines st.bytes).2 ≠ []) : lineLoop sem st = .err := by
  unfold lineLoop
  rcases hs : splitLines st.bytes with ⟨ls, rest⟩
  rw [hs] at h
  simp only at h ⊢
  cases mapAll sem ls <;> simp [h]

/-- On any stream whose bytes are a prefix of the intact spool, `DeltaParse`
    fails or returns the translation of the first `j` lines; and when the
    terminal is a read error it fails. -/
theorem vex_prefix_damage (sem : Bytes → Option α) (d : Bytes) (vs : List α)
    (hd : lineLoop sem ⟨[d], .eof⟩ = .ok vs)
    (st : Stream) (k : Nat) (hst : st.bytes = d.take k) :
    lineLoop sem st = .err ∨ ∃ j, lineLoop sem st = .ok (vs.take j) ∧ st.term = .eof ∧
      (splitLines st.bytes).2 = [] := by
  have hd' := loop_propagates_vex sem _ vs hd
  have hb : (Stream.mk [d] Term.eof).bytes = d := by simp [Stream.bytes]
  rw [hb] at hd'
  obtain ⟨more, hm⟩ := splitLines_take d k
  unfold lineLoop
  rw [hst]
  rcases hs : splitLines (d.take k) with ⟨ls, rest⟩
  rw [hs] at hm
  simp only at hm ⊢
  have hmap := hd'.2.2
  rw [hm] at hmap
  have := mapAll_append sem ls more vs hmap
  rw [this]
  simp only
  by_cases hc : st.term = .eof ∧ rest = []
  · right
    refine ⟨ls.length, ?_, hc.1, ?_⟩
    · rw [if_pos hc]
    · exact hc.2
  · left; rw [if_neg hc]

/-- Line-delimited records alone cannot detect a cut at a line boundary: for
    every sequence of well-formed lines and every `j`, the first `j` lines
    followed by a clean EOF are accepted with the translation of those `j`
    lines.  Detection of such a cut rests on the wrapper (and the snappy
    framing of the VEX spool has no end marker: finding vex-spool-line-boundary). -/
theorem not_prefix_free_jsonl (sem : Bytes → Option α) (ls : List Bytes)
    (hl : ∀ l ∈ ls, IsLine l) (vs : List α) (hv : mapAll sem ls = some vs) (j : Nat) :
    lineLoop sem ⟨[(ls.take j).flatten], .eof⟩ = .ok (vs.take j) := by
  unfold lineLoop
  have hb : (Stream.mk [(ls.take j).flatten] Term.eof).bytes = (ls.take j).flatten := by simp [Stream.bytes]
  rw [hb, splitLines_lines _ (fun l h => hl l (List.mem_of_mem_take h))]
  simp only
  have : mapAll sem (ls.take j ++ ls.drop j) = some vs := by rw [List.take_append_drop]; exact hv
  have h2 := mapAll_append sem _ _ vs this
  rw [h2]
  simp only [List.length_take, and_self, if_true]
  congr 1
  have hlen := mapAll_length sem ls vs hv
  rw [List.take_eq_take_iff]
  omega

/-- Concrete witness of the above with a strict subset: two records, cut after the first. -/
theorem vex_line_boundary_counterexample :
    let sem : Bytes → Option Bytes := some
    lineLoop sem ⟨[[0x61, 10, 0x62, 10]], .eof⟩ = .ok [[0x61, 10], [0x62, 10]] ∧
    lineLoop sem ⟨[[0x61, 10]], .eof⟩ = .ok [[0x61, 10]] := by
  decide

/-- The loop as it was before commit 389c2ebf accepted a stream that ends in a
    read error after one of two records, and dropped an unterminated record. -/
theorem vex_unfixed_counterexample :
    let sem : Bytes → Option Bytes := some
    lineLoopUnfixed sem ⟨[[0x61, 10]], .err⟩ = .ok [[0x61, 10]] ∧
    lineLoopUnfixed sem ⟨[[0x61, 10, 0x62]], .eof⟩ = .ok [[0x61, 10]] ∧
    lineLoop sem ⟨[[0x61, 10]], .err⟩ = .err ∧
    lineLoop sem ⟨[[0x61, 10, 0x62]], .eof⟩ = .err := by
  decide

/-! ### the enrichment record loops -/

/-- epss `ParseEnrichment`: success implies the reader ended in EOF and only
    white space followed the last complete record. -/
theorem loop_propagates_epss (step : σ → Byte → Step σ) (init : σ) (sem : Bytes → Option α)
    (st : Stream) (vs : List α) (h : recordLoop step init sem st = .ok vs) :
    st.term = .eof ∧
    (splitValues step init (st.bytes.length + 1) st.bytes).2 = .clean ∧
    mapAll sem (splitValues step init (st.bytes.length + 1) st.bytes).1 = some vs := by
  unfold recordLoop at h
  rcases hs : splitValues step init (st.bytes.length + 1) st.bytes with ⟨vals, tail⟩
  rw [hs] at h
  simp only at h ⊢
  cases hm : mapAll sem vals with
  | none => simp [hm] at h
  | some ws =>
    simp only [hm] at h
    split at h
    · rename_i hc
      simp only [Res.ok.injEq] at h
      exact ⟨hc.1, hc.2, by rw [h]⟩
    · simp at h

/-- A read error is always a failure of the epss loop, also exactly at a record boundary. -/
theorem epss_read_error_detected (step : σ → Byte → Step σ) (init : σ) (sem : Bytes → Option α)
    (chunks : List Bytes) : recordLoop step init sem ⟨chunks, .err⟩ = .err := by
  unfold recordLoop
  rcases splitValues step init ((Stream.mk chunks Term.err).bytes.length + 1) (Stream.mk chunks Term.err).bytes with ⟨vals, tail⟩
  simp only
  cases mapAll sem vals <;> simp

/-- epss `ParseEnrichment` on any stream whose bytes are a prefix of a valid
    spool: it fails, or returns the first `j` records after a clean EOF; with a
    read error as terminal it always fails.  (`j` short of all records is the
    cut at a record boundary: finding still-valid-epss.) -/
theorem epss_prefix_damage (step : σ → Byte → Step σ) (init : σ) (sem : Bytes → Option α)
    (d : Bytes) (vs : List α) (hd : recordLoop step init sem ⟨[d], .eof⟩ = .ok vs)
    (st : Stream) (k : Nat) (hst : st.bytes = d.take k) :
    recordLoop step init sem st = .err ∨
    ∃ j, recordLoop step init sem st = .ok (vs.take j) ∧ st.term = .eof := by
  have hd' := loop_propagates_epss step init sem _ vs hd
  have hb : (Stream.mk [d] Term.eof).bytes = d := by simp [Stream.bytes]
  rw [hb] at hd'
  obtain ⟨more, hm⟩ := splitValues_take step init ((d.take k).length + 1) (d.length + 1) d k
    (by omega) (by omega)
  unfold recordLoop
  rw [hst]
  rcases hs : splitValues step init ((d.take k).length + 1) (d.take k) with ⟨vals, tail⟩
  rw [hs] at hm
  simp only at hm ⊢
  have hmap := hd'.2.2
  rw [hm] at hmap
  rw [mapAll_append sem vals more vs hmap]
  simp only
  by_cases hc : st.term = .eof ∧ tail = .clean
  · right; exact ⟨vals.length, by rw [if_pos hc], hc.1⟩
  · left; rw [if_neg hc]

/-- cvss `ParseEnrichment`: the same, and a successful result always ends in
    the one empty record that was appended before the `Decode` that hit EOF. -/
theorem loop_propagates_cvss (step : σ → Byte → Step σ) (init : σ) (sem : Bytes → Option α) (zero : α)
    (st : Stream) (rs : List α) (h : recordLoopCvss step init sem zero st = .ok rs) :
    st.term = .eof ∧ ∃ vs, rs = vs ++ [zero] ∧ recordLoop step init sem st = .ok vs := by
  unfold recordLoopCvss at h
  cases hr : recordLoop step init sem st with
  | err => simp [hr] at h
  | ok vs =>
    simp only [hr, Res.ok.injEq] at h
    exact ⟨(loop_propagates_epss step init sem st vs hr).1, vs, h.symm, rfl⟩

theorem cvss_read_error_detected (step : σ → Byte → Step σ) (init : σ) (sem : Bytes → Option α) (zero : α)
    (chunks : List Bytes) : recordLoopCvss step init sem zero ⟨chunks, .err⟩ = .err := by
  unfold recordLoopCvss
  rw [epss_read_error_detected]

/-- The same for cvss (every successful result carries the trailing empty record). -/
theorem cvss_prefix_damage (step : σ → Byte → Step σ) (init : σ) (sem : Bytes → Option α) (zero : α)
    (d : Bytes) (rs : List α) (hd : recordLoopCvss step init sem zero ⟨[d], .eof⟩ = .ok rs)
    (st : Stream) (k : Nat) (hst : st.bytes = d.take k) :
    recordLoopCvss step init sem zero st = .err ∨
    ∃ vs j, rs = vs ++ [zero] ∧ recordLoopCvss step init sem zero st = .ok (vs.take j ++ [zero]) ∧
      st.term = .eof := by
  obtain ⟨_, vs, hrs, hvs⟩ := loop_propagates_cvss step init sem zero _ rs hd
  unfold recordLoopCvss
  rcases epss_prefix_damage step init sem d vs hvs st k hst with h | ⟨j, h, ht⟩
  · left; rw [h]
  · right; exact ⟨vs, j, hrs, by rw [h], ht⟩

/-! ### compression wrappers, by contract -/

/-- Contract of a decompressor on the compressed feed `z`: every strict prefix
    of `z` makes it end in an error (not EOF) after delivering a prefix of the
    plaintext.  (gzip, bzip2 and zstd with their end-of-stream markers and
    checksums, read to the end; checked on the real decompressors by the harness.) -/
structure DetectsTruncation (dec : Bytes → Bytes × Term) (z : Bytes) : Prop where
  term_err : ∀ k, k < z.length → (dec (z.take k)).2 = .err
  plain_prefix : ∀ k, k < z.length → ∃ j, (dec (z.take k)).1 = (dec z).1.take j

/-- Under that contract a truncated compressed spool never parses: line loop. -/
theorem compressed_truncation_detected_lines (sem : Bytes → Option α) (dec : Bytes → Bytes × Term)
    (z : Bytes) (hc : DetectsTruncation dec z) (k : Nat) (hk : k < z.length) :
    lineLoop sem ⟨[(dec (z.take k)).1], (dec (z.take k)).2⟩ = .err := by
  rw [hc.term_err k hk]
  exact vex_read_error_detected sem _

/-- … record loop. -/
theorem compressed_truncation_detected_records (step : σ → Byte → Step σ) (init : σ)
    (sem : Bytes → Option α) (dec : Bytes → Bytes × Term)
    (z : Bytes) (hc : DetectsTruncation dec z) (k : Nat) (hk : k < z.length) :
    recordLoop step init sem ⟨[(dec (z.take k)).1], (dec (z.take k)).2⟩ = .err := by
  rw [hc.term_err k hk]
  exact epss_read_error_detected step init sem _

/-- … decode-and-drain (aws behind gzip). -/
theorem compressed_truncation_detected_drain (step : σ → Byte → Step σ) (init : σ)
    (sem : Bytes → Option α) (dec : Bytes → Bytes × Term)
    (z : Bytes) (hc : DetectsTruncation dec z) (k : Nat) (hk : k < z.length) :
    decodeOneDrain step init sem ⟨[(dec (z.take k)).1], (dec (z.take k)).2⟩ = .err := by
  unfold decodeOneDrain
  rw [hc.term_err k hk]
  cases decodeOne step init sem _ <;> simp

/-- … a single decode without drain: fails, or equals the intact result (when
    only bytes after the document were lost). -/
theorem compressed_truncation_one_decode (step : σ → Byte → Step σ) (init : σ)
    (sem : Bytes → Option α) (dec : Bytes → Bytes × Term)
    (z : Bytes) (hc : DetectsTruncation dec z) (k : Nat) (hk : k < z.length) :
    decodeOne step init sem ⟨[(dec (z.take k)).1], (dec (z.take k)).2⟩ = .err ∨
    decodeOne step init sem ⟨[(dec (z.take k)).1], (dec (z.take k)).2⟩ =
      decodeOne step init sem ⟨[(dec z).1], .eof⟩ := by
  obtain ⟨j, hj⟩ := hc.plain_prefix k hk
  exact one_decode_never_subset step init sem (dec z).1 _ j (by simp [Stream.bytes, hj])

/-- The snappy framing of the VEX spool has no end marker: a cut at a chunk
    boundary is a clean EOF.  Contract: off the chunk boundaries a cut is an error. -/
structure DetectsOffBoundary (dec : Bytes → Bytes × Term) (z : Bytes) (boundary : Nat → Prop) : Prop where
  term_err : ∀ k, k < z.length → ¬ boundary k → (dec (z.take k)).2 = .err

theorem snappy_truncation_detected_off_boundary (sem : Bytes → Option α) (dec : Bytes → Bytes × Term)
    (z : Bytes) (boundary : Nat → Prop) (hc : DetectsOffBoundary dec z boundary)
    (k : Nat) (hk : k < z.length) (hb : ¬ boundary k) :
    lineLoop sem ⟨[(dec (z.take k)).1], (dec (z.take k)).2⟩ = .err := by
  rw [hc.term_err k hk hb]
  exact vex_read_error_detected sem _

/-! ### the update manager -/

/-- driveUpdater hands nothing to the store when Parse fails (or Fetch fails,
    or reports the database unchanged): the previous snapshot stays. -/
theorem manager_stores_nothing_on_parse_error (fetch : FetchOut) :
    (drive fetch (Res.err : Res α)).1 = .none := by
  cases fetch <;> rfl

/-- The store is updated exactly with the value of a successful parse of a
    successful fetch. -/
theorem manager_stores_iff (fetch : FetchOut) (parse : Res α) (v : α) :
    (drive fetch parse).1 = .update v ↔ fetch = .fetched ∧ parse = .ok v := by
  cases fetch <;> cases parse <;> simp [drive]

/-- End to end for a one-document parser: whatever prefix of the feed reaches
    it, the store is either not touched or receives the intact snapshot. -/
theorem damaged_feed_never_replaces_snapshot (step : σ → Byte → Step σ) (init : σ)
    (sem : Bytes → Option α) (d : Bytes) (st : Stream) (k : Nat) (hst : st.bytes = d.take k) :
    (drive .fetched (decodeOne step init sem st)).1 = .none ∨
    (drive .fetched (decodeOne step init sem st)).1 =
      (drive .fetched (decodeOne step init sem ⟨[d], .eof⟩)).1 := by
  rcases one_decode_never_subset step init sem d st k hst with h | h
  · left; rw [h]; rfl
  · right; rw [h]

/-! ### HTTP framing: what the transport can and cannot detect -/

section transfer
open ClairModel.FeedTransfer
variable {ρ : Type}

/-- Whatever the framing and however the response ends, the reader of the body
    sees a prefix of what the server wrote: transport damage is truncation
    (plus a terminal), so the prefix theorems above apply to it. -/
theorem transport_delivers_prefix (s : Script) : ∃ k, (delivered s).bytes = s.body.take k :=
  delivered_prefix s

/-- An honest Content-Length detects every short body, however the connection ends. -/
theorem content_length_detects_short_body (body : Bytes) (n : Nat) (fin : Fin)
    (h : body.length < n) : (delivered ⟨body, .length n, fin⟩).term = .err := by
  simp only [delivered]
  rw [if_neg (by omega)]

/-- A chunked body that does not end with its terminal chunk is an error. -/
theorem chunked_abort_detected (body : Bytes) (fin : Fin) (h : fin ≠ .clean) :
    (delivered ⟨body, .chunked, fin⟩).term = .err := by
  simp [delivered, h]

/-- A clean EOF from the transport means: the declared length was reached, or
    the terminal chunk was seen, or the body was close-delimited and the
    connection was closed in an orderly way. -/
theorem clean_eof_classified (s : Script) (h : (delivered s).term = .eof) :
    (∃ d, s.frame = .length d ∧ d ≤ s.body.length ∧ (delivered s).bytes = s.body.take d) ∨
    (s.frame = .chunked ∧ s.fin = .clean ∧ (delivered s).bytes = s.body) ∨
    (s.frame = .close ∧ s.fin ≠ .reset ∧ (delivered s).bytes = s.body) := by
  rcases s with ⟨body, frame, fin⟩
  cases frame with
  | length d =>
    by_cases hd : d ≤ body.length
    · left; exact ⟨d, rfl, hd, by simp [delivered, hd, Stream.bytes]⟩
    · simp [delivered, hd] at h
  | chunked =>
    by_cases hc : fin = .clean
    · right; left; exact ⟨rfl, hc, by simp [delivered, Stream.bytes]⟩
    · simp [delivered, hc] at h
  | close =>
    by_cases hc : fin = .reset
    · simp [delivered, hc] at h
    · right; right; exact ⟨rfl, hc, by simp [delivered, Stream.bytes]⟩

/-- The full statement "the transport detects every truncation" is false: a
    close-delimited body cut anywhere and followed by an orderly close, and a
    body whose Content-Length is (wrongly) short, are delivered as a prefix with
    a clean EOF.  Detection then rests on the parser and the wrapper. -/
theorem transport_truncation_undetected_counterexample (d : Bytes) (k : Nat) (fin : Fin) :
    delivered ⟨d.take k, .close, .close⟩ = ⟨[d.take k], .eof⟩ ∧
    (k ≤ d.length → delivered ⟨d, .length k, fin⟩ = ⟨[d.take k], .eof⟩) := by
  constructor
  · simp [delivered]
  · intro hk; simp [delivered, hk]

/-- Fetch spools what the transport delivers and fails on any read error:
    success means a clean EOF and a spool holding exactly the delivered bytes. -/
theorem fetch_spools_exactly (parse : Stream → Res α) (src : Stream) (r : Res α)
    (h : fetchParse parse src = (.fetched, r)) :
    src.term = .eof ∧ r = parse ⟨[src.bytes], .eof⟩ := by
  unfold fetchParse spool at h
  by_cases ht : src.term = .eof
  · rw [if_pos ht] at h
    simp only [Prod.mk.injEq, true_and] at h
    exact ⟨ht, h.symm⟩
  · rw [if_neg ht] at h
    simp at h

/-- With an honest length (Content-Length of the intact body, or chunked
    encoding) a body cut anywhere never reaches ANY parser: Fetch fails.  This
    is what protects the record formats (VEX lines, CSV, enrichment records),
    which cannot detect a cut at a record boundary themselves. -/
theorem honest_framing_truncation_fails_fetch (parse : Stream → Res α) (d : Bytes) (k : Nat)
    (hk : k < d.length) (fin : Fin) :
    (fetchParse parse (delivered ⟨d.take k, .length d.length, fin⟩)).1 = .failed ∧
    (fin ≠ .clean → (fetchParse parse (delivered ⟨d.take k, .chunked, fin⟩)).1 = .failed) := by
  constructor
  · have : ¬ d.length ≤ min k d.length := by omega
    simp [fetchParse, spool, delivered, List.length_take, this]
  · intro hf
    simp [fetchParse, spool, delivered, hf]

/-- A parser that, on every stream carrying a prefix of the feed `d`, fails or
    returns the intact result. -/
def NeverSubset (parse : Stream → Res α) (d : Bytes) : Prop :=
  ∀ (st : Stream) (k : Nat), st.bytes = d.take k → parse st = .err ∨ parse st = parse ⟨[d], .eof⟩

/-- End to end over the wire, for every response script whose body is a prefix
    of the intact feed — any framing, any declared length, any way of ending:
    the store is not touched, or it receives exactly the intact snapshot. -/
theorem transfer_never_replaces_snapshot (parse : Stream → Res α) (d : Bytes)
    (hp : NeverSubset parse d) (s : Script) (k : Nat) (hs : s.body = d.take k) :
    (runTransfer parse (delivered s)).1 = .none ∨
    (runTransfer parse (delivered s)).1 = (drive .fetched (parse ⟨[d], .eof⟩)).1 := by
  unfold runTransfer fetchParse spool
  by_cases ht : (delivered s).term = .eof
  · rw [if_pos ht]
    obtain ⟨k', hk'⟩ := delivered_prefix s
    have hb : (Stream.mk [(delivered s).bytes] Term.eof).bytes = d.take (min k' k) := by
      rw [bytes_single, hk', hs, List.take_take]
    rcases hp _ _ hb with h | h
    · left; simp only [h]; rfl
    · right; simp only [h]
  · rw [if_neg ht]; left; rfl

/-- alpine, debian (decode + end-of-input check), ubuntu, oracle, suse, photon
    (one decode) over the wire. -/
theorem one_document_transfer_never_subset (step : σ → Byte → Step σ) (init : σ)
    (sem : Bytes → Option α) (d : Bytes) (s : Script) (k : Nat) (hs : s.body = d.take k) :
    (runTransfer (decodeOne step init sem) (delivered s)).1 = .none ∨
    (runTransfer (decodeOne step init sem) (delivered s)).1 =
      (drive .fetched (decodeOne step init sem ⟨[d], .eof⟩)).1 :=
  transfer_never_replaces_snapshot _ d
    (fun st k hst => one_decode_never_subset step init sem d st k hst) s k hs

theorem one_document_end_transfer_never_subset (step : σ → Byte → Step σ) (init : σ)
    (sem : Bytes → Option α) (d : Bytes) (v : α)
    (hd : decodeOneEnd step init sem ⟨[d], .eof⟩ = .ok v) (s : Script) (k : Nat)
    (hs : s.body = d.take k) :
    (runTransfer (decodeOneEnd step init sem) (delivered s)).1 = .none ∨
    (runTransfer (decodeOneEnd step init sem) (delivered s)).1 = .update v := by
  have := transfer_never_replaces_snapshot (decodeOneEnd step init sem) d
    (fun st k hst => by
      rcases json_end_never_subset step init sem d v hd st k hst with h | h
      · exact Or.inl h
      · exact Or.inr (by rw [h, hd])) s k hs
  rw [hd] at this
  exact this

/-- Contract of a decompressor placed between the transport and the spool
    (ubuntu bzip2; ovalutil gzip | bzip2 | zstd; epss and cvss gzip): fed a
    prefix of the compressed feed `z` (with any terminal) it reports a clean
    EOF only after the whole plaintext — or after nothing at all (klauspost
    zstd reads an empty input, also one that ends in io.ErrUnexpectedEOF, as an
    empty stream).  (Observed on the real decompressors for every script of
    every run.) -/
structure ExactWrapper (dec : Stream → Stream) (z plain : Bytes) : Prop where
  eof_complete : ∀ (src : Stream) (k : Nat), src.bytes = z.take k →
    (dec src).term = .eof → (dec src).bytes = plain ∨ (dec src).bytes = []

/-- Under that contract a fetch that decompresses while spooling is all or
    nothing, whatever the parser: over any script whose body is a prefix of the
    compressed feed, Fetch fails, or Parse sees exactly the intact plaintext,
    or Parse sees the empty input. -/
theorem wrapped_fetch_all_or_nothing (parse : Stream → Res α) (dec : Stream → Stream)
    (z plain : Bytes) (hc : ExactWrapper dec z plain) (s : Script) (k : Nat)
    (hs : s.body = z.take k) :
    fetchParse parse (dec (delivered s)) = (.failed, .err) ∨
    fetchParse parse (dec (delivered s)) = (.fetched, parse ⟨[plain], .eof⟩) ∨
    fetchParse parse (dec (delivered s)) = (.fetched, parse ⟨[[]], .eof⟩) := by
  unfold fetchParse spool
  by_cases ht : (dec (delivered s)).term = .eof
  · right
    rw [if_pos ht]
    obtain ⟨k', hk'⟩ := delivered_prefix s
    have hb : (delivered s).bytes = z.take (min k' k) := by rw [hk', hs, List.take_take]
    rcases hc.eof_complete _ _ hb ht with h | h
    · left; rw [h]
    · right; rw [h]
  · left; rw [if_neg ht]

/-- A one-document parser never accepts the empty input. -/
theorem one_decode_empty_fails (step : σ → Byte → Step σ) (init : σ) (sem : Bytes → Option α) (t : Term) :
    decodeOne step init sem ⟨[[]], t⟩ = .err := by
  simp [decodeOne, scanChunks, scanChunk]

/-- Hence for the OVAL feeds fetched through a decompressor (ubuntu bzip2,
    oracle bzip2, suse gzip | zstd, photon gzip): over any script carrying a
    prefix of the compressed feed the store is not touched or receives the
    intact snapshot. -/
theorem wrapped_one_document_never_subset (step : σ → Byte → Step σ) (init : σ)
    (sem : Bytes → Option α) (dec : Stream → Stream) (z plain : Bytes)
    (hc : ExactWrapper dec z plain) (s : Script) (k : Nat) (hs : s.body = z.take k) :
    (runTransfer (decodeOne step init sem) (dec (delivered s))).1 = .none ∨
    (runTransfer (decodeOne step init sem) (dec (delivered s))).1 =
      (drive .fetched (decodeOne step init sem ⟨[plain], .eof⟩)).1 := by
  unfold runTransfer
  rcases wrapped_fetch_all_or_nothing (decodeOne step init sem) dec z plain hc s k hs with h | h | h
  · left; rw [h]; rfl
  · right; rw [h]
  · left; rw [h, one_decode_empty_fails]; rfl

/-- aws: the compressed download is spooled, Parse decompresses, decodes and
    drains.  Contract of gzip on the spooled bytes: a clean EOF only after the
    whole plaintext.  Then over any script with a prefix of the compressed
    feed: Fetch fails, Parse fails, or Parse returns the intact result. -/
theorem aws_transfer_exact (step : σ → Byte → Step σ) (init : σ) (sem : Bytes → Option α)
    (hdrOk : Bytes → Bool) (dec : Bytes → Stream) (z plain : Bytes)
    (hc : ∀ k, (dec (z.take k)).term = .eof → (dec (z.take k)).bytes = plain)
    (s : Script) (k : Nat) (hs : s.body = z.take k) :
    (fetchAws hdrOk dec (decodeOneDrain step init sem) (delivered s)).1 = .failed ∨
    (fetchAws hdrOk dec (decodeOneDrain step init sem) (delivered s)).2 = .err ∨
    (fetchAws hdrOk dec (decodeOneDrain step init sem) (delivered s)).2 =
      decodeOneDrain step init sem ⟨[plain], .eof⟩ := by
  by_cases ht : (delivered s).term = .eof
  · have e1 : spool (delivered s) = some (delivered s).bytes := by simp [spool, ht]
    simp only [fetchAws, e1]
    by_cases hh : hdrOk (delivered s).bytes = true
    · rw [if_pos hh]
      right
      obtain ⟨k', hk'⟩ := delivered_prefix s
      have hb : (delivered s).bytes = z.take (min k' k) := by rw [hk', hs, List.take_take]
      simp only
      rw [hb]
      cases hr : decodeOneDrain step init sem (dec (z.take (min k' k))) with
      | err => left; rfl
      | ok v =>
        right
        have hterm := drain_propagates_aws step init sem _ v hr
        have hbytes := hc _ hterm
        rw [← hr]
        unfold decodeOneDrain decodeOne
        rw [scanChunks_eq, scanChunks_eq]
        have h1 : (dec (z.take (min k' k))).chunks.flatten = plain := hbytes
        have h2 : (dec (z.take (min k' k))).bytes = plain := hbytes
        simp only [h1, h2, hterm, bytes_single, List.flatten_cons, List.flatten_nil, List.append_nil]
    · left; rw [if_neg hh]
  · have e1 : spool (delivered s) = none := by simp [spool, ht]
    left
    simp only [fetchAws, e1]

/-! ### CSV read loops (epss download, vex changes.csv / deletions.csv) -/

/-- A CSV read loop succeeds only after a clean EOF, in a state in which the
    file may end (epss: after the header line). -/
theorem csv_success_needs_clean_eof (h : Handler σ ρ) (init : σ) (st : Stream) (vs : List ρ)
    (hok : csvLoop h init st = .ok vs) :
    st.term = .eof ∧ ∃ s, csvFold h init (csvLines st.bytes) = some (s, vs) ∧ h.mayEnd s = true := by
  unfold csvLoop at hok
  cases hf : csvFold h init (csvLines st.bytes) with
  | none => simp [hf] at hok
  | some p =>
    rcases p with ⟨s, out⟩
    simp only [hf] at hok
    split at hok
    · rename_i hc
      simp only [Res.ok.injEq] at hok
      exact ⟨hc.1, s, by rw [hok], hc.2⟩
    · simp at hok

/-- A read error (a truncated or corrupt gzip stream under the epss CSV, a
    reset connection under deletions.csv) always fails the loop. -/
theorem csv_read_error_detected (h : Handler σ ρ) (init : σ) (chunks : List Bytes) :
    csvLoop h init ⟨chunks, .err⟩ = .err := by
  unfold csvLoop
  cases csvFold h init (csvLines (Stream.mk chunks Term.err).bytes) with
  | none => rfl
  | some p => rcases p with ⟨s, out⟩; simp

/-- On any stream carrying a prefix of a valid file: the loop fails, or — after
    a clean EOF — returns the records of the first lines followed by whatever
    the unterminated last line yields (`extra`; nothing when the cut is at a
    line boundary). -/
theorem csv_prefix_damage (h : Handler σ ρ) (init : σ) (d : Bytes) (vs : List ρ)
    (hd : csvLoop h init ⟨[d], .eof⟩ = .ok vs) (st : Stream) (k : Nat)
    (hst : st.bytes = d.take k) :
    csvLoop h init st = .err ∨
    ∃ j extra, csvLoop h init st = .ok (vs.take j ++ extra) ∧ st.term = .eof ∧
      ((splitLines st.bytes).2 = [] → extra = []) := by
  obtain ⟨_, sF, hF, _⟩ := csv_success_needs_clean_eof h init _ vs hd
  rw [bytes_single] at hF
  obtain ⟨more, hm⟩ := csvLines_take d k
  rw [hm, csvFold_append] at hF
  unfold csvLoop
  rw [hst]
  show (match csvFold h init (csvLines (d.take k)) with
    | none => Res.err
    | some (s, out) => if st.term = .eof ∧ h.mayEnd s = true then Res.ok out else Res.err) = Res.err ∨ _
  unfold csvLines
  rw [csvFold_append]
  cases h1 : csvFold h init (splitLines (d.take k)).1 with
  | none => left; rfl
  | some p1 =>
    rcases p1 with ⟨s1, o1⟩
    rw [h1] at hF
    simp only at hF ⊢
    -- o1 is a prefix of vs
    have ho1 : o1 = vs.take o1.length := by
      cases h2 : csvFold h s1 more with
      | none => rw [h2] at hF; simp at hF
      | some p2 =>
        rcases p2 with ⟨s2, o2⟩
        rw [h2] at hF
        simp only [Option.some.injEq, Prod.mk.injEq] at hF
        exact take_of_append_eq o1 o2 vs hF.2
    cases h3 : csvFold h s1 (if (splitLines (d.take k)).2 = [] then [] else [(splitLines (d.take k)).2]) with
    | none => left; rfl
    | some p3 =>
      rcases p3 with ⟨s3, o3⟩
      simp only
      by_cases hc : st.term = .eof ∧ h.mayEnd s3 = true
      · right
        refine ⟨o1.length, o3, ?_, hc.1, ?_⟩
        · rw [if_pos hc, ← ho1]
        · intro hr
          rw [if_pos hr] at h3
          simp only [csvFold, Option.some.injEq, Prod.mk.injEq] at h3
          exact h3.2.symm
      · left; rw [if_neg hc]

/-- epss: one line yields at most one record. -/
theorem epss_line_emits_at_most_one (fok : Bytes → Bool) (p p' : EpssPhase) (fs : List Bytes)
    (out : List (List Bytes)) (h : (epssHandler fok).onRecord p fs = some (p', out)) :
    out.length ≤ 1 := by
  cases p <;> simp only [epssHandler] at h <;> (repeat' split at h) <;> simp at h <;>
    (try (obtain ⟨_, rfl⟩ := h)) <;> simp

/-- The CSV text alone cannot detect a truncation of its last record (the full
    statement is false for the decompressed epss file): with scores parsed by
    `floatOk`, a file cut at a record boundary is accepted with fewer records,
    a cut inside the last score is accepted with a different score, and a cut
    right after the last comma drops the record silently.
    (text: "#model_version:v1,score_date:d" / "cve,epss,percentile" / "C1,0.5,0.25" / "C2,0.75,0.5") -/
theorem epss_csv_truncation_counterexample :
    let hdr : Bytes := [0x23, 0x6d, 0x6f, 0x64, 0x65, 0x6c, 0x5f, 0x76, 0x65, 0x72, 0x73, 0x69, 0x6f, 0x6e, 0x3a, 0x76, 0x31, 0x2c,
      0x73, 0x63, 0x6f, 0x72, 0x65, 0x5f, 0x64, 0x61, 0x74, 0x65, 0x3a, 0x64, 10,
      0x63, 0x76, 0x65, 0x2c, 0x65, 0x70, 0x73, 0x73, 0x2c, 0x70, 0x65, 0x72, 0x63, 0x65, 0x6e, 0x74, 0x69, 0x6c, 0x65, 10]
    let r1 : Bytes := [0x43, 0x31, 0x2c, 0x30, 0x2e, 0x35, 0x2c, 0x30, 0x2e, 0x32, 0x35, 10]
    let r2 : Bytes := [0x43, 0x32, 0x2c, 0x30, 0x2e, 0x37, 0x35, 0x2c, 0x30, 0x2e, 0x35, 10]
    epssCsv floatOk ⟨[hdr ++ r1 ++ r2], .eof⟩ =
      .ok [[[0x43, 0x31], [0x30, 0x2e, 0x35], [0x30, 0x2e, 0x32, 0x35]], [[0x43, 0x32], [0x30, 0x2e, 0x37, 0x35], [0x30, 0x2e, 0x35]]] ∧
    epssCsv floatOk ⟨[hdr ++ r1], .eof⟩ = .ok [[[0x43, 0x31], [0x30, 0x2e, 0x35], [0x30, 0x2e, 0x32, 0x35]]] ∧
    epssCsv floatOk ⟨[hdr ++ r1 ++ r2.take 10], .eof⟩ =
      .ok [[[0x43, 0x31], [0x30, 0x2e, 0x35], [0x30, 0x2e, 0x32, 0x35]], [[0x43, 0x32], [0x30, 0x2e, 0x37, 0x35], [0x30, 0x2e]]] ∧
    epssCsv floatOk ⟨[hdr ++ r1 ++ r2.take 8], .eof⟩ = .ok [[[0x43, 0x31], [0x30, 0x2e, 0x35], [0x30, 0x2e, 0x32, 0x35]]] ∧
    epssCsv floatOk ⟨[hdr ++ r1 ++ r2.take 7], .eof⟩ = .err := by
  decide

/-- What makes the epss download all or nothing is the gzip layer: under the
    wrapper contract, over any script whose body is a prefix of the compressed
    file, FetchEnrichment fails or produces exactly the intact records (an
    empty decompressed input fails: the metadata line is missing). -/
theorem epss_fetch_all_or_nothing (fok : Bytes → Bool) (dec : Stream → Stream)
    (z plain : Bytes) (hc : ExactWrapper dec z plain) (s : Script) (k : Nat)
    (hs : s.body = z.take k) :
    epssCsv fok (dec (delivered s)) = .err ∨
    epssCsv fok (dec (delivered s)) = epssCsv fok ⟨[plain], .eof⟩ := by
  cases hr : epssCsv fok (dec (delivered s)) with
  | err => left; rfl
  | ok vs =>
    obtain ⟨hterm, _⟩ := csv_success_needs_clean_eof _ _ _ vs hr
    obtain ⟨k', hk'⟩ := delivered_prefix s
    have hb : (delivered s).bytes = z.take (min k' k) := by rw [hk', hs, List.take_take]
    rcases hc.eof_complete _ _ hb hterm with hbytes | hbytes
    · right
      rw [← hr]
      unfold epssCsv csvLoop
      rw [hbytes, hterm, bytes_single]
    · exfalso
      unfold epssCsv csvLoop at hr
      rw [hbytes] at hr
      simp [csvLines, splitLines, csvFold, epssHandler] at hr

/-- vex deletions.csv / changes.csv travel uncompressed: a cut at a record
    boundary that the transport does not report is accepted with the first
    records only (finding still-valid-vex-csv); a cut inside a record whose
    time stamp no longer parses fails. -/
theorem vex_csv_line_boundary_counterexample :
    let keep : List Bytes → Option Bool := fun fs =>
      match fs with
      | [_, t] => if t.length = 2 then some true else none
      | _ => none
    -- "a,t1" / "b,t2"
    vexCsv keep ⟨[[0x61, 0x2c, 0x74, 0x31, 10, 0x62, 0x2c, 0x74, 0x32, 10]], .eof⟩ =
      .ok [[[0x61], [0x74, 0x31]], [[0x62], [0x74, 0x32]]] ∧
    vexCsv keep ⟨[[0x61, 0x2c, 0x74, 0x31, 10]], .eof⟩ = .ok [[[0x61], [0x74, 0x31]]] ∧
    vexCsv keep ⟨[[0x61, 0x2c, 0x74, 0x31, 10, 0x62, 0x2c, 0x74]], .eof⟩ = .err ∧
    vexCsv keep ⟨[[0x61, 0x2c, 0x74, 0x31, 10]], .err⟩ = .err := by
  decide

/-! ### successive runs: fingerprints -/

/-- A failed run (fetch or parse) leaves the stored update and its fingerprint
    untouched and asks nothing of the store. -/
theorem failed_run_keeps_state (s : HistState α) (r : RunIn α)
    (h : r.outcome = .fetchFailed ∨ r.outcome = .parseFailed) :
    (histStep s r).1 = s ∧ (histStep s r).2.1 = .none := by
  unfold histStep
  by_cases hu : isUnchanged s r.version = true
  · rw [if_pos hu]; exact ⟨rfl, rfl⟩
  · rw [if_neg hu]
    rcases h with h | h <;> rw [h] <;> exact ⟨rfl, rfl⟩

/-- If every download that parses yields the intact snapshot of the version
    served (what the per-parser theorems establish for damaged transfers),
    then over every history of runs — intact, damaged, unchanged, in any order —
    the stored snapshot is the intact snapshot of the version its fingerprint
    names: a damaged download is never stored, and never poisons the fingerprint. -/
theorem history_snapshot_is_intact (intact : Nat → α) (runs : List (RunIn α))
    (hr : ∀ r ∈ runs, ∀ v, r.outcome = .parsed v → v = intact r.version) :
    match Sm.run histStep (none : HistState α) runs with
    | none => True
    | some (ver, snap) => snap = intact ver := by
  have key : ∀ (rs : List (RunIn α)) (s : HistState α),
      (∀ r ∈ rs, ∀ v, r.outcome = .parsed v → v = intact r.version) →
      (match s with | none => True | some (ver, snap) => snap = intact ver) →
      (match Sm.run histStep s rs with | none => True | some (ver, snap) => snap = intact ver) := by
    intro rs
    induction rs with
    | nil => intro s _ hs; exact hs
    | cons r rs ih =>
      intro s hrs hs
      simp only [Sm.run]
      apply ih
      · exact fun r' hr' => hrs r' (List.mem_cons_of_mem _ hr')
      · unfold histStep
        by_cases hu : isUnchanged s r.version = true
        · rw [if_pos hu]; exact hs
        · rw [if_neg hu]
          cases ho : r.outcome with
          | fetchFailed => exact hs
          | parseFailed => exact hs
          | parsed v => exact hrs r (List.mem_cons_self) v ho
  exact key runs none hr trivial

/-- No sticky failure: after any history, a run that serves version `ver`
    intact leaves the store holding `ver` (already, or by this run's update). -/
theorem intact_run_stores (s : HistState α) (ver : Nat) (v : α) :
    ((histStep s ⟨ver, .parsed v⟩).1 = some (ver, v) ∧ (histStep s ⟨ver, .parsed v⟩).2 = (.update v, true)) ∨
    (∃ v', s = some (ver, v') ∧ (histStep s ⟨ver, .parsed v⟩).1 = s ∧ (histStep s ⟨ver, .parsed v⟩).2 = (.none, true)) := by
  unfold histStep
  by_cases hu : isUnchanged s ver = true
  · right
    rw [if_pos hu]
    cases s with
    | none => simp [isUnchanged] at hu
    | some p =>
      rcases p with ⟨ver', v'⟩
      simp only [isUnchanged, beq_iff_eq] at hu
      subst hu
      exact ⟨v', rfl, rfl, rfl⟩
  · left
    rw [if_neg hu]
    exact ⟨rfl, rfl⟩

end transfer

/-! ### hypotheses are satisfiable -/

example : scanJson [0x7b, 0x22, 0x61, 0x22, 0x3a, 0x5b, 0x31, 0x2c, 0x32, 0x5d, 0x7d] = .complete 11 := by decide
example : scanXml [0x3c, 0x61, 0x3e, 0x3c, 0x62, 0x2f, 0x3e, 0x3c, 0x2f, 0x61, 0x3e] = .complete 11 := by decide
example : recordLoop jsonStep jsonInit (some : Bytes → Option Bytes) ⟨[[0x7b, 0x7d, 10, 0x5b, 0x5d, 10]], .eof⟩
    = .ok [[0x7b, 0x7d], [0x5b, 0x5d]] := by decide

end ClairModel.Props.C15
