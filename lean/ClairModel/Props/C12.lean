/-
  C12 — Version orderings are total orders and their normalized forms agree.

  Property theorems only; helper lemmas live in Proofs/{Version,Gem,Maven,
  RhcTag,Pep440}.lean and Lib/Order.lean.  The models (Model/{Version,Pep440,
  Gem,Maven,RhcTag}.lean) are tied to version.go, pkg/pep440, ruby/version.go,
  java/maven_version.go, pkg/rhctag and go-rpm-version by the correspondence
  run of `./check C12` (parse / compare / print / projection results of the
  real code against the model, line by line).

  `TotalPre c` (Lib/Order.lean) = reflexive, `c b a = (c a b).swap`
  (antisymmetric in the three-way sense), `≤` transitive.  Its consequences
  `congr_left/right` are "equal versions are interchangeable".
-/
import ClairModel.Proofs.Version
import ClairModel.Proofs.Gem
import ClairModel.Proofs.Maven
import ClairModel.Proofs.RhcTag
import ClairModel.Proofs.RhcTagShape
import ClairModel.Proofs.Semver
import ClairModel.Proofs.NonAscii
import ClairModel.Proofs.Pep440
import ClairModel.Proofs.Pep440Range

-- every variable of a property statement is bound explicitly: a misspelt name is an error, not a new variable
set_option autoImplicit false

namespace ClairModel.Props.C12
open ClairModel ClairModel.Order

/-! ## Tables regenerated from the sources (Gen/Versions.lean)

  The Maven model reads the qualifier table directly (its theorems do not
  depend on the values).  The PEP 440 and gem recognisers are written by hand
  for one specific pattern each; these obligations say the patterns and
  switch tables in the sources are still the ones the models stand for. -/

/-- The pattern of pkg/pep440 is the one the recogniser `Pep440.findMatch` models. -/
theorem pep440_pattern_expected :
    Gen.Versions.pepPattern =
      "v?(?:(?:(?P<epoch>[0-9]+)!)?(?P<release>[0-9]+(?:\\.[0-9]+)*)(?P<pre>[-_\\.]?(?P<pre_l>(alpha|a|beta|b|c|rc|preview|pre))[-_\\.]?(?P<pre_n>[0-9]+)?)?(?P<post>(?:-(?P<post_n1>[0-9]+))|(?:[-_\\.]?(?P<post_l>post|rev|r)[-_\\.]?(?P<post_n2>[0-9]+)?))?(?P<dev>[-_\\.]?(?P<dev_l>dev)[-_\\.]?(?P<dev_n>[0-9]+)?)?)(?:\\+(?P<local>[a-z0-9]+(?:[-_\\.][a-z0-9]+)*))?" := rfl

/-- Alternation order of the label groups, label normalisation of `Parse`,
    label slot values and slot indices of `Version()` are the model's. -/
theorem pep440_tables_expected :
    Gen.Versions.pepPreAlts = Pep440.preAlts ∧ Gen.Versions.pepPostAlts = Pep440.postAlts ∧
    Gen.Versions.pepDevAlts = Pep440.devAlts ∧
    (∀ p ∈ Gen.Versions.pepLabelNorm, Pep440.normLabel p.1 = some p.2) ∧
    (∀ l ∈ Pep440.preAlts, (Gen.Versions.pepLabelNorm.find? fun p => p.1 = l).isSome = true) ∧
    (∀ p ∈ Gen.Versions.pepLabelSlot, Pep440.labelSlot p.1 = p.2) ∧
    Gen.Versions.pepLabelSlot.length = 3 ∧
    Gen.Versions.pepSlots = [0, 1, 6, 7, 8, 9] := by
  decide

/-- The pattern of ruby/version.go is the one the recogniser `Gem.valid` models. -/
theorem gem_pattern_expected :
    Gen.Versions.gemPattern = "^\\s*([0-9]+(\\.[0-9a-zA-Z]+)*(-[0-9A-Za-z-]+(\\.[0-9A-Za-z-]+)*)?)?\\s*$" := rfl

/-- Known Maven qualifiers are single entries: the table has no duplicate
    key, so `ordString` does not depend on the order of the map literal. -/
theorem maven_qualifiers_nodup :
    (Gen.Versions.mavenQualifiers.map (·.1)).Nodup := by
  decide

/-- The expression of `gobin.ParseVersion` is Masterminds' `SemVerRegex`
    (the linked version) between `^` and `$`, and both are the text the
    recogniser `Semver.groups` stands for; `fitInt32` still cuts at nine digits. -/
theorem semver_patterns_expected :
    Gen.Unicode.semverRegex =
      "v?([0-9]+)(\\.[0-9]+)?(\\.[0-9]+)?(-([0-9A-Za-z\\-]+(\\.[0-9A-Za-z\\-]+)*))?(\\+([0-9A-Za-z\\-]+(\\.[0-9A-Za-z\\-]+)*))?" ∧
    Gen.Versions.gobinPattern = "^" ++ Gen.Unicode.semverRegex ++ "$" ∧
    Gen.Versions.gobinFitLits = [9, 9, 0, 10, 32, 0] := by
  refine ⟨rfl, ?_, rfl⟩
  decide

/-! ## Runes outside ASCII, ill-formed UTF-8

  The driver decodes every text the way Go's `range` does (Lib/Utf8.lean:
  ill-formed bytes become U+FFFD) and the models work on runes.  pep440,
  rhctag and go-rpm-version only look for ASCII characters (other runes are
  skipped by the unanchored / token expressions) except for `unicode.IsSpace`
  (`ParseRange`, the rpm epoch), which follows the regenerated table;
  semver and gobin use anchored ASCII expressions; Maven consults
  `unicode.IsDigit` and `unicode.ToLower`, both table-driven in the model. -/

/-- ASCII texts decode to themselves: the theorems about ASCII shapes speak
    about the bytes of the input. -/
theorem utf8_decode_ascii (bs : List Nat) (h : ∀ b ∈ bs, b < 128) : Utf8.decode bs = bs.map Char.ofNat :=
  Utf8.decode_ascii bs h

/-- RubyGems: a version text containing any rune from U+0080 up — hence also
    any ill-formed byte — is rejected by `NewVersion` (the anchored expression
    knows ASCII classes only; `\s` is ASCII white space). -/
theorem gem_non_ascii_rejected (s : List Char) (c : Char) (hm : c ∈ s) (h : 128 ≤ c.toNat) : Gem.parse s = none :=
  NonAscii.gem_reject s c hm h

/-- Masterminds/semver and `gobin.ParseVersion`: the anchored expression
    matches ASCII texts only, so a version text containing any rune from U+0080
    up (or an ill-formed byte) is rejected by both. -/
theorem semver_non_ascii_rejected (s : List Char) (c : Char) (hm : c ∈ s) (h : 128 ≤ c.toNat) :
    Semver.parse s = none ∧ Semver.gobinParse s = none :=
  NonAscii.semver_reject s c hm h

/-- Maven: a version text containing a decimal digit of another script (a rune
    that `unicode.IsDigit` accepts and `big.Int.SetString` does not, e.g.
    U+0663) is rejected ("unable to parse number"), wherever it stands. -/
theorem maven_foreign_digit_rejected (pre post : List Char) (r : Char)
    (hu : Maven.uniIsDigit r = true) (hd : Version.isDigit r = false) :
    Maven.parse (pre ++ r :: post) = none :=
  NonAscii.maven_reject pre post r hu hd

/-- The hypothesis is satisfiable (ARABIC-INDIC DIGIT THREE). -/
example : Maven.uniIsDigit (Char.ofNat 0x663) = true ∧ Version.isDigit (Char.ofNat 0x663) = false := by decide

set_option maxRecDepth 8192 in
/-- Letters of other scripts are lower-cased by `ordString`: "1-Écl" = "1-écl". -/
example :
    (do let a ← Maven.parse ['1', '-', Char.ofNat 0xC9, 'c', 'l']
        let b ← Maven.parse ['1', '-', Char.ofNat 0xE9, 'c', 'l']
        pure (Maven.cmp a b)) = some .eq := by
  decide

/-! ## claircore.Version (version.go) -/

/-- `(*Version).Compare` is a total preorder on all versions (any kinds, any
    slot values). -/
theorem version_cmp_totalPre : TotalPre Version.cmp := Version.cmp_totalPre

/-- Antisymmetry in the strict sense: two versions compare equal exactly when
    kind and all slots coincide. -/
theorem version_cmp_eq_iff (a b : Version.Version) : Version.cmp a b = .eq ↔ a = b :=
  Version.cmp_eq_iff a b

/-- Versions that compare equal are interchangeable in every comparison. -/
theorem version_equal_interchangeable (a b x : Version.Version) (h : Version.cmp a b = .eq) :
    Version.cmp a x = Version.cmp b x ∧ Version.cmp x a = Version.cmp x b :=
  ⟨Version.cmp_totalPre.congr_left h x, Version.cmp_totalPre.congr_right h x⟩

/-- toolkit/types/version.go is a copy of version.go: `Compare`, `Contains` and
    `String` of the two copies answer alike on the table of boundary values the
    extractor runs both on at every check (Gen.Versions, evaluated: every pair of
    440 versions, ranges × versions, every version), so the theorems of this
    section are about both (the harness drives both as well).  One copy may be
    rewritten; a behavioural divergence makes an entry false. -/
theorem toolkit_copy_same_source :
    Gen.Versions.toolkitCopySame = [("Version.Compare", true), ("Range.Contains", true), ("Version.String", true)] := by
  decide

/-- ... and so do the two copies of the text codec (`MarshalText`, and
    `UnmarshalText` of some 390 well- and ill-formed texts into a fresh, a used
    and a nil receiver). -/
theorem toolkit_copy_same_codec :
    Gen.Versions.toolkitCopyCodecSame = [("Version.MarshalText", true), ("Version.UnmarshalText", true)] := by
  decide

/-- `(*Range).Contains` is membership in the half-open interval:
    `lower ≤ v` and `v < upper`. -/
theorem range_contains_iff (r : Version.Range) (v : Version.Version) :
    Version.contains r v = true ↔ Version.cmp r.lower v ≠ .gt ∧ Version.cmp v r.upper = .lt := by
  unfold Version.contains
  rw [Version.cmp_totalPre.swap r.upper v]
  cases Version.cmp r.lower v <;> cases Version.cmp r.upper v <;> simp [Ordering.swap]

/-- Consequently an interval with `upper ≤ lower` is empty. -/
theorem range_empty_of_upper_le_lower (r : Version.Range) (v : Version.Version)
    (h : Version.cmp r.upper r.lower ≠ .gt) : Version.contains r v = false := by
  cases hc : Version.contains r v with
  | false => rfl
  | true =>
    obtain ⟨h₁, h₂⟩ := (range_contains_iff r v).1 hc
    have := Version.cmp_totalPre.lt_of_lt_of_le h₂ h
    have h₃ := Version.cmp_totalPre.lt_of_lt_of_le this h₁
    rw [Version.cmp_totalPre.refl] at h₃
    cases h₃

/-! ## semver → generic (version.go FromSemver) -/

/-- `FromSemver` never inverts the order of the numeric cores (major, minor,
    patch): `a ≤ b` gives `FromSemver a ≤ FromSemver b`, for all components
    (they are non-negative in every parsed semantic version), including those
    that do not fit an int32.  Non-strict, because pre-release and overflow
    information is dropped.  (Holds of the code after the `fix:` commits
    abb7de28, 95edb579; before them 2147483648.0.0 projected below 1.0.0.) -/
theorem fromSemver_monotone (a b : Int × Int × Int)
    (ha : 0 ≤ a.1 ∧ 0 ≤ a.2.1 ∧ 0 ≤ a.2.2) (hb : 0 ≤ b.1 ∧ 0 ≤ b.2.1 ∧ 0 ≤ b.2.2)
    (h : Version.semverCoreCmp a b ≠ .gt) :
    Version.cmp (Version.fromSemver a.1 a.2.1 a.2.2) (Version.fromSemver b.1 b.2.1 b.2.2) ≠ .gt := by
  obtain ⟨a1, a2, a3⟩ := a
  obtain ⟨b1, b2, b3⟩ := b
  simp only at ha hb
  unfold Version.fromSemver Version.cmp
  simp only [ne_eq, not_true_eq_false, if_false]
  rw [List.append_assoc, List.append_assoc, lexCmp_append_left intCmp_totalPre.refl,
    Version.lexCmp_append_right intCmp_totalPre.refl _ _ _ (by simp [Version.satSlots_length])]
  refine Version.satSlots_mono false [a1, a2, a3] [b1, b2, b3] rfl ?_ ?_ h
  · intro x hx; simp at hx; omega
  · intro x hx; simp at hx; omega

/-- Below 2^31 the mapping is an order embedding of the cores. -/
theorem fromSemver_embedding_small (a b : Int × Int × Int)
    (ha : 0 ≤ a.1 ∧ a.1 < 2147483648 ∧ 0 ≤ a.2.1 ∧ a.2.1 < 2147483648 ∧ 0 ≤ a.2.2 ∧ a.2.2 < 2147483648)
    (hb : 0 ≤ b.1 ∧ b.1 < 2147483648 ∧ 0 ≤ b.2.1 ∧ b.2.1 < 2147483648 ∧ 0 ≤ b.2.2 ∧ b.2.2 < 2147483648) :
    Version.cmp (Version.fromSemver a.1 a.2.1 a.2.2) (Version.fromSemver b.1 b.2.1 b.2.2)
      = Version.semverCoreCmp a b := by
  obtain ⟨a1, a2, a3⟩ := a
  obtain ⟨b1, b2, b3⟩ := b
  simp only at ha hb
  have e : ∀ x : Int, 0 ≤ x → x < 2147483648 → ¬ x > Version.maxInt32 := by
    intro x _ h; simp only [Version.maxInt32]; omega
  unfold Version.fromSemver Version.semverCoreCmp Version.cmp
  rw [Version.satSlots_small _ (e a1 ha.1 ha.2.1), Version.satSlots_small _ (e a2 ha.2.2.1 ha.2.2.2.1),
    Version.satSlots_small _ (e a3 ha.2.2.2.2.1 ha.2.2.2.2.2),
    Version.satSlots_small _ (e b1 hb.1 hb.2.1), Version.satSlots_small _ (e b2 hb.2.2.1 hb.2.2.2.1),
    Version.satSlots_small _ (e b3 hb.2.2.2.2.1 hb.2.2.2.2.2)]
  rw [Version.toInt32_id (by omega) ha.2.1, Version.toInt32_id (by omega) ha.2.2.2.1,
    Version.toInt32_id (by omega) ha.2.2.2.2.2, Version.toInt32_id (by omega) hb.2.1,
    Version.toInt32_id (by omega) hb.2.2.2.1, Version.toInt32_id (by omega) hb.2.2.2.2.2]
  simp [Version.satSlots, lexCmp, intCmp_totalPre.refl, Ordering.then]

/-! ## Masterminds/semver in front of `FromSemver`; gobin.ParseVersion -/

/-- The numbers `semver.NewVersion` returns are non-negative (they are the
    values of digit strings) — the hypothesis of `fromSemver_monotone` holds of
    every parsed version. -/
theorem semver_numbers_nonneg (s : List Char) (v : Semver.SV) (h : Semver.parse s = some v) :
    0 ≤ v.major ∧ 0 ≤ v.minor ∧ 0 ≤ v.patch := Semver.parse_nonneg h

/-- `FromSemver ∘ NewVersion` never inverts Masterminds' `Compare`, for all
    texts the parser accepts (any pre-release, any build metadata, numbers up
    to 2^63-1): `a ≤ b` gives `FromSemver(a) ≤ FromSemver(b)`. -/
theorem semver_projection_monotone (s t : List Char) (a b : Semver.SV)
    (ha : Semver.parse s = some a) (hb : Semver.parse t = some b) (h : Semver.cmp a b ≠ .gt) :
    Version.cmp (Semver.project a) (Semver.project b) ≠ .gt :=
  Semver.project_mono a b (Semver.parse_nonneg ha) (Semver.parse_nonneg hb) (Semver.cmp_core_of_ne_gt a b h)

/-- The order claircore itself uses on semantic versions — the generic
    comparison of the projections — is a total preorder. -/
theorem semver_generic_totalPre : TotalPre (keyCmp Version.cmp Semver.project) :=
  keyCmp_totalPre Version.cmp_totalPre Semver.project

/-- (Masterminds' own `Compare` is not: two numeric pre-release parts of equal
    value and different spelling are each below the other.  claircore never
    orders by it.) -/
theorem semver_library_compare_counterexample :
    (do let a ← Semver.parse "1.0.0-01".toList
        let b ← Semver.parse "1.0.0-1".toList
        pure (Semver.cmp a b, Semver.cmp b a)) = some (.lt, .lt) := by
  decide

/-- `gobin.ParseVersion` (the matcher-side normalisation of a Go module
    version) is `FromSemver ∘ NewVersion` (the vulnerability-side one) on every
    text whose three numbers have at most nine digits.  (`_partial`: beyond
    nine digits `fitInt32` cuts the number, see the counterexample.) -/
theorem gobin_agrees_with_fromSemver_partial (s : List Char) (g : Semver.Groups)
    (hg : Semver.groups s = some g) (h1 : g.m1.length ≤ 9) (h2 : g.m2.length ≤ 9) (h3 : g.m3.length ≤ 9) :
    ∃ v, Semver.parse s = some v ∧ Semver.gobinParse s = some (Semver.project v) :=
  Semver.gobin_agrees hg h1 h2 h3

example : ∃ g, Semver.groups "v1.2.30-rc.1+build".toList = some g ∧ g.m1.length ≤ 9 ∧ g.m2.length ≤ 9 ∧ g.m3.length ≤ 9 :=
  ⟨_, rfl, by decide, by decide, by decide⟩

/-- Finding gobin-parseversion-truncates: with a ten-digit number the
    projection inverts the order, and differs from `FromSemver`. -/
theorem gobin_truncation_inverts_counterexample :
    (do let a ← Semver.parse "1.0.1000000000".toList
        let b ← Semver.parse "1.0.999999999".toList
        let ga ← Semver.gobinParse "1.0.1000000000".toList
        let gb ← Semver.gobinParse "1.0.999999999".toList
        pure (Semver.cmp a b, Version.cmp ga gb, Version.cmp (Semver.project a) (Semver.project b)))
      = some (.gt, .lt, .gt) := by
  decide

/-! ## OSV `Insert`, SEMVER ranges (updater/osv/osv.go) -/

/-- The event loop leaves exactly one cell per interval, in the order of the
    list — for every list of intervals (`introduced`, then at most one of
    `fixed` / `last_affected` / `limit: "*"`) in which every interval but the
    last has its closing event; sorted or not, "0" or a version as
    `introduced`, parseable or not, with or without an `affected.versions` list. -/
theorem osv_cells_of_intervals (hasVersions : Bool) (ivs : List OsvRange.Interval)
    (h : OsvRange.wellShaped ivs = true) :
    (OsvRange.run hasVersions {} (OsvRange.eventsOf ivs)).vers = ivs.map (OsvRange.cellOf hasVersions) := by
  have := OsvRange.run_intervals hasVersions ivs {} (Or.inl ⟨rfl, rfl, rfl⟩) h
  simpa [OsvRange.St.vers] using this

/-- **The ranges cover exactly the affected versions.**  For a well-shaped
    list of intervals whose bounds are semantic versions without pre-release
    and with numbers below MaxInt32, and a version of the same kind: the
    projection `FromSemver(v)` lies in one of the ranges `Insert` creates
    (after the implicit +∞ and the removal of inverted ranges) exactly when
    some interval contains `v` as the OSV schema states it (`introduced ≤ v`,
    `v < fixed`, `v ≤ last_affected`, unbounded otherwise; Masterminds'
    `Compare`).  `last_affected` needs an empty `affected.versions` list (with
    one the code ignores the event: C14's finding).  (`_partial`: pre-releases
    and numbers above MaxInt32 are collapsed by the projection, see the
    counterexamples.) -/
theorem osv_ranges_cover_exactly_partial (hasVersions : Bool) (ivs : List OsvRange.Interval) (v : Semver.SV)
    (hw : OsvRange.wellShaped ivs = true) (hc : ∀ iv ∈ ivs, iv.clean = true)
    (hl : hasVersions = false ∨ ∀ iv ∈ ivs, iv.close.isLastAffected = false)
    (hp : v.pre.isEmpty = true) (hs : OsvRange.small v = true) :
    OsvRange.covers (OsvRange.ranges hasVersions (OsvRange.eventsOf ivs)) (Semver.project v)
      = ivs.any fun iv => OsvRange.affectedBy iv v :=
  OsvRange.covers_exact hasVersions ivs v hw hc hl hp hs

/-- The hypotheses are satisfiable: two intervals out of order, "0", `fixed`
    and `last_affected`. -/
example :
    let ivs : List OsvRange.Interval :=
      [⟨"2.0.0".toList, .lastAffected "2.3.1".toList⟩, ⟨"0".toList, .fixed "v1.4.2".toList⟩]
    OsvRange.wellShaped ivs = true ∧ (ivs.all fun iv => iv.clean) = true ∧
    (ivs.map fun iv => (Semver.parse "2.3.1".toList).map (OsvRange.affectedBy iv)) = [some true, some false] := by
  decide

/-- For ALL versions and bounds (pre-releases, numbers of any size): a version
    whose projection is inside one of the ranges lies below the closing bound
    of one of the intervals — strictly below `fixed`, at most `last_affected` —
    in Masterminds' order.  The projection can lose affected versions, it never
    reaches past an upper bound. -/
theorem osv_covers_within_upper (hasVersions : Bool) (ivs : List OsvRange.Interval) (t : List Char) (v : Semver.SV)
    (hw : OsvRange.wellShaped ivs = true)
    (hl : hasVersions = false ∨ ∀ iv ∈ ivs, iv.close.isLastAffected = false)
    (hv : Semver.parse t = some v)
    (h : OsvRange.covers (OsvRange.ranges hasVersions (OsvRange.eventsOf ivs)) (Semver.project v) = true) :
    ∃ iv ∈ ivs, OsvRange.upperSound iv.close v :=
  OsvRange.covers_within_upper hasVersions ivs t v hw hl hv h

/-- Exactness fails with pre-releases: `FromSemver` drops them, so a Go
    pseudo-version below the fixed pseudo-version is affected and not covered
    (the range [0.0.0, 0.0.0) is empty). -/
theorem osv_prerelease_not_covered_counterexample :
    let ivs : List OsvRange.Interval := [⟨"0".toList, .fixed "0.0.0-20220314234659-1baeb1ce4c0b".toList⟩]
    (do let v ← Semver.parse "0.0.0-20210101000000-abcdef123456".toList
        pure (OsvRange.wellShaped ivs, ivs.any fun iv => OsvRange.affectedBy iv v,
              OsvRange.covers (OsvRange.ranges false (OsvRange.eventsOf ivs)) (Semver.project v)))
      = some (true, true, false) := by
  decide

/-- … and with numbers above MaxInt32, which saturate. -/
theorem osv_saturated_not_covered_counterexample :
    let ivs : List OsvRange.Interval := [⟨"0".toList, .fixed "2147483654.0.0".toList⟩]
    (do let v ← Semver.parse "2147483653.0.0".toList
        pure (OsvRange.wellShaped ivs, ivs.any fun iv => OsvRange.affectedBy iv v,
              OsvRange.covers (OsvRange.ranges false (OsvRange.eventsOf ivs)) (Semver.project v)))
      = some (true, true, false) := by
  decide

/-- The event loop depends on the order of the events (the schema's evaluation
    sorts them): `introduced 1.0.0, introduced 2.0.0, fixed 1.5.0, fixed 2.5.0`
    yields the single range [2.0.0, 2.5.0); 1.2.0 is not covered. -/
theorem osv_unsorted_events_counterexample :
    let evs : List OsvRange.Event :=
      [{ introduced := "1.0.0".toList }, { introduced := "2.0.0".toList },
       { fixed := "1.5.0".toList }, { fixed := "2.5.0".toList }]
    (do let v ← Semver.parse "1.2.0".toList
        let w ← Semver.parse "2.2.0".toList
        pure ((OsvRange.ranges false evs).length,
              OsvRange.covers (OsvRange.ranges false evs) (Semver.project v),
              OsvRange.covers (OsvRange.ranges false evs) (Semver.project w)))
      = some (1, false, true) := by
  decide

/-- An interval without closing event that is followed by another interval is
    lost (`wellShaped` excludes it): `introduced 1.0.0, introduced 3.0.0,
    fixed 4.0.0` does not cover 2.0.0. -/
theorem osv_unclosed_interval_lost_counterexample :
    let ivs : List OsvRange.Interval := [⟨"1.0.0".toList, .none⟩, ⟨"3.0.0".toList, .fixed "4.0.0".toList⟩]
    (do let v ← Semver.parse "2.0.0".toList
        pure (OsvRange.wellShaped ivs, ivs.any fun iv => OsvRange.affectedBy iv v,
              OsvRange.covers (OsvRange.ranges false (OsvRange.eventsOf ivs)) (Semver.project v)))
      = some (false, true, false) := by
  decide

/-! ## PEP 440 (pkg/pep440) -/

/-- `(*Version).Compare` is a total preorder on all parsed versions. -/
theorem pep440_cmp_totalPre : TotalPre Pep440.cmp :=
  keyCmp_totalPre Version.cmp_totalPre Pep440.project

/-- The scheme's order is the generic order of the projections, so the
    projection used for database-side filtering can never invert it.  (Stated
    so that a rewrite of `Compare` that stops going through `Version()`
    re-opens the obligation.) -/
theorem pep440_projection_monotone (a b : Pep440.Ver) :
    Pep440.cmp a b = Version.cmp (Pep440.project a) (Pep440.project b) := rfl

/-- Print-parse: for every version `v` that `Parse` can return, parsing
    `v.String()` succeeds and gives back `v` itself (so in particular a
    version that compares equal to `v`).  Covers every epoch, any number of
    release components, every pre/post/dev combination and all int64 values. -/
theorem pep440_print_parse (s : List Char) (v : Pep440.Ver) (h : Pep440.parse s = some v) :
    Pep440.parse (Pep440.toStr v) = some v :=
  Pep440.print_parse v (Pep440.parse_wf h)

/-- … hence the reparsed version compares equal to the original. -/
theorem pep440_print_parse_equal (s : List Char) (v : Pep440.Ver) (h : Pep440.parse s = some v) :
    ∃ v', Pep440.parse (Pep440.toStr v) = some v' ∧ Pep440.cmp v v' = .eq :=
  ⟨v, pep440_print_parse s v h, keyCmp_totalPre Version.cmp_totalPre Pep440.project |>.refl v⟩

/-- The same for any well-formed value, parsed or constructed: non-negative
    int64 fields, at least one release number, label one of "", a, b, rc, and
    no pre-release number without a label (`Pep440.WF`). -/
theorem pep440_print_parse_wf (v : Pep440.Ver) (h : Pep440.WF v) : Pep440.parse (Pep440.toStr v) = some v :=
  Pep440.print_parse v h

/-- `WF` is satisfiable, e.g. by 1!2.3a5.post6.dev7. -/
example : Pep440.WF { epoch := 1, release := [2, 3], label := ['a'], preN := 5, post := 6, dev := 7 } :=
  ⟨by decide, by decide, by decide, by simp [Pep440.ValidLabel], by decide, by simp, by decide, by decide⟩

/-- A PEP 440 range written `>=a, <b` (`Range.Match` over the two criteria
    `ParseRange` produces) matches exactly the versions `v` with `a ≤ v < b`. -/
theorem pep440_range_half_open (a b v : Pep440.Ver) :
    Pep440.rangeMatch [⟨.ge, a⟩, ⟨.lt, b⟩] v = true ↔ Pep440.cmp a v ≠ .gt ∧ Pep440.cmp v b = .lt := by
  have hs := pep440_cmp_totalPre.swap a v
  simp only [Pep440.rangeMatch, List.all_cons, List.all_nil, Pep440.Criterion.matches, Bool.and_true,
    Bool.and_eq_true, bne_iff_ne, beq_iff_eq, ne_eq]
  rw [hs]
  cases Pep440.cmp a v <;> simp [Ordering.swap]

/-- Each operator of a version specifier means what it says in terms of `Compare`. -/
theorem pep440_criterion_meaning (c v : Pep440.Ver) :
    ((⟨.eq, c⟩ : Pep440.Criterion).matches v = true ↔ Pep440.cmp v c = .eq) ∧
    ((⟨.ne, c⟩ : Pep440.Criterion).matches v = true ↔ Pep440.cmp v c ≠ .eq) ∧
    ((⟨.le, c⟩ : Pep440.Criterion).matches v = true ↔ Pep440.cmp v c ≠ .gt) ∧
    ((⟨.ge, c⟩ : Pep440.Criterion).matches v = true ↔ Pep440.cmp v c ≠ .lt) ∧
    ((⟨.lt, c⟩ : Pep440.Criterion).matches v = true ↔ Pep440.cmp v c = .lt) ∧
    ((⟨.gt, c⟩ : Pep440.Criterion).matches v = true ↔ Pep440.cmp v c = .gt) := by
  simp [Pep440.Criterion.matches]

/-- `Range.AND` / a comma in a specifier is conjunction. -/
theorem pep440_range_conjunction (a b : List Pep440.Criterion) (v : Pep440.Ver) :
    Pep440.rangeMatch (a ++ b) v = (Pep440.rangeMatch a v && Pep440.rangeMatch b v) :=
  Pep440.rangeMatch_append a b v

/-- **`Match` ⇔ the specifier's meaning.**  For every specifier text
    `ParseRange` accepts: the range matches `v` exactly when every
    comma-separated part of the text (white space removed) matches, a part
    being the operator text up to its last operator character applied to the
    version parsed from the rest (`opCriteria`, characterised by
    `pep440_operator_table`). -/
theorem pep440_range_spec (s : List Char) (cs : List Pep440.Criterion) (h : Pep440.parseRange s = some cs)
    (v : Pep440.Ver) :
    Pep440.rangeMatch cs v = true ↔
      ∀ p ∈ Version.splitOn ',' (s.filter fun c => !Pep440.isSpace c),
        ∃ c, Pep440.parseCriterion p = some c ∧ Pep440.rangeMatch c v = true :=
  Pep440.parseCriteria_spec _ cs h v

/-- The operator table of `ParseRange`: exactly `==`, `!=`, `<=`, `>=`, `<`,
    `>` (one criterion with that comparison, see `pep440_criterion_meaning`)
    and `~=` (two criteria, at least two release segments); everything else —
    in particular `===` — is an error. -/
theorem pep440_operator_table (o : List Char) (c : Pep440.Ver) (cs : List Pep440.Criterion)
    (h : Pep440.opCriteria o c = some cs) :
    (o = ['=', '='] ∧ cs = [⟨.eq, c⟩]) ∨ (o = ['!', '='] ∧ cs = [⟨.ne, c⟩]) ∨ (o = ['<', '='] ∧ cs = [⟨.le, c⟩]) ∨
    (o = ['>', '='] ∧ cs = [⟨.ge, c⟩]) ∨ (o = ['<'] ∧ cs = [⟨.lt, c⟩]) ∨ (o = ['>'] ∧ cs = [⟨.gt, c⟩]) ∨
    (o = ['~', '='] ∧ 2 ≤ c.release.length ∧ cs = [⟨.ge, c⟩, ⟨.lt, Pep440.compatUpper c⟩]) :=
  Pep440.opCriteria_cases h

/-- Arbitrary equality `===` is rejected for every version text. -/
theorem pep440_arbitrary_equality_rejected (part : List Char)
    (h : (Pep440.splitAtLastOp part).1 = ['=', '=', '=']) : Pep440.parseCriterion part = none := by
  unfold Pep440.parseCriterion
  cases Pep440.parse (Pep440.splitAtLastOp part).2 with
  | none => rfl
  | some v => simp [h, Pep440.opCriteria]

/-- The compatible-release operator: `~=V` (at least two release segments)
    matches exactly the versions `v` with `V ≤ v < U`, `U` being `V`'s release
    without its last segment and the new last segment incremented, same epoch
    — a half-open range in the scheme's own order. -/
theorem pep440_compatible_release_meaning (c v : Pep440.Ver) (h : 2 ≤ c.release.length) :
    Pep440.opCriteria ['~', '='] c = some [⟨.ge, c⟩, ⟨.lt, Pep440.compatUpper c⟩] ∧
    (Pep440.rangeMatch [⟨.ge, c⟩, ⟨.lt, Pep440.compatUpper c⟩] v = true ↔
      Pep440.cmp c v ≠ .gt ∧ Pep440.cmp v (Pep440.compatUpper c) = .lt) := by
  constructor
  · have : ¬ c.release.length < 2 := by omega
    simp [Pep440.opCriteria, this]
  · exact pep440_range_half_open c (Pep440.compatUpper c) v

/-- `~=2.2.3` is `>=2.2.3, <2.3`. -/
example : (Pep440.parseRange "~= 2.2.3".toList).map (fun r => r.map fun c => (c.op, Pep440.toStr c.v)) =
    some [(.ge, "2.2.3".toList), (.lt, "2.3".toList)] := by decide

/-- Wildcards are not implemented — and not rejected either: `==1.*` is read
    as `==1` (the unanchored pattern stops before `.*`), so it does not match
    1.5, which PEP 440 says it should.  (Outside the statement of C12; recorded
    as an observation.) -/
example : (do
    let r ← Pep440.parseRange "==1.*".toList
    let v ← Pep440.parse "1.5".toList
    let w ← Pep440.parse "1.0".toList
    pure (r.map (·.op), Pep440.rangeMatch r v, Pep440.rangeMatch r w)) = some ([.eq], false, true) := by decide

/-- Equal PEP 440 versions are interchangeable. -/
theorem pep440_equal_interchangeable (a b x : Pep440.Ver) (h : Pep440.cmp a b = .eq) :
    Pep440.cmp a x = Pep440.cmp b x ∧ Pep440.cmp x a = Pep440.cmp x b :=
  ⟨pep440_cmp_totalPre.congr_left h x, pep440_cmp_totalPre.congr_right h x⟩

/-! ## RubyGems (ruby/version.go) -/

/-- `Version.Compare` is a total preorder on all segment lists (hence on all
    parsed versions): string segment < numeric segment, numeric segments by
    zero-padded text, missing segments count as "0". -/
theorem gem_cmp_totalPre : TotalPre Gem.cmp := Gem.cmp_totalPre

/-- Equal gem versions are interchangeable. -/
theorem gem_equal_interchangeable (a b x : List Gem.Seg) (h : Gem.cmp a b = .eq) :
    Gem.cmp a x = Gem.cmp b x ∧ Gem.cmp x a = Gem.cmp x b :=
  ⟨gem_cmp_totalPre.congr_left h x, gem_cmp_totalPre.congr_right h x⟩

/-- A trailing all-zero numeric segment does not change the class
    ("1.0" = "1", "1.a.00" = "1.a"). -/
theorem gem_trailing_zero_equal (l : List Gem.Seg) (d : List Char) (h : d.all (· = '0') = true) :
    Gem.cmp (l ++ [.num d]) l = .eq :=
  lexCmpPad_append_pad Gem.zeroSeg Gem.segCmp_totalPre (.num d) (Gem.zero_seg_eq_pad d h) l

/-- `canonicalize` drops a trailing zero segment: "1.2.0" and "1.2" have the
    same canonical segments (for every segment list, prerelease or not). -/
theorem gem_canonical_trailing_zero (l : List Gem.Seg) (z : Gem.Seg) (hz : z.isZero = true) :
    Gem.canonSegs (l ++ [z]) = Gem.canonSegs l :=
  Gem.canonSegs_append_zero l z hz

/-- `canonicalize` drops a zero segment that stands directly before the first
    letter of a prerelease version: "1.0.a" and "1.a" (more generally
    `pre.0.a.rest` and `pre.a.rest` with `pre` numeric) have the same canonical
    segments, hence compare equal. -/
theorem gem_canonical_prerelease_zero (pre : List Gem.Seg) (hpre : ∀ s ∈ pre, s.isStr = false)
    (z : Gem.Seg) (hz : z.isZero = true) (t : List Char) (rest : List Gem.Seg) :
    Gem.canonSegs (pre ++ z :: .str t :: rest) = Gem.canonSegs (pre ++ .str t :: rest) :=
  Gem.canonSegs_zero_before_str pre hpre z hz t rest

/-! ## Maven (java/maven_version.go) -/

/-- `Compare` is reflexive. -/
theorem maven_cmp_refl (a : Maven.MV) : Maven.cmp a a = .eq := Maven.cmp_refl a

/-- `Compare(b, a) = -Compare(a, b)`. -/
theorem maven_cmp_antisymm (a b : Maven.MV) : Maven.cmp b a = (Maven.cmp a b).swap := Maven.cmp_swap a b

/-- `Compare` is transitive on every triple of versions that are pairwise
    `compat`: position by position no string component meets a list component
    and no number 0 meets a string or a list.  (`_partial`: without the
    hypothesis the statement is false, see the two counterexamples.) -/
theorem maven_cmp_trans_partial (a b c : Maven.MV)
    (hab : Maven.compat a b = true) (hbc : Maven.compat b c = true) (hac : Maven.compat a c = true)
    (h₁ : Maven.cmp a b ≠ .gt) (h₂ : Maven.cmp b c ≠ .gt) : Maven.cmp a c ≠ .gt :=
  Maven.cmp_trans_of_compat a b c hab hbc hac h₁ h₂

/-- The hypothesis is satisfiable by ordinary versions: dotted numbers with a
    trailing `-qualifier` are pairwise compatible. -/
example : (do
    let a ← Maven.parse "1.0.1".toList
    let b ← Maven.parse "1.2-beta".toList
    let c ← Maven.parse "1.2-rc".toList
    pure (Maven.compat a b && Maven.compat b c && Maven.compat a c)) = some true := by decide

/-- Full-strength transitivity is false of the code (finding maven-intransitive):
    "1.sp" > "1" > "1-alpha" but "1.sp" < "1-alpha" — a string against `nil`
    is decided by qualifier rank, a string against a list by kind. -/
theorem maven_intransitive_counterexample :
    (do let a ← Maven.parse "1.sp".toList
        let b ← Maven.parse "1".toList
        let c ← Maven.parse "1-alpha".toList
        pure (Maven.cmp a b, Maven.cmp b c, Maven.cmp a c)) = some (.gt, .gt, .lt) := by
  decide

/-- … and also without any list (finding maven-zero-intransitive): the number
    0 equals `nil` but is above every string, while `nil` is below "sp":
    "1.0.alpha" < "1" < "1.sp" but "1.0.alpha" > "1.sp". -/
theorem maven_zero_intransitive_counterexample :
    (do let a ← Maven.parse "1.0.alpha".toList
        let b ← Maven.parse "1".toList
        let c ← Maven.parse "1.sp".toList
        pure (Maven.cmp a b, Maven.cmp b c, Maven.cmp a c)) = some (.lt, .lt, .gt) := by
  decide

/-! ## Red Hat container tags (pkg/rhctag, go-rpm-version) -/

/-- go-rpm-version's `Version.Compare` (epoch, then `rpmvercmp` of version and
    release) is a total preorder on all strings. -/
theorem rpm_cmp_totalPre : TotalPre RhcTag.rpmCmp := RhcTag.rpmCmp_totalPre

/-- `rhctag.(*Version).Compare` is a total preorder. -/
theorem rhctag_cmp_totalPre : TotalPre RhcTag.cmp := RhcTag.cmp_totalPre

/-- Equal tags are interchangeable. -/
theorem rhctag_equal_interchangeable (a b x : RhcTag.Tag) (h : RhcTag.cmp a b = .eq) :
    RhcTag.cmp a x = RhcTag.cmp b x ∧ RhcTag.cmp x a = RhcTag.cmp x b :=
  ⟨rhctag_cmp_totalPre.congr_left h x, rhctag_cmp_totalPre.congr_right h x⟩

/-- On the fragment of plain tags the projection `Version(min)` (either
    bound) never inverts `Compare`: for two tags that are both `plain v` (same
    optional `v` prefix; rpm tokens of the text before the first `-` are Major
    then Minor or nothing; both below 2^31; no `:`), `a ≤ b` gives
    `Version(a) ≤ Version(b)`.  (`_partial`: outside the fragment the
    statement is false, see the three counterexamples below.) -/
theorem rhctag_projection_monotone_partial (v : Bool) (a b : RhcTag.Tag) (min : Bool)
    (ha : RhcTag.plain v a = true) (hb : RhcTag.plain v b = true) (h : RhcTag.cmp a b ≠ .gt) :
    Version.cmp (RhcTag.project a min) (RhcTag.project b min) ≠ .gt :=
  RhcTag.proj_mono v a b min ha hb h

/-- The tags quoted in the package documentation are in the fragment. -/
example : (do
    let a ← RhcTag.parse "4.7-140.49a6fcf.release_4.7".toList
    let b ← RhcTag.parse "4.8-167.9a9db5f.release_4.8".toList
    let c ← RhcTag.parse "v4.6.0-202112140546.p0.g8b9da97.assembly.stream".toList
    let d ← RhcTag.parse "v4.7.0-202112140553.p0.g091bb99.assembly.stream".toList
    pure (RhcTag.plain false a && RhcTag.plain false b && RhcTag.plain true c && RhcTag.plain true d)) = some true := by
  decide

/-- The fragment can be recognised on the text alone (`RhcTag.shapeNums`): a
    tag `[v]digits`, `[v]digits.` or `[v]digits.digits` followed by the end of
    the text, a `-` (the release; it may contain further dashes) or — after the
    second number — a `.`, without `:` and with both numbers below 2^31, is
    parsed by `rhctag.Parse` to exactly these two numbers (Minor 0 when
    absent), and the parsed tag is `plain`. -/
theorem rhctag_shape_plain (s : List Char) (v : Bool) (M m : Nat) (h : RhcTag.shapeNums s = some (v, M, m)) :
    RhcTag.parse s = some { original := s, major := M, minor := m } ∧
    RhcTag.plain v { original := s, major := M, minor := m } = true :=
  RhcTag.shape_parse_plain h

/-- Hence, on texts: two well-shaped tags with the same prefix both parse, and
    `a ≤ b` by `Compare` gives `Version(a) ≤ Version(b)` (either bound); the
    projections are (Major, Minor, 0 | MaxInt32) of the numbers read off the text. -/
theorem rhctag_projection_monotone_shape (s₁ s₂ : List Char) (v : Bool) (M₁ m₁ M₂ m₂ : Nat) (min : Bool)
    (h₁ : RhcTag.shapeNums s₁ = some (v, M₁, m₁)) (h₂ : RhcTag.shapeNums s₂ = some (v, M₂, m₂)) :
    ∃ a b, RhcTag.parse s₁ = some a ∧ RhcTag.parse s₂ = some b ∧
      a.major = M₁ ∧ a.minor = m₁ ∧ b.major = M₂ ∧ b.minor = m₂ ∧
      (RhcTag.cmp a b ≠ .gt → Version.cmp (RhcTag.project a min) (RhcTag.project b min) ≠ .gt) := by
  obtain ⟨p₁, q₁⟩ := RhcTag.shape_parse_plain h₁
  obtain ⟨p₂, q₂⟩ := RhcTag.shape_parse_plain h₂
  exact ⟨_, _, p₁, p₂, rfl, rfl, rfl, rfl, RhcTag.proj_mono v _ _ min q₁ q₂⟩

/-- Tags with several dashes ("source" container tags) are well-shaped: the
    revision is cut at the FIRST dash. -/
example : RhcTag.shapeNums "8.6-7-source".toList = some (false, 8, 6) ∧
    RhcTag.shapeNums "v4.7.0-202112140553.p0.g091bb99.assembly.stream-source".toList = some (true, 4, 7) ∧
    RhcTag.shapeNums "4.7-140.49a6fcf.release_4.7".toList = some (false, 4, 7) ∧
    RhcTag.shapeNums "4.5x".toList = none := by decide

/-- The projection `Version(min)` can invert `Compare` (finding
    rhctag-projection-inverts): "v4.9.0-1" < "4.8.0-1" by the rpm comparison
    of the original texts (a letter is below a number), the projections are
    (4,9) > (4,8). -/
theorem rhctag_projection_monotone_counterexample :
    (do let a ← RhcTag.parse "v4.9.0-1".toList
        let b ← RhcTag.parse "4.8.0-1".toList
        pure (RhcTag.cmp a b, Version.cmp (RhcTag.project a true) (RhcTag.project b true))) = some (.lt, .gt) := by
  decide

/-- Also with a minor that is not plain digits (finding
    rhctag-projection-nonnumeric): "4.5x" > "4.3", projections (4,0) < (4,3). -/
theorem rhctag_projection_nonnumeric_counterexample :
    (do let a ← RhcTag.parse "4.5x".toList
        let b ← RhcTag.parse "4.3".toList
        pure (RhcTag.cmp a b, Version.cmp (RhcTag.project a true) (RhcTag.project b true))) = some (.gt, .lt) := by
  decide

/-- And by int32 wrap-around (finding rhctag-projection-int32-wrap). -/
theorem rhctag_projection_wrap_counterexample :
    (do let a ← RhcTag.parse "2147483648.0".toList
        let b ← RhcTag.parse "1.0".toList
        pure (RhcTag.cmp a b, Version.cmp (RhcTag.project a true) (RhcTag.project b true))) = some (.gt, .lt) := by
  decide

end ClairModel.Props.C12
