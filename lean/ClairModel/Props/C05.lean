import ClairModel.Model.Match

namespace ClairModel.Props.C05
open ClairModel ClairModel.Match

/-- placeholder while the harness is brought up -/
theorem cancelled_is_error (store : Store) (ms : List Matcher) (es : List Enricher) (recs : List Record) :
    enrichedMatch true store ms es recs = none := by
  simp [enrichedMatch]

end ClairModel.Props.C05
