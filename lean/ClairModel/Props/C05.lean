/-
  C05 — Vulnerability report is the exact, well-formed union of matcher results.
  Property theorems only; helper lemmas live in Proofs/Match.lean.

  The functional model (Model/Match.lean) follows internal/matcher/controller.go
  and match.go and indexreport.go `IndexRecords`; matchers, enrichers and the
  store are arbitrary functions.  It is tied to the real code by the
  differential run of `./check C05` (go/internal/c05).
-/
import ClairModel.Proofs.Match
import ClairModel.Proofs.MatchProto
import ClairModel.Proofs.EnrichProto
import ClairModel.Proofs.MatchFan
import ClairModel.Proofs.MatchSetup
import ClairModel.Proofs.MatchStore
import ClairModel.Proofs.MatchWF
import ClairModel.Proofs.MatchLink

-- every variable of a property statement is bound explicitly: a misspelt name is an error, not a new variable
set_option autoImplicit false

namespace ClairModel.Props.C05
open ClairModel ClairModel.Match

/-! ## The collector: schedule independence -/

/-- The collector's result does not depend on the order in which the
    (package, vulnerability) pairs reach it — whatever the arrival order of the
    matcher results and the iteration order of each result map: the
    vulnerability table is the same function, the key set of
    `PackageVulnerabilities` is the same, and the list under each package is
    the same up to order.  Hypothesis: equal ids carry equal vulnerabilities
    (true of anything read from one store). -/
theorem collect_perm (e₁ e₂ : List (Nat × Vuln)) (hp : e₁.Perm e₂) (hf : IdFunctional e₁) :
    (∀ id, find id (collect e₁).vulns = find id (collect e₂).vulns) ∧
    (∀ pkg, (getL pkg (collect e₁).pkgVulns).Perm (getL pkg (collect e₂).pkgVulns)) ∧
    (∀ pkg, (find pkg (collect e₁).pkgVulns).isSome = (find pkg (collect e₂).pkgVulns).isSome) := by
  refine ⟨fun id => ?_, fun pkg => ?_, fun pkg => ?_⟩
  · rw [collect_vuln, collect_vuln]; exact lastWith_perm hp hf id
  · rw [collect_pkg, collect_pkg]; exact (hp.filter _).map _
  · rw [collect_key, collect_key, Bool.eq_iff_iff]
    simp only [List.any_eq_true]
    exact ⟨fun ⟨e, he, h⟩ => ⟨e, hp.mem_iff.1 he, h⟩, fun ⟨e, he, h⟩ => ⟨e, hp.mem_iff.2 he, h⟩⟩

/-- Without that hypothesis the table does depend on the schedule: two
    different objects with one id, the later one wins. -/
theorem collect_perm_needs_functional_ids_counterexample :
    let a : Nat × Vuln := (1, ⟨7, 10⟩)
    let b : Nat × Vuln := (1, ⟨7, 20⟩)
    [a, b].Perm [b, a] ∧ find 7 (collect [a, b]).vulns ≠ find 7 (collect [b, a]).vulns := by
  refine ⟨List.Perm.swap _ _ _, ?_⟩
  decide

/-- Arrival order of the matcher results is irrelevant. -/
theorem arrival_order_irrelevant (o₁ o₂ : List MOut) (hp : o₁.Perm o₂) (hf : IdFunctional (o₁.flatMap events)) :
    (∀ id, find id (collectOuts o₁).vulns = find id (collectOuts o₂).vulns) ∧
    (∀ pkg, (getL pkg (collectOuts o₁).pkgVulns).Perm (getL pkg (collectOuts o₂).pkgVulns)) :=
  let h := collect_perm _ _ (hp.flatMap_right events) hf
  ⟨h.1, h.2.1⟩

/-- Iteration order of a result map is irrelevant. -/
theorem map_order_irrelevant (out out' : MOut) (rest : List MOut) (hp : out.Perm out')
    (hf : IdFunctional ((out :: rest).flatMap events)) :
    (∀ id, find id (collectOuts (out :: rest)).vulns = find id (collectOuts (out' :: rest)).vulns) ∧
    (∀ pkg, (getL pkg (collectOuts (out :: rest)).pkgVulns).Perm (getL pkg (collectOuts (out' :: rest)).pkgVulns)) := by
  have hp' : ((out :: rest).flatMap events).Perm ((out' :: rest).flatMap events) := by
    simp only [List.flatMap_cons]
    exact List.Perm.append_right _ (hp.flatMap_right _)
  have h := collect_perm _ _ hp' hf
  exact ⟨h.1, h.2.1⟩

/-! ## The report is well formed -/

/-- Every id listed under a package resolves in the vulnerability table, to a
    vulnerability with that id — for any sequence the collector may see. -/
theorem ids_resolve (evs : List (Nat × Vuln)) (pkg id : Nat)
    (h : id ∈ getL pkg (collect evs).pkgVulns) :
    ∃ v, find id (collect evs).vulns = some v ∧ v.id = id := by
  obtain ⟨v, hm, hid⟩ := mem_collect_pkg.1 h
  rw [collect_vuln]
  cases hl : lastWith id evs with
  | none => exact absurd hid (lastWith_none.1 hl (pkg, v) hm)
  | some v' => exact ⟨v', rfl, (lastWith_some hl).1⟩

/-- The table holds nothing but vulnerabilities that are listed under some package. -/
theorem table_only_listed (evs : List (Nat × Vuln)) (id : Nat) (v : Vuln)
    (h : find id (collect evs).vulns = some v) :
    ∃ pkg, id ∈ getL pkg (collect evs).pkgVulns := by
  rw [collect_vuln] at h
  obtain ⟨hid, e, he, rfl⟩ := lastWith_some h
  exact ⟨e.1, mem_collect_pkg.2 ⟨e.2, he, hid⟩⟩

/-! ## The controller pipeline is exact -/

/-- `Controller.Match` of a matcher that is neither remote nor authoritative
    returns, under a package, exactly the vulnerabilities the store answered
    for that package and the matcher's `Vulnerable` accepted for one of the
    package's records the matcher's `Filter` let through. -/
theorem controller_exact (c : Bool) (store : Store) (m : Matcher) (recs : List Record) (out : MOut)
    (hk : m.kind = .plain ∨ m.kind = .versionFilter false)
    (h : controllerMatch c store m recs = some out) (k : Nat) (x : Vuln) :
    (k, x) ∈ events out ↔
      ∃ vulns, store c m.query (dbFilter m).1 (interested m recs) = some vulns ∧
        ∃ r ∈ recs, m.filter r = true ∧ r.pkg = k ∧ x ∈ getL k vulns ∧ m.vulnerable r x = some true := by
  unfold controllerMatch at h
  by_cases he : (interested m recs).isEmpty = true
  · simp only [he, if_true, Option.some.injEq] at h
    subst h
    constructor
    · intro hx; simp [events] at hx
    · rintro ⟨_, _, r, hr, hf, _⟩
      have : r ∈ interested m recs := List.mem_filter.2 ⟨hr, hf⟩
      rw [List.isEmpty_iff] at he
      rw [he] at this
      cases this
  · simp only [he] at h
    have key : ∀ (db : Bool) (vulns : MOut), store c m.query db (interested m recs) = some vulns →
        filterAll m (interested m recs) vulns = some out →
        ((k, x) ∈ events out ↔
          ∃ vulns, store c m.query db (interested m recs) = some vulns ∧
            ∃ r ∈ recs, m.filter r = true ∧ r.pkg = k ∧ x ∈ getL k vulns ∧ m.vulnerable r x = some true) := by
      intro db vulns hs h'
      unfold filterAll at h'
      rw [filterFrom_some h' k x]
      constructor
      · rintro (h0 | ⟨r, hr, h1, h2, h3⟩)
        · simp [events] at h0
        · have := List.mem_filter.1 hr
          exact ⟨vulns, hs, r, this.1, this.2, h1, h2, h3⟩
      · rintro ⟨vulns', hv, r, hr, hf, h1, h2, h3⟩
        rw [hs] at hv
        simp only [Option.some.injEq] at hv
        subst hv
        exact Or.inr ⟨r, List.mem_filter.2 ⟨hr, hf⟩, h1, h2, h3⟩
    rcases hk with hk | hk
    · have hd : (dbFilter m).1 = false := by simp [dbFilter, hk]
      rw [hd]
      cases hs : store c m.query false (interested m recs) with
      | none => simp [hk, dbFilter, hs] at h
      | some vulns =>
        rw [← hs]
        apply key false vulns hs
        simpa [hk, dbFilter, hs] using h
    · have hd : (dbFilter m).1 = true := by simp [dbFilter, hk]
      rw [hd]
      cases hs : store c m.query true (interested m recs) with
      | none => simp [hk, dbFilter, hs] at h
      | some vulns =>
        rw [← hs]
        apply key true vulns hs
        simpa [hk, dbFilter, hs] using h

/-- The keys such a matcher returns are package ids of the records it was given. -/
theorem controller_keys (c : Bool) (store : Store) (m : Matcher) (recs : List Record) (out : MOut)
    (hk : m.kind = .plain ∨ m.kind = .versionFilter false)
    (h : controllerMatch c store m recs = some out) (k : Nat) (x : Vuln) (hx : (k, x) ∈ events out) :
    ∃ r ∈ recs, r.pkg = k := by
  obtain ⟨_, _, r, hr, _, hp, _⟩ := (controller_exact c store m recs out hk h k x).1 hx
  exact ⟨r, hr, hp⟩

/-- When exactly a controller fails: it reaches the store and either the
    store fails or (for a non-authoritative matcher) some `Vulnerable` call on
    an interested record and a vulnerability the store returned for it fails.
    In particular a remote matcher never fails (see
    `remote_error_swallowed_counterexample`). -/
theorem controller_fails_iff (c : Bool) (store : Store) (m : Matcher) (recs : List Record) :
    controllerMatch c store m recs = none ↔
      reachesGet m recs = true ∧
        (store c m.query (dbFilter m).1 (interested m recs) = none ∨
          ((dbFilter m).2 = false ∧ ∃ vulns, store c m.query (dbFilter m).1 (interested m recs) = some vulns ∧
            ∃ r ∈ interested m recs, ∃ x ∈ getL r.pkg vulns, m.vulnerable r x = none)) := by
  unfold controllerMatch reachesGet
  by_cases he : (interested m recs).isEmpty = true
  · simp [he]
  · simp only [he, Bool.false_eq_true, if_false, Bool.not_false, Bool.true_and]
    cases hkind : m.kind with
    | remote =>
      simp only []
      cases m.remote (interested m recs) <;> simp
    | plain =>
      simp only [dbFilter, hkind]
      cases hs : store c m.query false (interested m recs) with
      | none => simp
      | some vulns =>
        simp only [Bool.false_eq_true, if_false, filterAll, filterFrom_none]
        constructor
        · intro h; exact ⟨by decide, Or.inr ⟨trivial, vulns, rfl, h⟩⟩
        · rintro ⟨_, h | ⟨_, v', hv, h⟩⟩
          · cases h
          · cases hv; exact h
    | versionFilter a =>
      simp only [dbFilter, hkind]
      cases hs : store c m.query true (interested m recs) with
      | none => simp
      | some vulns =>
        cases a with
        | true => simp
        | false =>
          simp only [Bool.false_eq_true, if_false, filterAll, filterFrom_none]
          constructor
          · intro h; exact ⟨by decide, Or.inr ⟨trivial, vulns, rfl, h⟩⟩
          · rintro ⟨_, h | ⟨_, v', hv, h⟩⟩
            · cases h
            · cases hv; exact h

/-! ## EnrichedMatch / Libvuln.Scan -/

/-- Exact union: when `EnrichedMatch` returns a report, an id is listed under
    a package exactly when some matcher's controller returned a vulnerability
    with that id under that package. -/
theorem report_is_union (c : Bool) (store : Store) (ms : List Matcher) (es : List Enricher)
    (recs : List Record) (r : Report) (em : List (Nat × List Nat))
    (h : enrichedMatch c store ms es recs = some (r, em)) (pkg id : Nat) :
    id ∈ getL pkg r.pkgVulns ↔
      ∃ m ∈ ms, ∃ out, controllerMatch false store m recs = some out ∧
        ∃ v, (pkg, v) ∈ events out ∧ v.id = id := by
  obtain ⟨_, _, _, hr, _⟩ := enrichedMatch_some h
  subst hr
  unfold collectOuts
  rw [mem_collect_pkg]
  constructor
  · rintro ⟨v, hv, hid⟩
    obtain ⟨out, ho, hv⟩ := mem_flatMap_events.1 hv
    obtain ⟨m, hm, hc⟩ := mem_oks.1 ho
    exact ⟨m, hm, out, hc, v, hv, hid⟩
  · rintro ⟨m, hm, out, hc, v, hv, hid⟩
    exact ⟨v, mem_flatMap_events.2 ⟨out, mem_oks.2 ⟨m, hm, hc⟩, hv⟩, hid⟩

/-- …and for matchers that are neither remote nor authoritative "returned"
    unfolds to the statement's wording: the store answered the vulnerability
    for the package and the matcher accepted it for one of the package's
    records it is interested in. -/
theorem report_is_union_of_accepted (store : Store) (ms : List Matcher) (es : List Enricher)
    (recs : List Record) (r : Report) (em : List (Nat × List Nat))
    (hloc : ∀ m ∈ ms, m.kind = .plain ∨ m.kind = .versionFilter false)
    (h : enrichedMatch false store ms es recs = some (r, em)) (pkg id : Nat) :
    id ∈ getL pkg r.pkgVulns ↔
      ∃ m ∈ ms, ∃ vulns, store false m.query (dbFilter m).1 (interested m recs) = some vulns ∧
        ∃ v ∈ getL pkg vulns, v.id = id ∧
          ∃ rec ∈ recs, m.filter rec = true ∧ rec.pkg = pkg ∧ m.vulnerable rec v = some true := by
  rw [report_is_union false store ms es recs r em h]
  obtain ⟨_, hall, _, _, _⟩ := enrichedMatch_some h
  constructor
  · rintro ⟨m, hm, out, hc, v, hv, hid⟩
    obtain ⟨vulns, hs, rec, hr, hf, hp, hx, ha⟩ := (controller_exact false store m recs out (hloc m hm) hc pkg v).1 hv
    exact ⟨m, hm, vulns, hs, v, hx, hid, rec, hr, hf, hp, ha⟩
  · rintro ⟨m, hm, vulns, hs, v, hx, hid, rec, hr, hf, hp, ha⟩
    cases hc : controllerMatch false store m recs with
    | none => exact absurd hc (hall m hm)
    | some out =>
      exact ⟨m, hm, out, hc, v, (controller_exact false store m recs out (hloc m hm) hc pkg v).2
        ⟨vulns, hs, rec, hr, hf, hp, hx, ha⟩, hid⟩

/-- Every id listed in a returned report resolves in its table. -/
theorem report_ids_resolve (c : Bool) (store : Store) (ms : List Matcher) (es : List Enricher)
    (recs : List Record) (r : Report) (em : List (Nat × List Nat))
    (h : enrichedMatch c store ms es recs = some (r, em)) (pkg id : Nat)
    (hid : id ∈ getL pkg r.pkgVulns) : ∃ v, find id r.vulns = some v ∧ v.id = id := by
  obtain ⟨_, _, _, hr, _⟩ := enrichedMatch_some h
  subst hr
  exact ids_resolve _ pkg id hid

/-- Package keys exist in the report: for an index report that files every
    package under its own id, and matchers that are neither remote nor
    authoritative, every key of `PackageVulnerabilities` is a key of
    `Packages` (which the vulnerability report shares with the index report). -/
theorem keys_are_packages (store : Store) (ms : List Matcher) (es : List Enricher) (ir : IndexReport)
    (r : Report) (em : List (Nat × List Nat))
    (hwk : ∀ p ∈ ir.packages, p.key = p.id)
    (hloc : ∀ m ∈ ms, m.kind = .plain ∨ m.kind = .versionFilter false)
    (h : enrichedMatch false store ms es (indexRecords ir) = some (r, em)) (pkg : Nat)
    (hkey : (find pkg r.pkgVulns).isSome = true) :
    ∃ p ∈ ir.packages, p.key = pkg := by
  obtain ⟨_, _, _, hr, _⟩ := enrichedMatch_some h
  subst hr
  unfold collectOuts at hkey
  rw [collect_key, List.any_eq_true] at hkey
  obtain ⟨⟨k, v⟩, hev, hk⟩ := hkey
  simp only [decide_eq_true_eq] at hk
  subst hk
  obtain ⟨out, ho, hv⟩ := mem_flatMap_events.1 hev
  obtain ⟨m, hm, hc⟩ := mem_oks.1 ho
  obtain ⟨rec, hrec, hp⟩ := controller_keys false store m _ out (hloc m hm) hc k v hv
  unfold indexRecords at hrec
  simp only [List.mem_flatMap] at hrec
  obtain ⟨p, hpm, e, _, hre⟩ := hrec
  refine ⟨p, hpm, ?_⟩
  rw [hwk p hpm, ← hp]
  unfold envRecords at hre
  by_cases hemp : e.repos.isEmpty = true
  · simp only [hemp, if_true, List.mem_singleton] at hre
    rw [hre]
  · simp only [hemp, Bool.false_eq_true, if_false, List.mem_map] at hre
    obtain ⟨_, _, rfl⟩ := hre
    rfl

/-- The hypothesis on the index report is needed: a package filed under a key
    other than its id yields a `PackageVulnerabilities` key that is not a key
    of `Packages`. -/
theorem keys_need_wellkeyed_report_counterexample :
    let ir : IndexReport := { packages := [⟨51, 1, 1⟩], envs := [(1, [⟨0, []⟩])], dists := [], repos := [] }
    let m : Matcher := { kind := .plain, filter := fun _ => true, query := [],
                         vulnerable := fun _ _ => some true, remote := fun _ => none }
    let store : Store := fun _ _ _ rs => some (rs.map fun r => (r.pkg, [⟨9, 9⟩]))
    ∃ r em, enrichedMatch false store [m] [] (indexRecords ir) = some (r, em) ∧
      (find 1 r.pkgVulns).isSome = true ∧ ∀ p ∈ ir.packages, p.key ≠ 1 := by
  refine ⟨_, _, rfl, ?_, ?_⟩ <;> decide

/-- A failing matcher yields an error, never a partial report. -/
theorem error_not_partial (c : Bool) (store : Store) (ms : List Matcher) (es : List Enricher)
    (recs : List Record) (m : Matcher) (hm : m ∈ ms) (hfail : controllerMatch false store m recs = none) :
    enrichedMatch c store ms es recs = none := by
  cases h : enrichedMatch c store ms es recs with
  | none => rfl
  | some p =>
    obtain ⟨r, em⟩ := p
    exact absurd hfail ((enrichedMatch_some h).2.1 m hm)

/-- A Context that is already cancelled yields an error (the behaviour after
    the `fix:` commit; before it the result was an empty report and a nil
    error in about half of the schedules). -/
theorem cancelled_is_error (store : Store) (ms : List Matcher) (es : List Enricher) (recs : List Record) :
    enrichedMatch true store ms es recs = none := by
  simp [enrichedMatch]

/-- A Context cancelled while a matcher's store query runs yields an error. -/
theorem cancel_during_match_is_error (c : Bool) (store : Store) (ms : List Matcher) (es : List Enricher)
    (recs : List Record) (m : Matcher) (hm : m ∈ ms) (hc : m.cancelsAtGet = true) (hr : reachesGet m recs = true) :
    enrichedMatch c store ms es recs = none := by
  cases h : enrichedMatch c store ms es recs with
  | none => rfl
  | some p =>
    obtain ⟨r, em⟩ := p
    exact absurd ⟨hc, hr⟩ ((enrichedMatch_some h).2.2.1 m hm)

/-- Conversely: with a live Context and no failing matcher a report is
    returned, and it is the collector's result over *all* matcher results —
    nothing is lost. -/
theorem no_error_complete (store : Store) (ms : List Matcher) (es : List Enricher) (recs : List Record)
    (h1 : ∀ m ∈ ms, controllerMatch false store m recs ≠ none)
    (h2 : ∀ m ∈ ms, ¬ (m.cancelsAtGet = true ∧ reachesGet m recs = true)) :
    ∃ r em, enrichedMatch false store ms es recs = some (r, em) ∧
      r = collectOuts ((runAll false store ms recs).filterMap id) ∧
      ((runAll false store ms recs).filterMap id).length = ms.length := by
  refine ⟨_, _, enrichedMatch_ok h1 h2, rfl, ?_⟩
  unfold runAll
  induction ms with
  | nil => rfl
  | cons m ms ih =>
    have hm := h1 m List.mem_cons_self
    cases hc : controllerMatch false store m recs with
    | none => exact absurd hc hm
    | some out =>
      simp only [List.map_cons, hc, List.filterMap_cons, id, List.length_cons]
      rw [ih (fun m' h' => h1 m' (List.mem_cons_of_mem _ h')) (fun m' h' => h2 m' (List.mem_cons_of_mem _ h'))]

/-- The statement's "a failing matcher yields an error" is false for remote
    matchers: `Controller.Match` logs the failure of `QueryRemoteMatcher` and
    returns an empty result, so the report silently lacks that matcher
    (finding `remote-error-swallowed`). -/
theorem remote_error_swallowed_counterexample :
    let m : Matcher := { kind := .remote, filter := fun _ => true, query := [],
                         vulnerable := fun _ _ => some true, remote := fun _ => none }
    let store : Store := fun _ _ _ _ => none
    enrichedMatch false store [m] [] [⟨1, 1, 0, 0⟩] = some (Report.empty, []) := by
  rfl

/-! ## Match (the older entry point) -/

/-- `Match` joins one error per failing matcher and reports the union over the
    matchers that succeeded: a partial report always comes with an error. -/
theorem match_partial_has_error (c : Bool) (store : Store) (ms : List Matcher) (recs : List Record) :
    ((matchAll c store ms recs).2 = 0 ↔ ∀ m ∈ ms, controllerMatch c store m recs ≠ none) ∧
    ∀ pkg id, id ∈ getL pkg (matchAll c store ms recs).1.pkgVulns ↔
      ∃ m ∈ ms, ∃ out, controllerMatch c store m recs = some out ∧ ∃ v, (pkg, v) ∈ events out ∧ v.id = id := by
  constructor
  · simp only [matchAll, runAll, List.length_eq_zero_iff, List.filter_eq_nil_iff, List.mem_map]
    constructor
    · intro h m hm hn
      exact h _ ⟨m, hm, rfl⟩ (by simp [hn])
    · rintro h _ ⟨m, hm, rfl⟩ hn
      exact h m hm (by simpa using hn)
  · intro pkg id
    simp only [matchAll]
    unfold collectOuts
    rw [mem_collect_pkg]
    constructor
    · rintro ⟨v, hv, hid⟩
      obtain ⟨out, ho, hv⟩ := mem_flatMap_events.1 hv
      obtain ⟨m, hm, hc⟩ := mem_oks.1 ho
      exact ⟨m, hm, out, hc, v, hv, hid⟩
    · rintro ⟨m, hm, out, hc, v, hv, hid⟩
      exact ⟨v, mem_flatMap_events.2 ⟨out, mem_oks.2 ⟨m, hm, hc⟩, hv⟩, hid⟩

/-- Ids listed by `Match` resolve as well. -/
theorem match_ids_resolve (c : Bool) (store : Store) (ms : List Matcher) (recs : List Record) (pkg id : Nat)
    (h : id ∈ getL pkg (matchAll c store ms recs).1.pkgVulns) :
    ∃ v, find id (matchAll c store ms recs).1.vulns = some v ∧ v.id = id :=
  ids_resolve _ pkg id h

/-! ## Enrichment -/

/-- The enrichment map holds, under each kind, exactly the messages of the
    enrichers of that kind that did not fail and reported something, and it
    does not depend on the order in which workers delivered them (up to order
    within a kind). -/
theorem enrich_perm (a b : List (Nat × List Nat)) (hp : a.Perm b) (k : Nat) :
    (getL k (enrichCollect a)).Perm (getL k (enrichCollect b)) := by
  rw [enrichCollect_get, enrichCollect_get]
  exact (hp.filter _).flatMap_right _

/-- A failing or silent enricher contributes nothing and never turns the
    result into an error. -/
theorem enricher_errors_skipped (es : List Enricher) (r : Report) (k msg : Nat) :
    msg ∈ getL k (enrichCollect (enrichEntries es r)) ↔
      ∃ e ∈ es, e.kind = k ∧ ∃ ms, e.enrich r = some ms ∧ msg ∈ ms := by
  rw [enrichCollect_get]
  simp only [List.mem_flatMap, List.mem_filter, enrichEntries, List.mem_filterMap, decide_eq_true_eq]
  constructor
  · rintro ⟨⟨k', ms⟩, ⟨⟨e, he, hen⟩, rfl⟩, hmsg⟩
    cases hr : e.enrich r with
    | none => simp [hr] at hen
    | some ms' =>
      simp only [hr] at hen
      by_cases hemp : ms'.isEmpty = true
      · simp [hemp] at hen
      · simp only [hemp, Bool.false_eq_true, if_false, Option.some.injEq, Prod.mk.injEq] at hen
        obtain ⟨rfl, rfl⟩ := hen
        exact ⟨e, he, rfl, ms', hr, hmsg⟩
  · rintro ⟨e, he, rfl, ms, hr, hmsg⟩
    refine ⟨(e.kind, ms), ⟨⟨e, he, ?_⟩, rfl⟩, hmsg⟩
    have : ms.isEmpty = false := by
      cases ms with
      | nil => cases hmsg
      | cons _ _ => rfl
    simp [hr, this]

/-! ## The channel protocol of EnrichedMatch's matching phase

  Model/MatchProto.lean: sender, `lim` workers, collector, `mCh`, `vCh`,
  `mctx`; one transition per channel operation / return.  The theorems hold
  for every `lim ≥ 1`, any number of matchers, any interleaving, any pattern
  of matcher failures and any moment of cancellation by the caller (all of
  these are the operation sequence `ops`).  The machine is tied to match.go by
  the controlled-schedule runs of the harness (hook points `em.*`). -/

section Protocol
open ClairModel.MatchProto

/-- No send on a closed channel and no second close, ever: no reachable state
    has panicked and no transition out of a reachable state reports a panic. -/
theorem protocol_no_send_on_closed (lim : Nat) (ms : List Nat) (ops : List Op) :
    (Sm.run step (init lim ms) ops).panicked = false ∧
      ∀ op, (step (Sm.run step (init lim ms) ops) op).2 ≠ .panic :=
  ⟨(reachable_inv lim ms ops).noPanic, fun op => step_never_panics (reachable_inv lim ms ops) op⟩

/-- Each channel is closed exactly once: never more than once, `mCh` exactly
    when the sender has left its loop, `vCh` exactly when the sender has
    returned (which every final state has). -/
theorem protocol_close_once (lim : Nat) (ms : List Nat) (ops : List Op) :
    let s := Sm.run step (init lim ms) ops
    (s.mCloses = if s.sender = .sending then 0 else 1) ∧
    (s.vCloses = if s.sender = .done then 1 else 0) ∧
    (final s = true → s.mCloses = 1 ∧ s.vCloses = 1) := by
  intro s
  have h := reachable_inv lim ms ops
  refine ⟨?_, ?_, ?_⟩
  · by_cases hs : s.sender = .sending
    · simp only [hs, if_true]; exact h.mSending hs
    · simp only [hs, if_false]; exact h.mAfter hs
  · by_cases hs : s.sender = .done
    · simp only [hs, if_true]; exact h.vAfter hs
    · simp only [hs, if_false]; exact h.vBefore hs
  · intro hf
    simp only [final, Bool.and_eq_true, beq_iff_eq] at hf
    exact ⟨h.mAfter (by rw [hf.1.1]; intro x; cases x), h.vAfter hf.1.1⟩

/-- Deadlock freedom: in every reachable state in which some goroutine has
    not returned, some transition of the code itself can happen (not counting
    the caller's cancellation, and counting a worker's context check only
    with the outcome the current context state dictates). -/
theorem protocol_deadlock_free (lim : Nat) (hlim : 0 < lim) (ms : List Nat) (ops : List Op)
    (hnf : final (Sm.run step (init lim ms) ops) = false) :
    ∃ op, honest (Sm.run step (init lim ms) ops) op = true ∧
      (step (Sm.run step (init lim ms) ops) op).2 = .ok := by
  have h := reachable_inv lim ms ops
  apply exists_enabled h _ hnf
  have : ∀ (ops : List Op) (s : State), (Sm.run step s ops).lim = s.lim := by
    intro ops
    induction ops with
    | nil => intro s; rfl
    | cons op ops ih => intro s; rw [Sm.run_cons, ih, lim_const]
  rw [this]
  exact hlim

/-- `lim ≥ 1` is needed (and holds: `lim` is GOMAXPROCS): without a worker the
    sender waits forever unless the caller cancels. -/
theorem protocol_deadlock_without_workers_counterexample :
    final (init 0 [7]) = false ∧ ∀ op, honest (init 0 [7]) op = true → (step (init 0 [7]) op).2 = .disabled := by
  refine ⟨by decide, ?_⟩
  intro op hh
  cases op <;> simp [step, init, allReturned, honest] at hh ⊢

/-- Termination: a run in which every operation is a transition that happens
    has at most `6·|matchers| + lim + 6` steps — each matcher result is handed
    off, checked, computed, sent and collected once, each goroutine returns
    once.  (Matchers are assumed to return: `finish` is a transition.) -/
theorem protocol_terminates (lim : Nat) (ms : List Nat) (ops : List Op)
    (h : allOk (init lim ms) ops = true) : ops.length ≤ 6 * ms.length + lim + 6 := by
  have := run_length_bound (init lim ms) ops h
  rw [measure_init] at this
  omega

/-- No lost and no duplicated result: when every goroutine has returned and
    the phase reports no error, the collector has folded exactly one result
    per matcher. -/
theorem protocol_no_lost_results (lim : Nat) (ms : List Nat) (ops : List Op)
    (hf : final (Sm.run step (init lim ms) ops) = true)
    (hok : (Sm.run step (init lim ms) ops).senderErr = false) :
    (Sm.run step (init lim ms) ops).collected.Perm ms :=
  final_ok_collected (reachable_inv lim ms ops) hf hok

/-- A failing matcher makes the phase report an error, whatever happens
    before and after. -/
theorem protocol_failure_is_error (lim : Nat) (ms : List Nat) (ops₁ ops₂ : List Op) (w : Nat)
    (hfin : (step (Sm.run step (init lim ms) ops₁) (.finish w false)).2 = .ok)
    (hf : final (Sm.run step (init lim ms) (ops₁ ++ .finish w false :: ops₂)) = true) :
    (Sm.run step (init lim ms) (ops₁ ++ .finish w false :: ops₂)).senderErr = true := by
  have h := reachable_inv lim ms (ops₁ ++ .finish w false :: ops₂)
  simp only [final, Bool.and_eq_true, beq_iff_eq] at hf
  apply h.doneErr (Or.inr hf.1.1)
  rw [Sm.run_append, Sm.run_cons]
  exact failed_mono_run _ _ (finish_false_fails _ w hfin)

/-- A caller's cancellation that precedes the return of `mg.Wait` makes the
    phase report an error (the line added by the `fix:` commit). -/
theorem protocol_cancel_is_error (s : State) (hc : s.parentCancelled = true)
    (hw : (step s .senderWait).2 = .ok) : (step s .senderWait).1.senderErr = true := by
  simp only [step] at hw ⊢
  split
  · simp [hc]
  · rename_i h1; simp [h1] at hw

/-- Protocol and functional model meet: in a final state without error the
    report the collector built from the results in the order it received them
    is the report of the functional model (`collectOuts` over the matcher
    slice in order): same table, same ids under every package up to order —
    for every interleaving. (`outs i` is the result of matcher `i`.) -/
theorem protocol_report_is_functional (lim n : Nat) (ops : List Op) (outs : Nat → Match.MOut)
    (hf : final (Sm.run step (init lim (List.range n)) ops) = true)
    (hok : (Sm.run step (init lim (List.range n)) ops).senderErr = false)
    (hfun : IdFunctional (((List.range n).map outs).flatMap events)) :
    (∀ id, find id (collectOuts ((Sm.run step (init lim (List.range n)) ops).collected.map outs)).vulns
        = find id (collectOuts ((List.range n).map outs)).vulns) ∧
    (∀ pkg, (getL pkg (collectOuts ((Sm.run step (init lim (List.range n)) ops).collected.map outs)).pkgVulns).Perm
        (getL pkg (collectOuts ((List.range n).map outs)).pkgVulns)) := by
  have hp := (protocol_no_lost_results lim (List.range n) ops hf hok).symm.map outs
  have h := arrival_order_irrelevant _ _ hp hfun
  exact ⟨fun id => (h.1 id).symm, fun pkg => (h.2 pkg).symm⟩

end Protocol

/-! ## The channel protocol of the enrichment phase (the atomic close counter)

  Model/EnrichProto.lean: sender, `lim` workers, collector, `eCh`, `rCh` and
  the counter `ct` whose last decrement closes `rCh`.  Tied to match.go by
  controlled-schedule runs through the hook points `en.*`. -/

section Enrichment
open ClairModel.EnrichProto

/-- `rCh` is closed exactly once and never sent on afterwards; `eCh` is closed
    once: no reachable state has panicked, no transition out of a reachable
    state panics. -/
theorem enrich_no_send_on_closed (lim : Nat) (es : List Nat) (ops : List Op) :
    (Sm.run step (init lim es) ops).panicked = false ∧
      ∀ op, (step (Sm.run step (init lim es) ops) op).2 ≠ .panic :=
  ⟨(reachable_inv lim es ops).noPanic, fun op => step_never_panics (reachable_inv lim es ops) op⟩

/-- The atomic counter always equals the number of workers that have not
    returned, and `rCh` is closed exactly when that number is zero (for
    `lim ≥ 1`): the counter reaches zero once, after every worker's last send. -/
theorem enrich_counter_closes_once (lim : Nat) (hlim : 0 < lim) (es : List Nat) (ops : List Op) :
    let s := Sm.run step (init lim es) ops
    s.ct = notRet s.workers ∧ (s.rCloses = if notRet s.workers = 0 then 1 else 0) := by
  intro s
  have h := reachable_inv lim es ops
  have hl : s.lim = lim := by
    have : ∀ (ops : List Op) (s : State), (Sm.run step s ops).lim = s.lim := by
      intro ops
      induction ops with
      | nil => intro s; rfl
      | cons op ops ih => intro s; rw [Sm.run_cons, ih, lim_const]
    exact this ops _
  refine ⟨h.ctEq, ?_⟩
  by_cases hz : notRet s.workers = 0
  · simp only [hz, if_true]; exact h.rClosed hz (by rw [hl]; exact hlim)
  · simp only [hz, if_false]; exact h.rOpen hz

/-- Deadlock freedom of the enrichment phase. -/
theorem enrich_deadlock_free (lim : Nat) (hlim : 0 < lim) (es : List Nat) (ops : List Op)
    (hnf : final (Sm.run step (init lim es) ops) = false) :
    ∃ op, internal op = true ∧ (step (Sm.run step (init lim es) ops) op).2 = .ok := by
  have h := reachable_inv lim es ops
  apply exists_enabled h _ hnf
  have : ∀ (ops : List Op) (s : State), (Sm.run step s ops).lim = s.lim := by
    intro ops
    induction ops with
    | nil => intro s; rfl
    | cons op ops ih => intro s; rw [Sm.run_cons, ih, lim_const]
  rw [this]
  exact hlim

/-- Termination bound of the enrichment phase (enrichers are assumed to return). -/
theorem enrich_terminates (lim : Nat) (es : List Nat) (ops : List Op)
    (h : allOk (init lim es) ops = true) : ops.length ≤ 5 * es.length + lim + 4 := by
  have := run_length_bound (init lim es) ops h
  rw [measure_init] at this
  omega

/-- Without cancellation the phase ends without error and every enricher's
    entry is either collected exactly once or was skipped because the enricher
    failed or had nothing to report: nothing is lost in the fan-in, for every
    interleaving. -/
theorem enrich_nothing_lost (lim : Nat) (es : List Nat) (ops : List Op)
    (hf : final (Sm.run step (init lim es) ops) = true)
    (hc : (Sm.run step (init lim es) ops).cancelled = false) :
    (Sm.run step (init lim es) ops).workerErr = false ∧
      ((Sm.run step (init lim es) ops).collected ++ (Sm.run step (init lim es) ops).skipped).Perm es :=
  final_uncancelled (reachable_inv lim es ops) hf hc

end Enrichment

/-! ## The goroutine structure of Match (the older entry point)

  Model/MatchFan.lean: a fan-out goroutine that starts one goroutine per
  matcher and waits on a `sync.WaitGroup`, the matcher goroutines, the caller's
  collecting loop over `ctrlC` (capacity `lim`).  The theorems hold for every
  `lim ≥ 1`, any number of matchers, every interleaving and every pattern of
  matcher failures.  Tied to match.go by controlled-schedule runs through the
  hook points `mt.*`. -/

section Fan
open ClairModel.MatchFan

/-- `ctrlC` is never sent on after its close and never closed twice. -/
theorem fan_no_send_on_closed (lim n : Nat) (ops : List Op) :
    (Sm.run step (init lim n) ops).panicked = false ∧
      ∀ op, (step (Sm.run step (init lim n) ops) op).2 ≠ .panic :=
  never_panics lim n ops

/-- `ctrlC` is closed exactly once, exactly when the fan-out goroutine has
    returned (which every final state has). -/
theorem fan_close_once (lim n : Nat) (ops : List Op) :
    ((Sm.run step (init lim n) ops).closes = if (Sm.run step (init lim n) ops).fan = .done then 1 else 0) ∧
      (final (Sm.run step (init lim n) ops) = true → (Sm.run step (init lim n) ops).closes = 1) := by
  refine ⟨close_once lim n ops, fun hf => ?_⟩
  rw [close_once]
  simp only [final, Bool.and_eq_true, beq_iff_eq] at hf
  simp [hf.1.1]

/-- The WaitGroup counter is the number of matcher goroutines that have not
    returned (started or not): `wg.Wait` returns only after the last send. -/
theorem fan_waitgroup_counts (lim n : Nat) (ops : List Op) :
    (Sm.run step (init lim n) ops).wg = ((Sm.run step (init lim n) ops).gs.filter fun g => !gDone g).length :=
  wg_counts lim n ops

/-- Deadlock freedom of `Match`: while some goroutine has not returned, some
    transition can happen. -/
theorem fan_deadlock_free (lim n : Nat) (hlim : 0 < lim) (ops : List Op)
    (hnf : final (Sm.run step (init lim n) ops) = false) :
    ∃ op, (step (Sm.run step (init lim n) ops) op).2 = .ok :=
  deadlock_free lim n hlim ops hnf

/-- Termination bound (controllers are assumed to return: `finish` is a
    transition): at most `4·|matchers| + 3` transitions. -/
theorem fan_terminates (lim n : Nat) (ops : List Op) (h : allOk (init lim n) ops = true) :
    ops.length ≤ 4 * n + 3 :=
  run_length_bound lim n ops h

/-- Nothing lost, nothing duplicated: when `Match` returns, every matcher's
    result has been folded into the report exactly once or its error has been
    recorded exactly once. -/
theorem fan_nothing_lost (lim n : Nat) (ops : List Op)
    (hf : final (Sm.run step (init lim n) ops) = true) :
    ((Sm.run step (init lim n) ops).collected ++ (Sm.run step (init lim n) ops).errs).Perm (List.range n) :=
  final_partition lim n ops hf

/-- At every moment the recorded errors are exactly the goroutines that
    returned with an error, and the results buffered or collected are exactly
    the goroutines that completed their send. -/
theorem fan_errors_are_failures (lim n : Nat) (ops : List Op) :
    (Sm.run step (init lim n) ops).errs.Perm (indicesOf .doneErr (Sm.run step (init lim n) ops).gs) ∧
    ((Sm.run step (init lim n) ops).buf ++ (Sm.run step (init lim n) ops).collected).Perm
      (indicesOf .doneOk (Sm.run step (init lim n) ops).gs) :=
  ⟨errs_exact lim n ops, sent_exact lim n ops⟩

/-- Protocol and functional model meet: when `Match` returns after a run in
    which exactly the controllers that fail recorded an error, the report built
    from the results in the order they were received is `matchAll`'s report
    (same table, same ids under every package up to order) and the number of
    joined errors is `matchAll`'s — for every interleaving. -/
theorem fan_report_is_functional (lim : Nat) (ops : List Op) (c : Bool) (store : Store) (ms : List Matcher)
    (recs : List Record)
    (hf : final (Sm.run step (init lim ms.length) ops) = true)
    (hagree : ∀ i, i < ms.length →
      (i ∈ (Sm.run step (init lim ms.length) ops).errs ↔ outAt c store ms recs i = none))
    (hfun : IdFunctional (((runAll c store ms recs).filterMap id).flatMap events)) :
    (∀ id, find id (collectOuts ((Sm.run step (init lim ms.length) ops).collected.filterMap (outAt c store ms recs))).vulns
        = find id (matchAll c store ms recs).1.vulns) ∧
    (∀ pkg, (getL pkg (collectOuts ((Sm.run step (init lim ms.length) ops).collected.filterMap (outAt c store ms recs))).pkgVulns).Perm
        (getL pkg (matchAll c store ms recs).1.pkgVulns)) ∧
    (Sm.run step (init lim ms.length) ops).errs.length = (matchAll c store ms recs).2 := by
  obtain ⟨hp, hl⟩ := partition_link (outAt c store ms recs) (fan_nothing_lost lim ms.length ops hf) hagree
  rw [matchAll_as_range]
  have hfun' : IdFunctional (((List.range ms.length).filterMap (outAt c store ms recs)).flatMap events) := by
    have : (runAll c store ms recs).filterMap id = (List.range ms.length).filterMap (outAt c store ms recs) := by
      rw [runAll_as_range, List.filterMap_map]; rfl
    rw [← this]; exact hfun
  have h := arrival_order_irrelevant _ _ hp.symm hfun'
  exact ⟨fun id => (h.1 id).symm, fun pkg => (h.2 pkg).symm, hl⟩

end Fan

/-! ## Which matchers a scan runs (libvuln.New, matchers.NewMatchers)

  Model/MatchSetup.lean.  Tied to libvuln/libvuln.go, matchers/*.go by the
  `new` / `scan new` protocol lines: the harness registers scripted factories
  in the real registry and calls the real `libvuln.New`. -/

section Setup
open ClairModel.MatchSetup

/-- The constructed matcher set is exactly: the out-of-tree matchers, plus
    what every registered factory that `MatcherNames` enables builds (a nil
    `MatcherNames` enables all; a name that is not registered enables nothing). -/
theorem constructed_matchers_exact (reg : List (Factory Matcher)) (en : Option (List String)) (cfgs : List String)
    (oot ms : List Matcher) (h : newMatchers reg en cfgs oot = some ms) (m : Matcher) :
    m ∈ ms ↔ m ∈ oot ∨ ∃ f ∈ reg, enabledBy en f.name = true ∧
      ∃ l, f.build (configured cfgs f) = some l ∧ m ∈ l :=
  mem_newMatchers h m

/-- Construction fails exactly when an enabled, configurable factory that has
    a configuration block rejects it. -/
theorem construction_fails_iff (reg : List (Factory Matcher)) (en : Option (List String)) (cfgs : List String)
    (oot : List Matcher) :
    newMatchers reg en cfgs oot = none ↔
      ∃ f ∈ reg, enabledBy en f.name = true ∧ f.configurable = true ∧ cfgs.contains f.name = true ∧
        f.configureOk = false :=
  newMatchers_none_iff reg en cfgs oot

/-- An empty, non-nil `MatcherNames` runs the out-of-tree matchers only. -/
theorem no_names_only_out_of_tree (reg : List (Factory Matcher)) (cfgs : List String) (oot : List Matcher) :
    newMatchers reg (some []) cfgs oot = some oot :=
  newMatchers_enabled_nil reg cfgs oot

/-- A factory whose `Matcher(ctx)` fails is left out and construction still
    succeeds (logged by the code: "failed constructing factory, excluding from
    run"); the scan then runs without its matchers. -/
theorem unbuildable_factory_is_left_out (f : Factory Matcher) (hb : ∀ b, f.build b = none)
    (hc : f.configurable = false) (oot : List Matcher) :
    newMatchers [f] none [] oot = some oot := by
  simp [newMatchers, withEnabled, enabledBy, configureFails, configured, hc, contribution, hb]

/-- `libvuln.New` fails exactly on a missing store, a missing client, an
    update retention of 1 or below 0, or a failing matcher construction. -/
theorem new_validates_options (reg : List (Factory Matcher)) (o : Options Matcher) :
    libvulnNew reg o = none ↔
      (o.hasStore = false ∨ o.hasClient = false ∨ o.updateRetention = 1 ∨ o.updateRetention < 0 ∨
        newMatchers reg o.matcherNames o.matcherConfigs o.matchers = none) :=
  libvulnNew_none_iff reg o

/-- The report of `Scan` on a `Libvuln` made by `New` is the union over
    exactly the constructed set: an id is listed under a package iff a matcher
    that is out-of-tree or built by an enabled factory returned it there. -/
theorem scan_is_union_over_constructed (reg : List (Factory Matcher)) (o : Options Matcher) (es : List Enricher)
    (c : Bool) (store : Store) (recs : List Record) (r : Report) (em : List (Nat × List Nat))
    (h : newAndScan reg o es c store recs = some (some (r, em))) (pkg id : Nat) :
    id ∈ getL pkg r.pkgVulns ↔
      ∃ m, (m ∈ o.matchers ∨ ∃ f ∈ reg, enabledBy o.matcherNames f.name = true ∧
              ∃ l, f.build (configured o.matcherConfigs f) = some l ∧ m ∈ l) ∧
        ∃ out, controllerMatch false store m recs = some out ∧ ∃ v, (pkg, v) ∈ events out ∧ v.id = id := by
  unfold newAndScan at h
  cases hn : libvulnNew reg o with
  | none => simp [hn] at h
  | some ms =>
    simp only [hn, Option.map_some, Option.some.injEq] at h
    have hmem := mem_newMatchers (libvulnNew_some hn).2.2.2
    rw [report_is_union c store ms es recs r em h]
    constructor
    · rintro ⟨m, hm, rest⟩; exact ⟨m, (hmem m).1 hm, rest⟩
    · rintro ⟨m, hm, rest⟩; exact ⟨m, (hmem m).2 hm, rest⟩

/-- The iteration order of the registry map (and hence the order of the
    matcher slice) does not change the outcome: same success of `New` and of
    the scan, same table, same ids under every package up to order. -/
theorem registry_order_irrelevant (reg reg' : List (Factory Matcher)) (hp : reg.Perm reg') (o : Options Matcher)
    (es : List Enricher) (c : Bool) (store : Store) (recs : List Record)
    (hfun : ∀ ms, libvulnNew reg o = some ms →
      IdFunctional (((runAll false store ms recs).filterMap id).flatMap events)) :
    ((newAndScan reg o es c store recs).isSome = (newAndScan reg' o es c store recs).isSome) ∧
    ∀ x y, newAndScan reg o es c store recs = some x → newAndScan reg' o es c store recs = some y →
      x.isSome = y.isSome ∧
      ∀ r em r' em', x = some (r, em) → y = some (r', em') →
        (∀ id, find id r.vulns = find id r'.vulns) ∧ (∀ pkg, (getL pkg r.pkgVulns).Perm (getL pkg r'.pkgVulns)) := by
  have hnew : ∀ reg₀ : List (Factory Matcher), libvulnNew reg₀ o =
      if !o.hasStore then none
      else if o.updateRetention == 1 || o.updateRetention < 0 then none
      else if !o.hasClient then none
      else newMatchers reg₀ o.matcherNames o.matcherConfigs o.matchers := fun _ => rfl
  obtain ⟨hs, hperm⟩ := newMatchers_perm hp o.matcherNames o.matcherConfigs o.matchers
  have hsome : (libvulnNew reg o).isSome = (libvulnNew reg' o).isSome := by
    rw [hnew reg, hnew reg']
    split
    · rfl
    · split
      · rfl
      · split
        · rfl
        · exact hs
  have hp2 : ∀ a b, libvulnNew reg o = some a → libvulnNew reg' o = some b → a.Perm b := fun a b ha hb =>
    hperm a b (libvulnNew_some ha).2.2.2 (libvulnNew_some hb).2.2.2
  constructor
  · simp only [newAndScan, Option.isSome_map]; exact hsome
  · intro x y hx hy
    unfold newAndScan at hx hy
    cases ha : libvulnNew reg o with
    | none => simp [ha] at hx
    | some a =>
      cases hb : libvulnNew reg' o with
      | none => simp [hb] at hy
      | some b =>
        simp only [ha, hb, Option.map_some, Option.some.injEq] at hx hy
        subst hx; subst hy
        have := enrichedMatch_perm (c := c) es (hp2 a b ha hb) (hfun a ha)
        refine ⟨this.1, ?_⟩
        intro r em r' em' h1 h2
        exact this.2 r em r' em' h1 h2

end Setup

/-! ## The stub store's contract (datastore.Vulnerability.Get)

  Model/MatchStore.lean: the store of the harness, the same function the model
  driver answers with.  Stated and proved here instead of living in the driver. -/

section StubStore
open ClairModel.MatchStore

/-- Per package every vulnerability id is answered at most once, and the
    answer is a map (distinct keys). -/
theorem store_answers_once_per_package (rows : List Row) (q : List Nat) (db : Bool) (recs : List Record) :
    (∀ pkg, ((getL pkg (answer rows q db recs)).map (·.id)).Nodup) ∧
      ((answer rows q db recs).map (·.1)).Nodup :=
  ⟨answer_nodup rows q db recs, answer_keys_nodup rows q db recs⟩

/-- Exactness for a table with functional ids: a vulnerability is answered
    under a package iff it is a row that matches (name, constraints, version
    filter) some queried record of that package. -/
theorem store_answer_exact (rows : List Row) (hfun : RowsFunctional rows) (q : List Nat) (db : Bool)
    (recs : List Record) (pkg : Nat) (v : Vuln) :
    v ∈ getL pkg (answer rows q db recs) ↔
      ∃ r ∈ recs, r.pkg = pkg ∧ ∃ row ∈ rows, rowMatches q db r row = true ∧ row.vuln = v := by
  constructor
  · exact answer_sound rows q db recs pkg v
  · rintro ⟨r, hr, rfl, row, hrow, hm, rfl⟩
    exact answer_complete rows hfun q db recs r hr row hrow hm

/-- Without that hypothesis nothing is invented and no id is lost. -/
theorem store_answer_sound_and_complete_ids (rows : List Row) (q : List Nat) (db : Bool) (recs : List Record) :
    (∀ pkg v, v ∈ getL pkg (answer rows q db recs) →
      ∃ r ∈ recs, r.pkg = pkg ∧ ∃ row ∈ rows, rowMatches q db r row = true ∧ row.vuln = v) ∧
    (∀ r ∈ recs, ∀ row ∈ rows, rowMatches q db r row = true →
      ∃ v ∈ getL r.pkg (answer rows q db recs), v.id = row.vuln.id) :=
  ⟨answer_sound rows q db recs, fun r hr row hrow hm => answer_complete_id rows q db recs r hr row hrow hm⟩

/-- The keys of the answer are the package ids of the queried records. -/
theorem store_keys_are_queried_packages (rows : List Row) (q : List Nat) (db : Bool) (recs : List Record) (pkg : Nat) :
    (find pkg (answer rows q db recs)).isSome = true ↔ ∃ r ∈ recs, r.pkg = pkg :=
  answer_key_iff rows q db recs pkg

/-- `Get` fails exactly on the scripted failure marker, or on the
    honour-the-Context marker when the Context is done. -/
theorem store_fails_iff (rows : List Row) (c : Bool) (q : List Nat) (db : Bool) (recs : List Record) :
    storeGet rows c q db recs = none ↔
      (q.contains cGetFails = true ∨ (c = true ∧ q.contains cRespectCtx = true)) :=
  storeGet_none_iff rows c q db recs

/-- An authoritative matcher over this store lists every id at most once
    under a package. -/
theorem authoritative_lists_once (rows : List Row) (c : Bool) (m : Matcher) (recs : List Record) (out : MOut)
    (hk : m.kind = .versionFilter true) (h : controllerMatch c (storeGet rows) m recs = some out) (pkg : Nat) :
    ((getL pkg out).map (·.id)).Nodup := by
  unfold controllerMatch at h
  by_cases he : (interested m recs).isEmpty = true
  · simp only [he, if_true, Option.some.injEq] at h
    subst h
    simp [getL, find]
  · simp only [he, hk, dbFilter] at h
    cases hs : storeGet rows c m.query true (interested m recs) with
    | none => simp [hs] at h
    | some vulns =>
      simp only [hs, Bool.false_eq_true, if_false, if_true, Option.some.injEq] at h
      subst h
      rw [storeGet_some rows c m.query true (interested m recs) vulns hs]
      exact answer_nodup rows m.query true (interested m recs) pkg

/-- With this store over a table with functional ids and no remote matcher,
    the "functional ids" hypothesis of `collect_perm` /
    `arrival_order_irrelevant` holds: the report does not depend on the order
    of the matcher slice nor on the arrival order of the results. -/
theorem stub_store_schedule_independent (rows : List Row) (hfun : RowsFunctional rows) (c : Bool)
    (ms ms' : List Matcher) (es : List Enricher) (recs : List Record) (hp : ms.Perm ms')
    (hloc : ∀ m ∈ ms, m.kind ≠ .remote) :
    ((enrichedMatch c (storeGet rows) ms es recs).isSome = (enrichedMatch c (storeGet rows) ms' es recs).isSome) ∧
      ∀ r em r' em', enrichedMatch c (storeGet rows) ms es recs = some (r, em) →
        enrichedMatch c (storeGet rows) ms' es recs = some (r', em') →
        (∀ id, find id r.vulns = find id r'.vulns) ∧
        (∀ pkg, (getL pkg r.pkgVulns).Perm (getL pkg r'.pkgVulns)) :=
  MatchSetup.enrichedMatch_perm es hp (stub_events_functional rows hfun false ms recs hloc)

end StubStore

/-! ## Well-formedness of the vulnerability report (vulnerabilityreport.go) -/

/-- The invariant of the collector loop: each execution of its body
    (`Vulnerabilities[v.ID] = v`, `PackageVulnerabilities[pkg] = append(…, v.ID)`)
    keeps the report well formed — both tables are maps, a table key is the
    vulnerability's id, every listed id resolves, every table entry is listed,
    no package key has an empty list. -/
theorem collector_keeps_report_well_formed (r : Report) (e : Nat × Vuln) (h : WellFormed r) :
    WellFormed (collectStep r e) :=
  wellFormed_step r e h

/-- Every report `EnrichedMatch` / `Scan` returns is well formed, and its
    enrichment map is a map keyed by the kind of an enricher that answered,
    without empty message lists, holding a key for every enricher that
    reported something. -/
theorem report_well_formed (c : Bool) (store : Store) (ms : List Matcher) (es : List Enricher)
    (recs : List Record) (r : Report) (em : List (Nat × List Nat))
    (h : enrichedMatch c store ms es recs = some (r, em)) :
    WellFormed r ∧ EnrichWF (enrichEntries es r) em ∧ ∀ kv ∈ em, ∃ e ∈ es, e.kind = kv.1 := by
  obtain ⟨_, _, _, hr, hem⟩ := enrichedMatch_some h
  subst hr; subst hem
  have hwf := enrichWF_collect _
    (enrichEntries_nonempty es (collectOuts ((runAll false store ms recs).filterMap id)))
  refine ⟨wellFormed_collectOuts _, hwf, ?_⟩
  intro kv hkv
  obtain ⟨e, he, hk⟩ := hwf.keyIsKind kv hkv
  obtain ⟨en, hen, hkind⟩ := enrichEntries_kind es _ e he
  exact ⟨en, hen, hkind.trans hk⟩

/-- The report `Match` returns is well formed even when it is partial
    (returned together with joined errors). -/
theorem match_report_well_formed (c : Bool) (store : Store) (ms : List Matcher) (recs : List Record) :
    WellFormed (matchAll c store ms recs).1 :=
  wellFormed_collectOuts _

end ClairModel.Props.C05
