/-
  C03 — A matcher reports a package exactly when its version is below the fix.
  Property theorems only; helper lemmas live in Proofs/VerRpm.lean,
  Proofs/Matchers.lean.  The models (Model/VerRpm.lean, Model/Matchers.lean) are
  tied to the pinned go-rpm-version and to <ecosystem>/matcher.go, archop.go by
  the correspondence run of `./check C03`.  The scan-level part (Model/MatchScan.lean,
  Proofs/MatchScan.lean) is at the end of the file.
-/
import ClairModel.Proofs.Matchers
import ClairModel.Proofs.MatchersLang
import ClairModel.Proofs.MatchScan
import ClairModel.Gen.Matchers

-- every variable of a property statement is bound explicitly: a misspelt name is an error, not a new variable
set_option autoImplicit false

namespace ClairModel.Props.C03
open ClairModel ClairModel.Order ClairModel.OrderC03 ClairModel.VerCommon ClairModel.Matchers

/-! ### The comparators are total preorders -/

/-- go-rpm-version: `NewVersion(a).Compare(NewVersion(b))` is reflexive,
    antisymmetric (`Compare(b,a)` mirrors `Compare(a,b)`) and transitive on
    **all** strings. -/
theorem rpm_cmp_totalPre : TotalPre VerRpm.cmpStr := VerRpm.cmpStr_totalPre

/-- The pinned library has no caret (`^`, rpm ≥ 4.15): it is a separator, so
    `1.0^20230101-1` is compared as `1.0.20230101-1` and sorts **above**
    `1.0.5-1`, where rpm sorts it below (finding rpm-caret). -/
theorem rpm_no_caret_counterexample :
    VerRpm.cmpStr "1.0^20230101-1".toList "1.0.5-1".toList = .gt ∧
    VerRpm.cmpStr "1.0^1-1".toList "1.0.1-1".toList = .eq := by
  decide

/-! ### ArchOp.Cmp -/

/-- An advisory that names no architecture matches every package. -/
theorem archop_empty_vuln_arch (op : Nat) (a : Str) (re : Option Bool) : archCmp op a [] re = true := by
  simp [archCmp]

/-- A package without architecture matches no advisory that names one. -/
theorem archop_empty_pkg_arch (op : Nat) (b : Str) (re : Option Bool) (hb : b ≠ []) :
    archCmp op [] b re = false := by
  simp [archCmp, hb]

/-- `OpEquals` / `OpNotEquals` / `OpPatternMatch` on two non-empty
    architectures: equality, inequality, and the regexp verdict (`matches`
    standing for `regexp.Compile(b)` + `MatchString(a)`; a pattern that does
    not compile matches nothing); every other operation value matches nothing. -/
theorem archop_cmp_spec (op : Nat) (a b : Str) (re : Option Bool) (ha : a ≠ []) (hb : b ≠ []) :
    archCmp op a b re =
      (if op = 1 then decide (a = b)
       else if op = 2 then decide (a ≠ b)
       else if op = 3 then re.getD false
       else false) := by
  unfold archCmp
  simp only [ha, hb, if_false]
  match op with
  | 0 => simp
  | 1 => simp
  | 2 => simp
  | 3 => cases re <;> simp
  | n + 4 => simp

/-- The patterns the feeds write are plain alternations of literals
    (`aarch64|ppc64le|s390x|x86_64`).  For these the model does not take
    `regexp`'s verdict as an input but computes it: `MatchString` is an
    unanchored search, so the package architecture matches iff one of the
    alternatives occurs in it as a substring — `ppc64le` does, `ppc64` does not. -/
theorem archop_literal_alternation (a b : Str) (re : Option Bool) (ha : a ≠ []) (hb : b ≠ [])
    (hl : isLiteralAlt b = true) :
    archCmp 3 a b (reVerdict b a re) = true ↔
      ∃ alt ∈ altMatch.splitOnBar b, ∃ pre suf, a = pre ++ alt ++ suf := by
  simp only [archCmp, ha, hb, if_false, reVerdict, hl, if_true, altMatch, List.any_eq_true, isInfix_iff]

/-- A package architecture that is only a fragment of an alternative does not
    match (and a pattern that is a fragment of the architecture does). -/
theorem archop_literal_alternation_examples :
    archCmp 3 "ppc64".toList "x86_64|ppc64le".toList (reVerdict "x86_64|ppc64le".toList "ppc64".toList none) = false ∧
    archCmp 3 "s390".toList "aarch64|ppc64le|s390x|x86_64".toList
      (reVerdict "aarch64|ppc64le|s390x|x86_64".toList "s390".toList none) = false ∧
    archCmp 3 "ppc64le".toList "x86_64|ppc64le".toList (reVerdict "x86_64|ppc64le".toList "ppc64le".toList none) = true ∧
    archCmp 3 "x86_64".toList "x86".toList (reVerdict "x86".toList "x86_64".toList none) = true := by
  decide

/-! ### The go-rpm-version matchers: aws, oracle, suse, photon, rhel, rhcc -/

/-- aws: with a fix `F`, reported iff the package version is strictly below `F`
    and the architecture test passes. -/
theorem vulnerable_iff_lt_aws (p : Pkg) (v : Vuln) (hF : v.fixed ≠ []) :
    vulnerableAws p v = .ok (decide (VerRpm.cmpStr p.version v.fixed = .lt) && v.archOK p) := by
  simp [vulnerableAws, rpmBelow_fix hF]

/-- aws: an advisory without fix is "unfixed": bounded only by `65535:0`. -/
theorem no_fix_aws (p : Pkg) (v : Vuln) (hF : v.fixed = []) :
    vulnerableAws p v = .ok (decide (VerRpm.cmpStr p.version unfixedBound ≠ .gt) && v.archOK p) := by
  simp [vulnerableAws, hF, rpmBelow_nofix]

/-- aws: if a version is reported, so is every version not above it (same architecture). -/
theorem monotone_aws (p p' : Pkg) (v : Vuln) (h : vulnerableAws p v = .ok true)
    (hle : VerRpm.cmpStr p'.version p.version ≠ .gt) (ha : p'.arch = p.arch) :
    vulnerableAws p' v = .ok true := by
  simp only [vulnerableAws, Out.ok.injEq, Bool.and_eq_true] at h ⊢
  exact ⟨rpmBelow_mono h.1 hle, by rw [archOK_congr v ha]; exact h.2⟩

/-- aws: nothing is reported against the architecture constraint. -/
theorem arch_respected_aws (p : Pkg) (v : Vuln) (h : vulnerableAws p v = .ok true) : v.archOK p = true := by
  simp only [vulnerableAws, Out.ok.injEq, Bool.and_eq_true] at h
  exact h.2

/-- oracle: with a fix `F`, reported iff strictly below `F` and the architecture test passes. -/
theorem vulnerable_iff_lt_oracle (p : Pkg) (v : Vuln) (hF : v.fixed ≠ []) :
    vulnerableOracle p v = .ok (decide (VerRpm.cmpStr p.version v.fixed = .lt) && v.archOK p) := by
  simp [vulnerableOracle, rpmBelow_fix hF]

/-- oracle: without a fix the advisory's own package version is the last
    affected one: reported iff not above it (closed bound). -/
theorem no_fix_oracle (p : Pkg) (v : Vuln) (hF : v.fixed = []) :
    vulnerableOracle p v = .ok (decide (VerRpm.cmpStr p.version v.pkgVersion ≠ .gt) && v.archOK p) := by
  simp [vulnerableOracle, hF, rpmBelow_nofix]

theorem monotone_oracle (p p' : Pkg) (v : Vuln) (h : vulnerableOracle p v = .ok true)
    (hle : VerRpm.cmpStr p'.version p.version ≠ .gt) (ha : p'.arch = p.arch) :
    vulnerableOracle p' v = .ok true := by
  simp only [vulnerableOracle, Out.ok.injEq, Bool.and_eq_true] at h ⊢
  exact ⟨rpmBelow_mono h.1 hle, by rw [archOK_congr v ha]; exact h.2⟩

theorem arch_respected_oracle (p : Pkg) (v : Vuln) (h : vulnerableOracle p v = .ok true) : v.archOK p = true := by
  simp only [vulnerableOracle, Out.ok.injEq, Bool.and_eq_true] at h
  exact h.2

/-- suse: same decision as oracle. -/
theorem vulnerable_iff_lt_suse (p : Pkg) (v : Vuln) (hF : v.fixed ≠ []) :
    vulnerableSuse p v = .ok (decide (VerRpm.cmpStr p.version v.fixed = .lt) && v.archOK p) := by
  simp [vulnerableSuse, rpmBelow_fix hF]

theorem no_fix_suse (p : Pkg) (v : Vuln) (hF : v.fixed = []) :
    vulnerableSuse p v = .ok (decide (VerRpm.cmpStr p.version v.pkgVersion ≠ .gt) && v.archOK p) := by
  simp [vulnerableSuse, hF, rpmBelow_nofix]

theorem monotone_suse (p p' : Pkg) (v : Vuln) (h : vulnerableSuse p v = .ok true)
    (hle : VerRpm.cmpStr p'.version p.version ≠ .gt) (ha : p'.arch = p.arch) :
    vulnerableSuse p' v = .ok true := by
  simp only [vulnerableSuse, Out.ok.injEq, Bool.and_eq_true] at h ⊢
  exact ⟨rpmBelow_mono h.1 hle, by rw [archOK_congr v ha]; exact h.2⟩

theorem arch_respected_suse (p : Pkg) (v : Vuln) (h : vulnerableSuse p v = .ok true) : v.archOK p = true := by
  simp only [vulnerableSuse, Out.ok.injEq, Bool.and_eq_true] at h
  exact h.2

/-- photon: with a fix, reported iff strictly below it (photon advisories carry no architecture). -/
theorem vulnerable_iff_lt_photon (p : Pkg) (v : Vuln) (hF : v.fixed ≠ []) :
    vulnerablePhoton p v = .ok (decide (VerRpm.cmpStr p.version v.fixed = .lt)) := by
  simp [vulnerablePhoton, rpmBelow_fix hF]

theorem no_fix_photon (p : Pkg) (v : Vuln) (hF : v.fixed = []) :
    vulnerablePhoton p v = .ok (decide (VerRpm.cmpStr p.version v.pkgVersion ≠ .gt)) := by
  simp [vulnerablePhoton, hF, rpmBelow_nofix]

theorem monotone_photon (p p' : Pkg) (v : Vuln) (h : vulnerablePhoton p v = .ok true)
    (hle : VerRpm.cmpStr p'.version p.version ≠ .gt) : vulnerablePhoton p' v = .ok true := by
  simp only [vulnerablePhoton, Out.ok.injEq] at h ⊢
  exact rpmBelow_mono h hle

/-- rhel: once the repository/CPE gate passes, the decision is the aws one. -/
theorem vulnerable_iff_lt_rhel (g : RhelGate) (p : Pkg) (v : Vuln) (hF : v.fixed ≠ []) :
    vulnerableRhel g p v =
      .ok (g.pass && (decide (VerRpm.cmpStr p.version v.fixed = .lt) && v.archOK p)) := by
  unfold vulnerableRhel RhelGate.pass
  cases g.vulnRepoNil <;> cases g.recRepoNil <;> cases g.keyOK <;> cases g.unbindOK <;>
    cases g.superset <;> cases g.substring <;> simp [rpmBelow_fix hF]

theorem no_fix_rhel (g : RhelGate) (p : Pkg) (v : Vuln) (hF : v.fixed = []) :
    vulnerableRhel g p v =
      .ok (g.pass && (decide (VerRpm.cmpStr p.version unfixedBound ≠ .gt) && v.archOK p)) := by
  unfold vulnerableRhel RhelGate.pass
  cases g.vulnRepoNil <;> cases g.recRepoNil <;> cases g.keyOK <;> cases g.unbindOK <;>
    cases g.superset <;> cases g.substring <;> simp [hF, rpmBelow_nofix]

/-- rhel: an advisory for another repository / a CPE that does not cover the
    record's is never reported. -/
theorem gate_respected_rhel (g : RhelGate) (p : Pkg) (v : Vuln) (h : vulnerableRhel g p v = .ok true) :
    g.pass = true := by
  unfold vulnerableRhel at h
  unfold RhelGate.pass
  cases h1 : g.vulnRepoNil <;> cases h2 : g.recRepoNil <;> cases h3 : g.keyOK <;> cases h4 : g.unbindOK <;>
    cases h5 : g.superset <;> cases h6 : g.substring <;> simp_all

theorem monotone_rhel (g : RhelGate) (p p' : Pkg) (v : Vuln) (h : vulnerableRhel g p v = .ok true)
    (hle : VerRpm.cmpStr p'.version p.version ≠ .gt) (ha : p'.arch = p.arch) :
    vulnerableRhel g p' v = .ok true := by
  rw [vulnerableRhel_eq] at h ⊢
  simp only [Out.ok.injEq, Bool.and_eq_true] at h ⊢
  exact ⟨h.1, rpmBelow_mono h.2.1 hle, by rw [archOK_congr v ha]; exact h.2.2⟩

theorem arch_respected_rhel (g : RhelGate) (p : Pkg) (v : Vuln) (h : vulnerableRhel g p v = .ok true) :
    v.archOK p = true := by
  rw [vulnerableRhel_eq] at h
  simp only [Out.ok.injEq, Bool.and_eq_true] at h
  exact h.2.2

/-- rhcc: reported iff strictly below `FixedInVersion` (no sentinel, no architecture). -/
theorem vulnerable_iff_lt_rhcc (p : Pkg) (v : Vuln) :
    vulnerableRhcc p v = .ok (decide (VerRpm.cmpStr p.version v.fixed = .lt)) := rfl

theorem monotone_rhcc (p p' : Pkg) (v : Vuln) (h : vulnerableRhcc p v = .ok true)
    (hle : VerRpm.cmpStr p'.version p.version ≠ .gt) : vulnerableRhcc p' v = .ok true := by
  simp only [vulnerableRhcc, Out.ok.injEq, decide_eq_true_eq] at h ⊢
  exact lt_down VerRpm.cmpStr_totalPre h hle

/-- A package at the fix itself is never reported, whatever the spelling
    (boundary is open): for every go-rpm-version matcher. -/
theorem at_fix_not_reported_rpm (p : Pkg) (v : Vuln) (hF : v.fixed ≠ [])
    (heq : VerRpm.cmpStr p.version v.fixed = .eq) :
    vulnerableAws p v = .ok false ∧ vulnerableOracle p v = .ok false ∧ vulnerableSuse p v = .ok false ∧
    vulnerablePhoton p v = .ok false ∧ vulnerableRhcc p v = .ok false := by
  simp [vulnerableAws, vulnerableOracle, vulnerableSuse, vulnerablePhoton, vulnerableRhcc, rpmBelow_fix hF, heq]

/-! ### go-deb-version -/

/-- dpkg's order on parsed versions (epoch, then upstream version, then
    revision, each as padded sequence of (non-digit string, number) pairs) is a
    total preorder. -/
theorem deb_cmp_totalPre : TotalPre VerDeb.debOrd := VerDeb.debOrd_totalPre

/-- Whenever go-deb-version's `Compare` returns, it returns dpkg's order. -/
theorem deb_compare_sound (v1 v2 : VerDeb.Version) (o : Ordering) (h : VerDeb.compare v1 v2 = some o) :
    o = VerDeb.debOrd v1 v2 := VerDeb.compare_some h

/-- `Compare` does not return exactly when, the epochs being equal, the
    upstream versions (or, these being identical, the revisions) are different
    strings that dpkg's order does not separate. -/
theorem deb_compare_hang_iff (v1 v2 : VerDeb.Version) :
    VerDeb.compare v1 v2 = none ↔
      v1.epoch = v2.epoch ∧
      ((v1.upstream ≠ v2.upstream ∧ VerDeb.partOrd v1.upstream v2.upstream = .eq) ∨
       (v1.upstream = v2.upstream ∧ v1.revision ≠ v2.revision ∧
        VerDeb.partOrd v1.revision v2.revision = .eq)) := VerDeb.compare_none_iff v1 v2

/-- The model's "does not return" is not an artefact of its iteration bound:
    when `compare(a, b)` is modelled as not returning, the loop
    `for i := 0; ; i++` finds no exit within any number of iterations. -/
theorem deb_hang_for_every_bound (a b : Str) (h : VerDeb.comparePart a b = none) (fuel : Nat) :
    VerDeb.cmpLoop fuel (VerDeb.strings a) (VerDeb.strings b) (VerDeb.numbers a) (VerDeb.numbers b) = none :=
  VerDeb.comparePart_none_forever h fuel

/-- The inner `compareString` loop (which also has no exit but a difference)
    does terminate: `order` is injective and never 0, so different strings differ
    at some position. -/
theorem deb_compareString_eq_iff (a b : Str) : VerDeb.compareString a b = .eq ↔ a = b :=
  VerDeb.compareString_eq

/-! ### debian and ubuntu -/

/-- debian, ubuntu: an advisory without fixed version is reported (no fix yet). -/
theorem no_fix_debian (p : Pkg) (v : Vuln) (hF : v.fixed = []) : vulnerableDebian p v = .ok true := by
  simp [vulnerableDebian, hF]

theorem no_fix_ubuntu (p : Pkg) (v : Vuln) (hF : v.fixed = []) : vulnerableUbuntu p v = .ok true := by
  simp [vulnerableUbuntu, hF]

/-- debian: fixed version `"0"` is the tracker's "not affected": never reported. -/
theorem sentinel_not_reported_debian (p : Pkg) (v : Vuln) (hF : v.fixed = ['0']) :
    vulnerableDebian p v = .ok false := by
  simp [vulnerableDebian, hF]

/-- ubuntu: a fix that prints as `"0"` is reported for every parsable package
    version (the code's choice; see design/C03.md). -/
theorem zero_fix_reported_ubuntu (p : Pkg) (v : Vuln) (v1 v2 : VerDeb.Version) (hF : v.fixed ≠ [])
    (h1 : VerDeb.newVersion p.version = some v1) (h2 : VerDeb.newVersion v.fixed = some v2)
    (hz : v2.toStr = ['0']) : vulnerableUbuntu p v = .ok true := by
  simp [vulnerableUbuntu, hF, h1, h2, hz]

/-- debian, ubuntu: a version that does not parse is an error, not a verdict. -/
theorem unparsable_is_error_debian (p : Pkg) (v : Vuln) (hF : v.fixed ≠ []) (hF0 : v.fixed ≠ ['0'])
    (h : VerDeb.newVersion p.version = none ∨ VerDeb.newVersion v.fixed = none) :
    vulnerableDebian p v = .err := by
  unfold vulnerableDebian
  simp only [hF, hF0, if_false]
  rcases h with h | h
  · simp [h]
  · cases VerDeb.newVersion p.version <;> simp [h]

/-
  Full statement (FALSE of the unchanged code, see the counterexample below):
    ∀ p v v1 v2, v.fixed ≠ "" → v.fixed ≠ "0" → parse p = v1 → parse F = v2 →
      vulnerableDebian p v = .ok (decide (debOrd v1 v2 = .lt))
-/

/-- debian: with a fix `F` (not a sentinel), both versions parsable, **and
    `Compare` returning on the pair**, reported iff the package is strictly below
    `F` in dpkg's order. -/
theorem vulnerable_iff_lt_debian_partial (p : Pkg) (v : Vuln) (v1 v2 : VerDeb.Version)
    (hF : v.fixed ≠ []) (hF0 : v.fixed ≠ ['0'])
    (h1 : VerDeb.newVersion p.version = some v1) (h2 : VerDeb.newVersion v.fixed = some v2)
    (hret : VerDeb.compare v1 v2 ≠ none) :
    vulnerableDebian p v = .ok (decide (VerDeb.debOrd v1 v2 = .lt)) := by
  simp only [vulnerableDebian, hF, hF0, if_false, h1, h2]
  exact debLess_of_returns hret

/-- Without the last hypothesis the statement fails: package `1.00-1`, fixed
    `1.0-1` — both parse, dpkg considers them equal, the matcher never returns. -/
theorem vulnerable_iff_lt_debian_counterexample :
    vulnerableDebian { version := ['1', '.', '0', '0', '-', '1'] } { fixed := ['1', '.', '0', '-', '1'] } = .hang := by
  decide

theorem vulnerable_iff_lt_ubuntu_partial (p : Pkg) (v : Vuln) (v1 v2 : VerDeb.Version)
    (hF : v.fixed ≠ [])
    (h1 : VerDeb.newVersion p.version = some v1) (h2 : VerDeb.newVersion v.fixed = some v2)
    (hz : v2.toStr ≠ ['0']) (hret : VerDeb.compare v1 v2 ≠ none) :
    vulnerableUbuntu p v = .ok (decide (VerDeb.debOrd v1 v2 = .lt)) := by
  simp only [vulnerableUbuntu, hF, if_false, h1, h2, hz]
  exact debLess_of_returns hret

theorem vulnerable_iff_lt_ubuntu_counterexample :
    vulnerableUbuntu { version := ['1', '.', '0', '0', '-', '1'] } { fixed := ['1', '.', '0', '-', '1'] } = .hang := by
  decide

/-- In any case debian never reports a package that is not strictly below the fix. -/
theorem reported_only_below_debian (p : Pkg) (v : Vuln) (v1 v2 : VerDeb.Version)
    (hF : v.fixed ≠ []) (hF0 : v.fixed ≠ ['0'])
    (h1 : VerDeb.newVersion p.version = some v1) (h2 : VerDeb.newVersion v.fixed = some v2)
    (h : vulnerableDebian p v = .ok true) : VerDeb.debOrd v1 v2 = .lt := by
  simp only [vulnerableDebian, hF, hF0, if_false, h1, h2] at h
  simpa using (debLess_ok h).symm

/-- debian: downward closed, as far as the call on the older version returns. -/
theorem monotone_debian_partial (p p' : Pkg) (v : Vuln) (v1 v1' : VerDeb.Version)
    (h : vulnerableDebian p v = .ok true)
    (h1 : VerDeb.newVersion p.version = some v1) (h1' : VerDeb.newVersion p'.version = some v1')
    (hle : VerDeb.debOrd v1' v1 ≠ .gt) (hret : vulnerableDebian p' v ≠ .hang) :
    vulnerableDebian p' v = .ok true := by
  unfold vulnerableDebian at h hret ⊢
  by_cases hF : v.fixed = []
  · simp [hF]
  · by_cases hF0 : v.fixed = ['0']
    · simp [hF0] at h
    · simp only [hF, hF0, if_false, h1, h1'] at h hret ⊢
      cases h2 : VerDeb.newVersion v.fixed with
      | none => simp [h2] at h
      | some v2 =>
        simp only [h2] at h hret ⊢
        exact debLess_mono h hle hret

theorem monotone_ubuntu_partial (p p' : Pkg) (v : Vuln) (v1 v1' : VerDeb.Version)
    (h : vulnerableUbuntu p v = .ok true)
    (h1 : VerDeb.newVersion p.version = some v1) (h1' : VerDeb.newVersion p'.version = some v1')
    (hle : VerDeb.debOrd v1' v1 ≠ .gt) (hret : vulnerableUbuntu p' v ≠ .hang) :
    vulnerableUbuntu p' v = .ok true := by
  unfold vulnerableUbuntu at h hret ⊢
  by_cases hF : v.fixed = []
  · simp [hF]
  · simp only [hF, if_false, h1, h1'] at h hret ⊢
    cases h2 : VerDeb.newVersion v.fixed with
    | none => simp [h2] at h
    | some v2 =>
      simp only [h2] at h hret ⊢
      by_cases hz : v2.toStr = ['0']
      · simp [hz]
      · simp only [hz, if_false] at h hret ⊢
        exact debLess_mono h hle hret

/-! ### alpine (go-apk-version) -/

/-- The statement-by-statement transcription of go-apk-version's `compare`
    (lock-step loop over two tokenizers, then the decisions after it) computes
    the lexicographic scan of the two token streams. -/
theorem apk_compare_loop_eq_stream (a b : Str) : VerApk.compareLoop a b = VerApk.compare a b :=
  VerApk.compareLoop_eq_compare a b

/-- The model bounds a version's token stream by `2·len + 4` tokens; the bound
    is never reached (each `getToken` ends the stream or lowers
    `2·unread + [type is DIGIT/DIGIT_OR_ZERO]`): every larger bound gives the same stream. -/
theorem apk_token_bound_unreachable (ver : Str) (n : Nat) (h : 2 * ver.length + 4 ≤ n) :
    VerApk.toks n { rest := ver } .digit = VerApk.tokens ver :=
  VerApk.tokens_bound_unreachable ver n h

/-- `Valid(ver)` holds exactly when the version's token stream ends with `END`. -/
theorem apk_valid_iff_stream_ends (ver : Str) :
    VerApk.valid ver = true ↔ (VerApk.tokens ver).getLast? = some (.tEnd, 0) :=
  VerApk.valid_iff_ends ver

/-- go-apk-version's comparison is a total preorder on **all** strings, valid or not. -/
theorem apk_cmp_totalPre : TotalPre VerApk.compareLoop := by
  have : VerApk.compareLoop = VerApk.compare := by
    funext a b; exact VerApk.compareLoop_eq_compare a b
  rw [this]; exact VerApk.compare_totalPre

/-- alpine: an advisory without fixed version is reported. -/
theorem no_fix_alpine (p : Pkg) (v : Vuln) (hF : v.fixed = []) : vulnerableAlpine p v = .ok true := by
  simp [vulnerableAlpine, hF]

/-- alpine: secdb's fixed version `"0"` means not affected: never reported. -/
theorem sentinel_not_reported_alpine (p : Pkg) (v : Vuln) (hF : v.fixed = ['0']) :
    vulnerableAlpine p v = .ok false := by
  simp [vulnerableAlpine, hF]

/-- alpine: a version apk does not accept, on either side, is never reported (and is not an error). -/
theorem invalid_not_reported_alpine (p : Pkg) (v : Vuln) (hF : v.fixed ≠ [])
    (h : VerApk.valid p.version = false ∨ VerApk.valid v.fixed = false) :
    vulnerableAlpine p v = .ok false := by
  unfold vulnerableAlpine
  simp only [hF, if_false]
  split
  · rfl
  · rcases h with h | h
    · simp [h]
    · cases VerApk.valid p.version <;> simp [h]

/-- alpine: with a fix `F` (not a sentinel) and two versions apk accepts,
    reported iff the package is strictly below `F` in apk's comparison. -/
theorem vulnerable_iff_lt_alpine (p : Pkg) (v : Vuln) (hF : v.fixed ≠ []) (hF0 : v.fixed ≠ ['0'])
    (h1 : VerApk.valid p.version = true) (h2 : VerApk.valid v.fixed = true) :
    vulnerableAlpine p v = .ok (decide (VerApk.compare p.version v.fixed = .lt)) := by
  simp [vulnerableAlpine, hF, hF0, h1, h2]

/-! ### python, ruby, java: url-encoded introduced / fixed / lastAffected ranges

Stated once for any version scheme `S` (parser + comparator): the three
`Vulnerable` functions are the same text, which `Gen.Matchers` re-checks below
(`gen_osv_matchers_alike`). -/

/-- An advisory with empty `FixedInVersion` is reported. -/
theorem no_fix_osv {V : Type} (S : Scheme V) (p : Pkg) (v : Vuln) (hF : v.fixed = []) :
    vulnerableOsv S p v = .ok true := by
  simp [vulnerableOsv, hF]

/-- The range is honoured at both ends: with the package version, the query
    and every bound that is looked at parsable, the package is reported iff
    `introduced ≤ v` (closed; absent = no lower bound) and `v < fixed` (open) or,
    when no fix is named, `v ≤ lastAffected` (closed) or, when neither is named,
    unconditionally. -/
theorem range_honoured_osv {V : Type} (S : Scheme V) (p : Pkg) (v : Vuln) (rv : V) (q : List (Str × Str))
    (intro fix la : Option V)
    (hF : v.fixed ≠ []) (hp : S.parse p.version = some rv) (hq : parseQuery v.fixed = some q)
    (hi : Bound S (qget q kIntroduced) intro) (hf : Bound S (qget q kFixed) fix)
    (hl : fix = none → Bound S (qget q kLastAffected) la) :
    vulnerableOsv S p v = .ok (inRange S rv intro fix la) :=
  vulnerableOsv_eq S p v rv q intro fix la hF hp hq hi hf hl

/-- A package version that does not parse, or a `FixedInVersion` that is not a
    well-formed query string, is an error, not a verdict. -/
theorem unparsable_is_error_osv {V : Type} (S : Scheme V) (p : Pkg) (v : Vuln) (hF : v.fixed ≠ [])
    (h : S.parse p.version = none ∨ parseQuery v.fixed = none) : vulnerableOsv S p v = .err := by
  unfold vulnerableOsv
  simp only [hF, if_false]
  rcases h with h | h
  · simp [h]
  · cases S.parse p.version <;> simp [h]

/-- Monotone down to the introduced bound, for every scheme whose comparison
    is a total preorder: if `v` is reported, so is every `v' ≤ v` that is not
    below `introduced`.  (pep440 and gem comparisons are total preorders — C12;
    Maven's is not transitive — C12 finding maven-intransitive — so for java
    this holds on the fragment where `hS` does.) -/
theorem monotone_osv {V : Type} (S : Scheme V) (hS : TotalPre S.cmp) (p p' : Pkg) (v : Vuln) (rv rv' : V)
    (q : List (Str × Str)) (intro fix la : Option V)
    (hF : v.fixed ≠ []) (hp : S.parse p.version = some rv) (hp' : S.parse p'.version = some rv')
    (hq : parseQuery v.fixed = some q)
    (hi : Bound S (qget q kIntroduced) intro) (hf : Bound S (qget q kFixed) fix)
    (hl : fix = none → Bound S (qget q kLastAffected) la)
    (h : vulnerableOsv S p v = .ok true) (hle : S.cmp rv' rv ≠ .gt)
    (hin : ∀ iv, intro = some iv → S.cmp rv' iv ≠ .lt) :
    vulnerableOsv S p' v = .ok true := by
  rw [vulnerableOsv_eq S p v rv q intro fix la hF hp hq hi hf hl] at h
  rw [vulnerableOsv_eq S p' v rv' q intro fix la hF hp' hq hi hf hl]
  simp only [Out.ok.injEq] at h ⊢
  exact inRange_mono S hS h hle hin

/-- python: the range of the advisory is honoured at both ends (pep440 order). -/
theorem range_honoured_python (p : Pkg) (v : Vuln) (rv : Pep440.Ver) (q : List (Str × Str))
    (intro fix la : Option Pep440.Ver)
    (hF : v.fixed ≠ []) (hp : Pep440.parse p.version = some rv) (hq : parseQuery v.fixed = some q)
    (hi : Bound pythonScheme (qget q kIntroduced) intro) (hf : Bound pythonScheme (qget q kFixed) fix)
    (hl : fix = none → Bound pythonScheme (qget q kLastAffected) la) :
    vulnerablePython p v = .ok (inRange pythonScheme rv intro fix la) :=
  vulnerableOsv_eq pythonScheme p v rv q intro fix la hF hp hq hi hf hl

/-- ruby: likewise (RubyGems order). -/
theorem range_honoured_ruby (p : Pkg) (v : Vuln) (rv : List Gem.Seg) (q : List (Str × Str))
    (intro fix la : Option (List Gem.Seg))
    (hF : v.fixed ≠ []) (hp : Gem.parse p.version = some rv) (hq : parseQuery v.fixed = some q)
    (hi : Bound rubyScheme (qget q kIntroduced) intro) (hf : Bound rubyScheme (qget q kFixed) fix)
    (hl : fix = none → Bound rubyScheme (qget q kLastAffected) la) :
    vulnerableRuby p v = .ok (inRange rubyScheme rv intro fix la) :=
  vulnerableOsv_eq rubyScheme p v rv q intro fix la hF hp hq hi hf hl

/-- java: likewise (Maven `Compare`). -/
theorem range_honoured_java (p : Pkg) (v : Vuln) (rv : Maven.MV) (q : List (Str × Str))
    (intro fix la : Option Maven.MV)
    (hF : v.fixed ≠ []) (hp : Maven.parse p.version = some rv) (hq : parseQuery v.fixed = some q)
    (hi : Bound javaScheme (qget q kIntroduced) intro) (hf : Bound javaScheme (qget q kFixed) fix)
    (hl : fix = none → Bound javaScheme (qget q kLastAffected) la) :
    vulnerableJava p v = .ok (inRange javaScheme rv intro fix la) :=
  vulnerableOsv_eq javaScheme p v rv q intro fix la hF hp hq hi hf hl

/-- python: monotone down to the introduced bound, for all versions. -/
theorem monotone_python (p p' : Pkg) (v : Vuln) (rv rv' : Pep440.Ver)
    (q : List (Str × Str)) (intro fix la : Option Pep440.Ver)
    (hF : v.fixed ≠ []) (hp : Pep440.parse p.version = some rv) (hp' : Pep440.parse p'.version = some rv')
    (hq : parseQuery v.fixed = some q)
    (hi : Bound pythonScheme (qget q kIntroduced) intro) (hf : Bound pythonScheme (qget q kFixed) fix)
    (hl : fix = none → Bound pythonScheme (qget q kLastAffected) la)
    (h : vulnerablePython p v = .ok true) (hle : Pep440.cmp rv' rv ≠ .gt)
    (hin : ∀ iv, intro = some iv → Pep440.cmp rv' iv ≠ .lt) :
    vulnerablePython p' v = .ok true :=
  monotone_osv pythonScheme pythonScheme_totalPre p p' v rv rv' q intro fix la hF hp hp' hq hi hf hl h hle hin

/-- ruby: monotone down to the introduced bound, for all versions. -/
theorem monotone_ruby (p p' : Pkg) (v : Vuln) (rv rv' : List Gem.Seg)
    (q : List (Str × Str)) (intro fix la : Option (List Gem.Seg))
    (hF : v.fixed ≠ []) (hp : Gem.parse p.version = some rv) (hp' : Gem.parse p'.version = some rv')
    (hq : parseQuery v.fixed = some q)
    (hi : Bound rubyScheme (qget q kIntroduced) intro) (hf : Bound rubyScheme (qget q kFixed) fix)
    (hl : fix = none → Bound rubyScheme (qget q kLastAffected) la)
    (h : vulnerableRuby p v = .ok true) (hle : Gem.cmp rv' rv ≠ .gt)
    (hin : ∀ iv, intro = some iv → Gem.cmp rv' iv ≠ .lt) :
    vulnerableRuby p' v = .ok true :=
  monotone_osv rubyScheme rubyScheme_totalPre p p' v rv rv' q intro fix la hF hp hp' hq hi hf hl h hle hin

/-
  Full statement for java (FALSE of the unchanged code: Maven `Compare` is not
  transitive, C12 findings maven-intransitive / maven-zero-intransitive):
    … → vulnerableJava p v = .ok true → Maven.cmp rv' rv ≠ .gt → … → vulnerableJava p' v = .ok true
-/

/-- java: monotone down to the introduced bound when the older version, the
    reported version and the upper bound are pairwise `Maven.compat` (position by
    position no string component meets a list component and no number 0 meets a
    string or list — the fragment on which C12 proves `Compare` transitive). -/
theorem monotone_java_partial (p p' : Pkg) (v : Vuln) (rv rv' : Maven.MV)
    (q : List (Str × Str)) (intro fix la : Option Maven.MV)
    (hF : v.fixed ≠ []) (hp : Maven.parse p.version = some rv) (hp' : Maven.parse p'.version = some rv')
    (hq : parseQuery v.fixed = some q)
    (hi : Bound javaScheme (qget q kIntroduced) intro) (hf : Bound javaScheme (qget q kFixed) fix)
    (hl : fix = none → Bound javaScheme (qget q kLastAffected) la)
    (h : vulnerableJava p v = .ok true) (hle : Maven.cmp rv' rv ≠ .gt)
    (hin : ∀ iv, intro = some iv → Maven.cmp rv' iv ≠ .lt)
    (hc : Maven.compat rv' rv = true)
    (hcf : ∀ f, fix = some f → Maven.compat rv f = true ∧ Maven.compat rv' f = true)
    (hcl : ∀ l, la = some l → Maven.compat rv l = true ∧ Maven.compat rv' l = true) :
    vulnerableJava p' v = .ok true := by
  unfold vulnerableJava at h ⊢
  rw [vulnerableOsv_eq javaScheme p v rv q intro fix la hF hp hq hi hf hl] at h
  rw [vulnerableOsv_eq javaScheme p' v rv' q intro fix la hF hp' hq hi hf hl]
  simp only [Out.ok.injEq] at h ⊢
  exact inRange_mono' javaScheme h
    (fun f hf' hlt => maven_lt_down hc (hcf f hf').1 (hcf f hf').2 hle hlt)
    (fun l hl' hl2 => maven_le_down hc (hcl l hl').1 (hcl l hl').2 hle hl2) hin

/-- The statement without the compatibility hypothesis fails: `1` is reported
    for `fixed=1.sp`, `1.0.alpha` is older than `1`, yet it is not reported. -/
theorem monotone_java_counterexample :
    vulnerableJava { version := "1".toList } { fixed := "fixed=1.sp".toList } = .ok true ∧
    (do let a ← Maven.parse "1.0.alpha".toList
        let b ← Maven.parse "1".toList
        pure (Maven.cmp a b)) = some .lt ∧
    vulnerableJava { version := "1.0.alpha".toList } { fixed := "fixed=1.sp".toList } = .ok false := by
  decide

/-- `url.ParseQuery` of what the OSV updater writes (`url.Values.Encode`):
    `fixed=F&introduced=I` decodes to those two values. -/
example : (parseQuery "fixed=1.2.3&introduced=1.0%2Brc1".toList).map
    (fun q => (qget q kIntroduced, qget q kFixed, qget q kLastAffected)) =
    some ("1.0+rc1".toList, "1.2.3".toList, []) := by decide

/-! ### The database-side range test (gobin, nodejs; pre-filter of rhcc) -/

/-- `Version.Compare` (kinds as strings, then the ten components) is a total preorder. -/
theorem nversion_cmp_totalPre : TotalPre NVersion.compare := nversion_compare_totalPre

/-- `Range.Contains r v ↔ lower ≤ v ∧ v < upper`: closed below, open above. -/
theorem range_contains_iff (r : NRange) (v : NVersion) :
    rangeContains (some r) v = true ↔ (r.lower.compare v ≠ .gt ∧ v.compare r.upper = .lt) := by
  simp only [rangeContains, Bool.and_eq_true, decide_eq_true_eq]
  have hs := nversion_compare_totalPre.swap r.upper v
  cases hu : r.upper.compare v <;> simp [hu, Ordering.swap] at hs <;> simp [hs]

/-- A nil range contains nothing. -/
theorem range_nil_contains_nothing (v : NVersion) : rangeContains none v = false := rfl

/-- Membership is downward closed down to the lower bound. -/
theorem range_contains_mono (r : NRange) (v v' : NVersion) (h : rangeContains (some r) v = true)
    (hle : v'.compare v ≠ .gt) (hlo : r.lower.compare v' ≠ .gt) : rangeContains (some r) v' = true := by
  rw [range_contains_iff] at h ⊢
  exact ⟨hlo, nversion_compare_totalPre.lt_of_le_of_lt hle h.2⟩

/-- gobin, nodejs (flags regenerated from the sources): the controller
    returns exactly what the database-side range test lets through; the no-op
    `Vulnerable` is never consulted. -/
theorem dbside_iff_gobin (hit : Bool) (p : Pkg) (v : Vuln) :
    controllerKeeps Gen.Matchers.gobin.versionFilter Gen.Matchers.gobin.authoritative hit (vulnerableNoop p v)
      = .ok hit := by
  cases hit <;> rfl

theorem dbside_iff_nodejs (hit : Bool) (p : Pkg) (v : Vuln) :
    controllerKeeps Gen.Matchers.nodejs.versionFilter Gen.Matchers.nodejs.authoritative hit (vulnerableNoop p v)
      = .ok hit := by
  cases hit <;> rfl

/-- gobin / nodejs end to end: a package is reported iff the advisory's range
    and the package's normalized version are of one kind and
    `lower ≤ version < upper`. -/
theorem dbside_reported_iff_in_range (r : NRange) (nv : NVersion) (p : Pkg) (v : Vuln) :
    controllerKeeps Gen.Matchers.gobin.versionFilter Gen.Matchers.gobin.authoritative
        (dbSideHit (some r) nv) (vulnerableNoop p v) = .ok true ↔
      (r.lower.kind = r.upper.kind ∧ r.lower.kind = nv.kind ∧
       r.lower.compare nv ≠ .gt ∧ nv.compare r.upper = .lt) := by
  rw [dbside_iff_gobin]
  simp only [Out.ok.injEq, dbSideHit, Bool.and_eq_true, decide_eq_true_eq, range_contains_iff]
  constructor
  · rintro ⟨⟨h1, h2⟩, h3, h4⟩; exact ⟨h1, h2, h3, h4⟩
  · rintro ⟨h1, h2, h3, h4⟩; exact ⟨⟨h1, h2⟩, h3, h4⟩

/-- A package listed in several `IndexRecord`s (one per repository /
    distribution): without an authoritative version filter the advisory is
    listed once per record whose `Vulnerable` says yes — in particular it is
    reported iff **some** record's verdict is positive, whichever comes first. -/
theorem controller_counts_positive_records (hit : Bool) (outs : List Out) (hne : outs ≠ [])
    (hok : ∀ o ∈ outs, ∃ b, o = .ok b) :
    controllerMatch false false hit outs = .count (outs.countP (· = .ok true)) := by
  have : outs.isEmpty = false := by cases outs <;> simp_all
  simp [controllerMatch, this, filterAll_ok outs 0 hok]

theorem controller_reports_iff_some_record (hit : Bool) (outs : List Out) (hne : outs ≠ [])
    (hok : ∀ o ∈ outs, ∃ b, o = .ok b) :
    controllerMatch false false hit outs ≠ .count 0 ↔ Out.ok true ∈ outs := by
  rw [controller_counts_positive_records hit outs hne hok]
  simp only [ne_eq, MatchOut.count.injEq]
  rw [List.countP_eq_zero]
  constructor
  · intro h
    apply Classical.byContradiction
    intro hn
    apply h
    intro o ho
    simp only [decide_eq_true_eq]
    intro e; subst e; exact hn ho
  · intro h hz
    have := hz _ h
    simp at this

/-- The order of the records does not matter. -/
theorem controller_order_independent (hit : Bool) (outs outs' : List Out) (hp : outs.Perm outs')
    (hne : outs ≠ []) (hok : ∀ o ∈ outs, ∃ b, o = .ok b) :
    controllerMatch false false hit outs' = controllerMatch false false hit outs := by
  have hne' : outs' ≠ [] := by
    intro e; subst e; exact hne (List.Perm.eq_nil hp)
  have hok' : ∀ o ∈ outs', ∃ b, o = .ok b := fun o ho => hok o (hp.symm.subset ho)
  rw [controller_counts_positive_records hit outs hne hok, controller_counts_positive_records hit outs' hne' hok',
    hp.countP_eq]

/-- rhcc: the range test only pre-filters (not authoritative); a hit is still
    subject to `Vulnerable`. -/
theorem dbside_prefilter_rhcc (hit : Bool) (p : Pkg) (v : Vuln) :
    controllerKeeps Gen.Matchers.rhcc.versionFilter Gen.Matchers.rhcc.authoritative hit (vulnerableRhcc p v)
      = .ok (hit && decide (VerRpm.cmpStr p.version v.fixed = .lt)) := by
  cases hit <;> simp [controllerKeeps, Gen.Matchers.rhcc, vulnerableRhcc]

/-- Every other matcher is decided by its `Vulnerable` alone. -/
theorem no_version_filter_elsewhere :
    (Gen.Matchers.all.filter (·.versionFilter)).map (·.id) = ["rhcc", "gobin", "nodejs"] ∧
    (Gen.Matchers.all.filter (·.authoritative)).map (·.id) = ["gobin", "nodejs"] ∧
    ∀ (hit : Bool) (o : Out), controllerKeeps false false hit o = o := by
  refine ⟨by decide, by decide, ?_⟩
  intro hit o; cases hit <;> rfl

/-! ### What the sources say (regenerated facts, Tie A) -/

/-- The comparison each `Vulnerable` applies to the comparator's result:
    strictly-less with a fix (`== version.LESS`, `LessThan`, `< 0`),
    not-greater for the last-affected forms (`!= version.GREATER`, `<= 0`). -/
theorem gen_boundary_operators :
    (∀ m ∈ [Gen.Matchers.aws, Gen.Matchers.oracle, Gen.Matchers.photon, Gen.Matchers.suse, Gen.Matchers.rhel],
       m.cmpOps = ["!= version.GREATER", "== version.LESS"]) ∧
    (∀ m ∈ [Gen.Matchers.alpine, Gen.Matchers.debian, Gen.Matchers.ubuntu, Gen.Matchers.rhcc],
       m.cmpOps = ["LessThan"]) ∧
    (∀ m ∈ [Gen.Matchers.python, Gen.Matchers.ruby, Gen.Matchers.java],
       m.cmpOps = ["< 0", "< 0", "<= 0"]) ∧
    Gen.Matchers.gobin.cmpOps = [] ∧ Gen.Matchers.nodejs.cmpOps = [] := by
  decide

/-- The sentinels, the "unfixed" bound and the query keys in the sources are the model's. -/
theorem gen_literals :
    Gen.Matchers.alpine.vulnLits = ["", "0"] ∧ Gen.Matchers.debian.vulnLits = ["", "0"] ∧
    Gen.Matchers.ubuntu.vulnLits = ["", "0"] ∧
    Gen.Matchers.aws.vulnLits = ["", String.ofList unfixedBound] ∧
    Gen.Matchers.rhel.vulnLits = ["", String.ofList unfixedBound] ∧
    (∀ m ∈ [Gen.Matchers.oracle, Gen.Matchers.photon, Gen.Matchers.suse], m.vulnLits = [""]) ∧
    (∀ m ∈ [Gen.Matchers.python, Gen.Matchers.ruby, Gen.Matchers.java],
       m.vulnLits = ["", String.ofList kIntroduced, "", String.ofList kFixed, String.ofList kLastAffected, "", ""]) := by
  decide

/-- The database-side test as the query builder writes it: equality of the
    version kind and `vulnerable_range @> '{v0,…,v9}'::int[]`, the range having
    been stored with the two-argument constructor `VersionRange(lower, upper)`,
    i.e. PostgreSQL's default `[)` bounds — the half-open interval of
    `range_contains_iff`.  (PostgreSQL's `@>` and range constructor themselves
    are trusted, not run.) -/
theorem gen_db_range_test :
    Gen.Matchers.dbRangeTest =
      ["'{", ",", "}'::int[]", "version_kind", "vulnerable_range @> ", "VersionRange($29, $30)"] := by
  decide

/-- The three comparator models transcribe exactly these library versions
    (the libraries live outside /repo; a dependency bump must be followed by a
    re-reading of the library). -/
theorem gen_comparator_pins :
    Gen.Matchers.comparatorPins =
      ["github.com/knqyf263/go-apk-version v0.0.0-20200609155635-041fdbb8563f",
       "github.com/knqyf263/go-deb-version v0.0.0-20190517075300-09fca494f03d",
       "github.com/knqyf263/go-rpm-version v0.0.0-20170716094938-74609b86c936"] := by
  decide

/-- python, ruby and java apply the same operators to the same keys. -/
theorem gen_osv_matchers_alike :
    Gen.Matchers.python.cmpOps = Gen.Matchers.ruby.cmpOps ∧ Gen.Matchers.ruby.cmpOps = Gen.Matchers.java.cmpOps ∧
    Gen.Matchers.python.vulnLits = Gen.Matchers.ruby.vulnLits ∧ Gen.Matchers.ruby.vulnLits = Gen.Matchers.java.vulnLits := by
  decide

/-- alpine: if a version is reported, so is every version apk accepts that is not above it. -/
theorem monotone_alpine (p p' : Pkg) (v : Vuln) (h : vulnerableAlpine p v = .ok true)
    (hv : VerApk.valid p'.version = true) (hle : VerApk.compare p'.version p.version ≠ .gt) :
    vulnerableAlpine p' v = .ok true := by
  unfold vulnerableAlpine at h ⊢
  by_cases hF : v.fixed = []
  · simp [hF]
  · by_cases hF0 : v.fixed = ['0']
    · simp [hF0] at h
    · simp only [hF, hF0, if_false] at h ⊢
      by_cases h1 : VerApk.valid p.version = true
      · by_cases h2 : VerApk.valid v.fixed = true
        · simp only [h1, h2, hv, Bool.not_true, Bool.false_eq_true, if_false, Out.ok.injEq, decide_eq_true_eq] at h ⊢
          exact lt_down VerApk.compare_totalPre h hle
        · simp [h1, h2] at h
      · simp [h1] at h

/-! ### Bytes outside ASCII (go-rpm-version)

The rpm model is over byte strings: the segment pattern's classes are ASCII,
so every byte ≥ 0x80 separates segments; the only place the library decodes
UTF-8 is the white-space trimming left of the epoch. -/

/-- On ASCII input the Unicode-aware trimming is the ASCII trimming. -/
theorem rpm_trim_space_ascii : ∀ (s : Str), (∀ c ∈ s, c.toNat < 128) → trimLeftSpace s = trimLeft isSpace s
  | [], _ => rfl
  | c :: cs, h => by
    have hc : c.toNat < 128 := h c List.mem_cons_self
    unfold trimLeftSpace trimLeft
    by_cases hs : isSpace c = true
    · simp only [hs, if_true]
      exact rpm_trim_space_ascii cs fun x hx => h x (List.mem_cons_of_mem _ hx)
    · simp only [hs, Bool.false_eq_true, if_false]
      split <;> first | rfl | omega

/-- A no-break space (C2 A0) or an em space (E2 80 83) left of the epoch is
    trimmed and the epoch counts; a zero-width space (E2 80 8B) is no white
    space, the epoch does not parse and is 0; a byte ≥ 0x80 inside a version
    only separates segments (`1é2` is `1.2`). -/
theorem rpm_non_ascii_examples :
    VerRpm.cmpStr [Char.ofNat 0xC2, Char.ofNat 0xA0, '1', ':', '1'] ['2'] = .gt ∧
    VerRpm.cmpStr [Char.ofNat 0xE2, Char.ofNat 0x80, Char.ofNat 0x83, '1', ':', '1'] ['2'] = .gt ∧
    VerRpm.cmpStr [Char.ofNat 0xE2, Char.ofNat 0x80, Char.ofNat 0x8B, '1', ':', '1'] ['2'] = .lt ∧
    VerRpm.cmpStr ['1', Char.ofNat 0xC3, Char.ofNat 0xA9, '2'] ['1', '.', '2'] = .eq := by
  decide

/-! ### `Vulnerable`, branch by branch: the full characterisation per matcher

(the `vulnerable_iff_lt_*`, `no_fix_*`, `arch_respected_*`, `gate_respected_*`
theorems above are its pieces; debian / ubuntu / alpine / the OSV matchers
have theirs above: `vulnerable_iff_lt_*`, `range_honoured_*`). -/

/-- The decision shared by the go-rpm-version matchers: strictly below the
    fix when one is named, otherwise not above the bound. -/
theorem rpm_below_iff (pv f b : Str) :
    rpmBelow pv f b = true ↔
      (f ≠ [] ∧ VerRpm.cmpStr pv f = .lt) ∨ (f = [] ∧ VerRpm.cmpStr pv b ≠ .gt) := by
  unfold rpmBelow
  by_cases hf : f = []
  · simp [hf]
  · simp [hf]

/-- aws: reported iff (below the fix | unfixed and not above `65535:0`) and the architecture test passes. -/
theorem vulnerable_iff_aws (p : Pkg) (v : Vuln) :
    vulnerableAws p v = .ok true ↔
      ((v.fixed ≠ [] ∧ VerRpm.cmpStr p.version v.fixed = .lt) ∨
       (v.fixed = [] ∧ VerRpm.cmpStr p.version unfixedBound ≠ .gt)) ∧ v.archOK p = true := by
  simp only [vulnerableAws, Out.ok.injEq, Bool.and_eq_true, rpm_below_iff]

/-- oracle: the bound without a fix is the advisory's package version (closed). -/
theorem vulnerable_iff_oracle (p : Pkg) (v : Vuln) :
    vulnerableOracle p v = .ok true ↔
      ((v.fixed ≠ [] ∧ VerRpm.cmpStr p.version v.fixed = .lt) ∨
       (v.fixed = [] ∧ VerRpm.cmpStr p.version v.pkgVersion ≠ .gt)) ∧ v.archOK p = true := by
  simp only [vulnerableOracle, Out.ok.injEq, Bool.and_eq_true, rpm_below_iff]

/-- suse: as oracle. -/
theorem vulnerable_iff_suse (p : Pkg) (v : Vuln) :
    vulnerableSuse p v = .ok true ↔
      ((v.fixed ≠ [] ∧ VerRpm.cmpStr p.version v.fixed = .lt) ∨
       (v.fixed = [] ∧ VerRpm.cmpStr p.version v.pkgVersion ≠ .gt)) ∧ v.archOK p = true := by
  simp only [vulnerableSuse, Out.ok.injEq, Bool.and_eq_true, rpm_below_iff]

/-- photon: as oracle, without an architecture test. -/
theorem vulnerable_iff_photon (p : Pkg) (v : Vuln) :
    vulnerablePhoton p v = .ok true ↔
      (v.fixed ≠ [] ∧ VerRpm.cmpStr p.version v.fixed = .lt) ∨
      (v.fixed = [] ∧ VerRpm.cmpStr p.version v.pkgVersion ≠ .gt) := by
  simp only [vulnerablePhoton, Out.ok.injEq, rpm_below_iff]

/-- rhel: the repository gate (both repositories present, the advisory's key
    is the rhel CPE key, its name unbinds as a CPE that is a superset of — or a
    "substring pattern" for — the record's repository CPE), then the aws decision. -/
theorem vulnerable_iff_rhel (g : RhelGate) (p : Pkg) (v : Vuln) :
    vulnerableRhel g p v = .ok true ↔
      (g.vulnRepoNil = false ∧ g.recRepoNil = false ∧ g.keyOK = true ∧ g.unbindOK = true ∧
        (g.superset = true ∨ g.substring = true)) ∧
      ((v.fixed ≠ [] ∧ VerRpm.cmpStr p.version v.fixed = .lt) ∨
       (v.fixed = [] ∧ VerRpm.cmpStr p.version unfixedBound ≠ .gt)) ∧ v.archOK p = true := by
  rw [vulnerableRhel_eq]
  simp only [Out.ok.injEq, Bool.and_eq_true, rpm_below_iff, RhelGate.pass]
  cases g.vulnRepoNil <;> cases g.recRepoNil <;> cases g.keyOK <;> cases g.unbindOK <;>
    cases g.superset <;> cases g.substring <;> simp

/-- rhcc: strictly below `FixedInVersion` whatever it is (no sentinel, no architecture). -/
theorem vulnerable_iff_rhcc (p : Pkg) (v : Vuln) :
    vulnerableRhcc p v = .ok true ↔ VerRpm.cmpStr p.version v.fixed = .lt := by
  simp [vulnerableRhcc]

/-- None of the go-rpm-version matchers ever fails or hangs. -/
theorem rpm_matchers_always_answer (g : RhelGate) (p : Pkg) (v : Vuln) :
    (∃ b, vulnerableAws p v = .ok b) ∧ (∃ b, vulnerableOracle p v = .ok b) ∧ (∃ b, vulnerableSuse p v = .ok b) ∧
    (∃ b, vulnerablePhoton p v = .ok b) ∧ (∃ b, vulnerableRhel g p v = .ok b) ∧ (∃ b, vulnerableRhcc p v = .ok b) :=
  ⟨⟨_, rfl⟩, ⟨_, rfl⟩, ⟨_, rfl⟩, ⟨_, rfl⟩, ⟨_, vulnerableRhel_eq g p v⟩, ⟨_, rfl⟩⟩

/-- gobin / nodejs: `Vulnerable` itself never reports (the database decides). -/
theorem vulnerable_iff_noop (p : Pkg) (v : Vuln) : vulnerableNoop p v = .ok false := rfl

/-- The anchored pattern forms `^(lit|lit|…)$`: the architecture must be one
    of the alternatives, whole (no substring match). -/
theorem archop_anchored_alternation (a inner : Str) (re : Option Bool) (ha : a ≠ [])
    (hl : isLiteralAlt inner = true) :
    archCmp 3 a ('^' :: '(' :: (inner ++ [')', '$'])) (reVerdict ('^' :: '(' :: (inner ++ [')', '$'])) a re) = true ↔
      a ∈ altMatch.splitOnBar inner := by
  have hnl : isLiteralAlt ('^' :: '(' :: (inner ++ [')', '$'])) = false := by
    simp [isLiteralAlt, isLiteralChar, isDigit, isLetter, isLower, isUpper]
  have hrev : (inner ++ [')', '$']).reverse = '$' :: ')' :: inner.reverse := by simp
  simp only [archCmp, ha, if_false, reVerdict, hnl, anchoredAlt, hrev, List.reverse_reverse, hl, if_true,
    reduceCtorEq, Bool.false_eq_true, List.contains_eq_mem, decide_eq_true_eq]

theorem archop_anchored_alternation_examples :
    archCmp 3 "ppc64le".toList "^(x86_64|ppc64le)$".toList (reVerdict "^(x86_64|ppc64le)$".toList "ppc64le".toList none) = true ∧
    archCmp 3 "ppc64".toList "^(x86_64|ppc64le)$".toList (reVerdict "^(x86_64|ppc64le)$".toList "ppc64".toList none) = false ∧
    archCmp 3 "x86_64".toList "^x86$".toList (reVerdict "^x86$".toList "x86_64".toList none) = false := by
  decide

/-! ### `Range.Contains` against the database side: kinds -/

/-- An inverted or empty range (`Upper ≤ Lower`, in particular the zero
    `Range{}`) contains nothing. -/
theorem range_empty_contains_nothing (r : NRange) (v : NVersion) (h : r.upper.compare r.lower ≠ .gt) :
    rangeContains (some r) v = false := by
  cases hc : rangeContains (some r) v with
  | false => rfl
  | true =>
    exfalso
    simp only [rangeContains, Bool.and_eq_true, decide_eq_true_eq] at hc
    have hvu : v.compare r.upper = .lt := by
      rw [nversion_compare_totalPre.swap, hc.2]; rfl
    have := nversion_compare_totalPre.lt_of_lt_of_le hvu h
    have h2 := nversion_compare_totalPre.swap v r.lower
    rw [this] at h2
    exact hc.1 (by rw [h2]; rfl)

/-- When both ends of the range are of one kind, `Contains` holds only for
    versions of that kind: the Go twin and the SQL test (`version_kind = kind
    AND vulnerable_range @> v`) agree on every version. -/
theorem range_same_kind_agrees_with_db (r : NRange) (v : NVersion) (hk : r.lower.kind = r.upper.kind) :
    dbSideHit (some r) v = rangeContains (some r) v := by
  cases hc : rangeContains (some r) v with
  | false => simp [dbSideHit, hc]
  | true =>
    simp only [dbSideHit, hk, hc, decide_true, Bool.true_and, Bool.and_true, decide_eq_true_eq]
    simp only [rangeContains, Bool.and_eq_true, decide_eq_true_eq] at hc
    by_cases hkv : r.upper.kind = v.kind
    · exact hkv
    · exfalso
      have hlk : r.lower.kind ≠ v.kind := by rw [hk]; exact hkv
      have h1 : r.lower.compare v = strCmp r.lower.kind v.kind := by simp [NVersion.compare, hlk]
      have h2 : r.upper.compare v = strCmp r.upper.kind v.kind := by simp [NVersion.compare, hkv]
      rw [h1] at hc; rw [h2, ← hk] at hc
      have hne : strCmp r.lower.kind v.kind ≠ .eq := fun e => hlk (strCmp_eq.1 e)
      cases hs : strCmp r.lower.kind v.kind <;> simp_all

/-- With ends of different kinds `Contains` orders by the kind strings alone
    and can hold for a version of a third kind whatever the numbers are — the
    database side (which stores no kind for such a range) never does. -/
theorem range_mixed_kinds_counterexample :
    let r : NRange := { lower := { kind := "a".toList, v := [9,9,9,9,9,9,9,9,9,9] },
                        upper := { kind := "z".toList, v := [0,0,0,0,0,0,0,0,0,0] } }
    let v : NVersion := { kind := "m".toList, v := [5,0,0,0,0,0,0,0,0,0] }
    rangeContains (some r) v = true ∧ dbSideHit (some r) v = false := by
  decide

/-! ### Scan level: the registered default matchers through `Controller.Match` / `matcher.Match`

`MatchScan.matchOne m recs advs` is what one controller delivers for the
records of an IndexReport and the rows of the `vuln` table; `scanPairs` what
`matcher.Match` (the body of `libvuln.Scan`) lists in
`PackageVulnerabilities`. -/

section Scan
open ClairModel.MatchScan

/-- The report lists exactly what the controllers of the matcher set deliver. -/
theorem scan_listed_iff_some_matcher (ms : List MatcherId) (recs : List Rec) (advs : List Adv) (p : Str × Str) :
    p ∈ scanPairs ms recs advs ↔ ∃ m ∈ ms, p ∈ contrib m recs advs := by
  simp [scanPairs, List.mem_flatMap]

/-- A matcher none of whose records pass its `Filter` lists nothing (and does not ask the store). -/
theorem scan_not_interested_not_listed (m : MatcherId) (recs : List Rec) (advs : List Adv)
    (h : ∀ r ∈ recs, MatchScan.filter m r = false) : matchOne m recs advs = .ok [] := by
  have : recs.filter (MatchScan.filter m) = [] := by
    rw [List.filter_eq_nil_iff]
    intro r hr; simp [h r hr]
  simp [matchOne, this]

/-- A matcher whose `Vulnerable` decides (every built-in one but gobin and
    nodejs): an advisory is listed for a package exactly when some record of
    the package that passes the matcher's `Filter` is reported by `Vulnerable`
    against it, and the store returned the row for the package — i.e. some
    record of the package that passes the `Filter` and can be queried agrees
    with the row on the package (or source package) name and kind, on every
    constraint of `Query()`, and, for a `VersionFilter`, lies in the row's range. -/
theorem scan_listed_iff (m : MatcherId) (hm : authoritative m = false) (recs : List Rec) (advs : List Adv)
    (l : List (Str × Str)) (h : matchOne m recs advs = .ok l) (pid aid : Str) :
    (pid, aid) ∈ l ↔
      ∃ r ∈ recs, MatchScan.filter m r = true ∧ r.pkgID = pid ∧
        ∃ a ∈ advs, a.id = aid ∧ vulnerableOf m r a = .ok true ∧
          ∃ r' ∈ recs, MatchScan.filter m r' = true ∧ r'.pkgID = pid ∧ buildable (query m) r' = true ∧
            rowMatches (query m) (versionFilter m) r' a = true := by
  rw [matchOne_nonauth hm] at h
  split at h
  · next hemp =>
    simp only [Res.ok.injEq] at h
    subst h
    have hnil : recs.filter (MatchScan.filter m) = [] := by simpa using hemp
    constructor
    · intro hc; simp at hc
    · rintro ⟨r, hr, hf, -, -⟩
      have : r ∈ recs.filter (MatchScan.filter m) := List.mem_filter.mpr ⟨hr, hf⟩
      rw [hnil] at this; simp at this
  · rw [mem_filterRecs h (pid, aid)]
    constructor
    · rintro ⟨r, hr, a, ha, hp, hv⟩
      obtain ⟨hr1, hr2⟩ := List.mem_filter.mp hr
      obtain ⟨ha1, r', hr', hpid, hb, hrow⟩ := mem_fetched.mp ha
      obtain ⟨hr'1, hr'2⟩ := List.mem_filter.mp hr'
      simp only [Prod.mk.injEq] at hp
      exact ⟨r, hr1, hr2, hp.1.symm, a, ha1, hp.2.symm, hv, r', hr'1, hr'2, by rw [hpid, hp.1], hb, hrow⟩
    · rintro ⟨r, hr, hf, hpid, a, ha, haid, hv, r', hr', hf', hpid', hb, hrow⟩
      refine ⟨r, List.mem_filter.mpr ⟨hr, hf⟩, a, ?_, by rw [hpid, haid], hv⟩
      exact mem_fetched.mpr ⟨ha, r', List.mem_filter.mpr ⟨hr', hf'⟩, by rw [hpid', hpid], hb, hrow⟩

/-- gobin and nodejs (authoritative version filters): the advisory is listed
    once the store returns the row — the record's normalized version lies in
    the row's range (`rowMatches` with the version filter on). -/
theorem scan_listed_iff_authoritative (m : MatcherId) (hm : authoritative m = true) (recs : List Rec) (advs : List Adv)
    (l : List (Str × Str)) (h : matchOne m recs advs = .ok l) (pid aid : Str) :
    (pid, aid) ∈ l ↔
      ∃ a ∈ advs, a.id = aid ∧
        ∃ r ∈ recs, MatchScan.filter m r = true ∧ r.pkgID = pid ∧ buildable (query m) r = true ∧
          rowMatches (query m) (versionFilter m) r a = true := by
  rw [matchOne_auth hm] at h
  split at h
  · next hemp =>
    simp only [Res.ok.injEq] at h
    subst h
    have hnil : recs.filter (MatchScan.filter m) = [] := by simpa using hemp
    constructor
    · intro hc; simp at hc
    · rintro ⟨a, -, -, r, hr, hf, -⟩
      have : r ∈ recs.filter (MatchScan.filter m) := List.mem_filter.mpr ⟨hr, hf⟩
      rw [hnil] at this; simp at this
  · simp only [Res.ok.injEq] at h
    subst h
    simp only [List.mem_flatMap, List.mem_map, Prod.mk.injEq]
    constructor
    · rintro ⟨pid', -, a, ha, hp1, hp2⟩
      obtain ⟨ha1, r, hr, hpid, hb, hrow⟩ := mem_fetched.mp ha
      obtain ⟨hr1, hr2⟩ := List.mem_filter.mp hr
      exact ⟨a, ha1, hp2, r, hr1, hr2, by rw [hpid, hp1], hb, hrow⟩
    · rintro ⟨a, ha, haid, r, hr, hf, hpid, hb, hrow⟩
      refine ⟨pid, ?_, a, ?_, rfl, haid⟩
      · rw [mem_dedup, List.mem_map]
        exact ⟨r, List.mem_filter.mpr ⟨List.mem_filter.mpr ⟨hr, hf⟩, hb⟩, hpid⟩
      · exact mem_fetched.mpr ⟨ha, r, List.mem_filter.mpr ⟨hr, hf⟩, hpid, hb, hrow⟩

/-- What "the store returned the row" means, constraint by constraint. -/
theorem scan_row_matches_iff (cs : List Constraint) (vf : Bool) (r : Rec) (a : Adv) :
    rowMatches cs vf r a = true ↔
      nameMatches r a = true ∧ (∀ c ∈ cs, holds c r a = true) ∧ (vf = true → dbSideHit a.range r.nver = true) := by
  simp only [rowMatches, Bool.and_eq_true, List.all_eq_true, Bool.or_eq_true, Bool.not_eq_eq_eq_not, Bool.not_true]
  constructor
  · rintro ⟨⟨h1, h2⟩, h3⟩
    refine ⟨h1, h2, ?_⟩
    intro hv; rcases h3 with h3 | h3
    · rw [hv] at h3; simp at h3
    · exact h3
  · rintro ⟨h1, h2, h3⟩
    refine ⟨⟨h1, h2⟩, ?_⟩
    cases vf with
    | false => exact Or.inl rfl
    | true => exact Or.inr (h3 rfl)

/-- A controller fails only because a `Vulnerable` call on a record that
    passes the matcher's `Filter` failed (the store of the model does not fail). -/
theorem scan_error_only_from_vulnerable (m : MatcherId) (recs : List Rec) (advs : List Adv)
    (h : matchOne m recs advs = .err) :
    ∃ r ∈ recs, MatchScan.filter m r = true ∧ ∃ a ∈ advs, vulnerableOf m r a = .err := by
  cases hm : authoritative m with
  | true =>
    rw [matchOne_auth hm] at h
    split at h <;> simp at h
  | false =>
    rw [matchOne_nonauth hm] at h
    split at h
    · simp at h
    · obtain ⟨r, hr, a, ha, hv⟩ := filterRecs_err h
      exact ⟨r, (List.mem_filter.mp hr).1, (List.mem_filter.mp hr).2, a, (mem_fetched.mp ha).1, hv⟩

/-- rhel configured with `ignore_unpatched`: an advisory without a fixed
    version is never listed by the rhel matcher … -/
theorem scan_ignore_unpatched (recs : List Rec) (advs : List Adv) (l : List (Str × Str))
    (h : matchOne (.rhel true) recs advs = .ok l) (pid aid : Str) (hin : (pid, aid) ∈ l) :
    ∃ a ∈ advs, a.id = aid ∧ a.v.fixed ≠ [] := by
  obtain ⟨r, -, -, -, a, ha, haid, -, r', -, -, -, -, hrow⟩ :=
    (scan_listed_iff (.rhel true) rfl recs advs l h pid aid).mp hin
  refine ⟨a, ha, haid, ?_⟩
  have := ((scan_row_matches_iff _ _ r' a).mp hrow).2.1 .hasFixedInVersion (by simp [query])
  simpa [holds] using this

/-- … while the default configuration lists it as unfixed (package `1.0-1`
    of repository `cpe:/o:redhat:enterprise_linux:8::baseos`, advisory without
    fix for that CPE). -/
theorem scan_unpatched_listed_by_default :
    let r : Rec := { pkgID := "1".toList, name := "openssl".toList, pkg := { version := "1.0-1".toList },
                     repo := some { key := sRhelKey, cpe := "cpe:2.3:o:redhat:enterprise_linux:8:*:baseos:*:*:*:*:*".toList } }
    let a : Adv := { id := "7".toList, name := "openssl".toList, repoKey := sRhelKey, v := { fixed := [] },
                     cpe := some "cpe:2.3:o:redhat:enterprise_linux:8:*:baseos:*:*:*:*:*".toList, superset := [true] }
    matchOne (.rhel false) [r] [a] = .ok [("1".toList, "7".toList)] ∧ matchOne (.rhel true) [r] [a] = .ok [] := by
  decide

/-- Listed by one of the rpm matchers for an advisory that names a fix: some
    record of the package has a version strictly below the fix in rpm's order
    (and, for all but photon, passes the architecture test). -/
theorem scan_listed_below_fix_rpm (m : MatcherId) (hm : m ∈ [MatcherId.aws, .oracle, .suse, .photon, .rhel false, .rhel true])
    (recs : List Rec) (advs : List Adv) (l : List (Str × Str)) (h : matchOne m recs advs = .ok l)
    (pid aid : Str) (hin : (pid, aid) ∈ l) :
    ∃ r ∈ recs, r.pkgID = pid ∧ ∃ a ∈ advs, a.id = aid ∧
      (a.v.fixed ≠ [] → VerRpm.cmpStr r.pkg.version a.v.fixed = .lt) ∧
      (m ≠ .photon → a.v.archOK r.pkg = true) := by
  have hauth : authoritative m = false := by
    simp only [List.mem_cons, List.mem_nil_iff, or_false] at hm
    rcases hm with rfl | rfl | rfl | rfl | rfl | rfl <;> rfl
  obtain ⟨r, hr, -, hpid, a, ha, haid, hv, -⟩ := (scan_listed_iff m hauth recs advs l h pid aid).mp hin
  refine ⟨r, hr, hpid, a, ha, haid, ?_⟩
  simp only [List.mem_cons, List.mem_nil_iff, or_false] at hm
  rcases hm with rfl | rfl | rfl | rfl | rfl | rfl
  · simp only [vulnerableOf, vulnerableAws, Out.ok.injEq, Bool.and_eq_true] at hv
    exact ⟨fun hf => by simpa [rpmBelow_fix hf] using hv.1, fun _ => hv.2⟩
  · simp only [vulnerableOf, vulnerableOracle, Out.ok.injEq, Bool.and_eq_true] at hv
    exact ⟨fun hf => by simpa [rpmBelow_fix hf] using hv.1, fun _ => hv.2⟩
  · simp only [vulnerableOf, vulnerableSuse, Out.ok.injEq, Bool.and_eq_true] at hv
    exact ⟨fun hf => by simpa [rpmBelow_fix hf] using hv.1, fun _ => hv.2⟩
  · simp only [vulnerableOf, vulnerablePhoton, Out.ok.injEq] at hv
    exact ⟨fun hf => by simpa [rpmBelow_fix hf] using hv, fun hne => absurd rfl hne⟩
  · simp only [vulnerableOf, vulnerableRhel_eq, Out.ok.injEq, Bool.and_eq_true] at hv
    exact ⟨fun hf => by simpa [rpmBelow_fix hf] using hv.2.1, fun _ => hv.2.2⟩
  · simp only [vulnerableOf, vulnerableRhel_eq, Out.ok.injEq, Bool.and_eq_true] at hv
    exact ⟨fun hf => by simpa [rpmBelow_fix hf] using hv.2.1, fun _ => hv.2.2⟩

/-- rhel's "CPE pattern" test on the formatted strings: the advisory's CPE
    without its trailing `:*` run is a prefix of the record's. -/
theorem cpe_substring_iff (rc vc : Str) :
    cpeSubstring rc vc = true ↔ ∃ rest, rc = trimRight (fun c => c = ':' || c = '*') vc ++ rest := by
  unfold cpeSubstring
  generalize trimRight (fun c => c = ':' || c = '*') vc = t
  induction t generalizing rc with
  | nil => simp [isPrefix]
  | cons x xs ih =>
    cases rc with
    | nil => simp [isPrefix]
    | cons y ys =>
      simp only [isPrefix, Bool.and_eq_true, decide_eq_true_eq, ih, List.cons_append, List.cons.injEq]
      constructor
      · rintro ⟨rfl, rest, rfl⟩; exact ⟨rest, rfl, rfl⟩
      · rintro ⟨rest, rfl, rfl⟩; exact ⟨rfl, rest, rfl⟩

example : cpeSubstring "cpe:2.3:a:redhat:openshift:4.13:*:el8:*:*:*:*:*".toList "cpe:2.3:a:redhat:openshift:4:*:*:*:*:*:*:*".toList = true ∧
    cpeSubstring "cpe:2.3:a:redhat:openshift:3.11:*:el8:*:*:*:*:*".toList "cpe:2.3:a:redhat:openshift:4:*:*:*:*:*:*:*".toList = false := by
  decide

/-! #### Tie A for the scan level -/

/-- Names, `Query()` lists, version-filter flags of the model's matchers are
    those of the sources; rhel adds `HasFixedInVersion` under `m.ignoreUnpatched` only. -/
theorem gen_scan_matcher_facts :
    (∀ p ∈ [(MatcherId.alpine, Gen.Matchers.alpine), (.aws, Gen.Matchers.aws), (.debian, Gen.Matchers.debian),
            (.ubuntu, Gen.Matchers.ubuntu), (.oracle, Gen.Matchers.oracle), (.photon, Gen.Matchers.photon),
            (.suse, Gen.Matchers.suse), (.rhel false, Gen.Matchers.rhel), (.rhcc, Gen.Matchers.rhcc),
            (.python, Gen.Matchers.python), (.java, Gen.Matchers.java), (.ruby, Gen.Matchers.ruby),
            (.gobin, Gen.Matchers.gobin), (.nodejs, Gen.Matchers.nodejs)],
       MatchScan.name p.1 = p.2.name ∧ (query p.1).map Constraint.goName = p.2.query ∧
       versionFilter p.1 = p.2.versionFilter ∧ authoritative p.1 = p.2.authoritative) ∧
    Gen.Matchers.rhel.queryIf = ["m.ignoreUnpatched:HasFixedInVersion"] ∧
    (query (.rhel true)).map Constraint.goName = Gen.Matchers.rhel.query ++ ["HasFixedInVersion"] ∧
    (∀ i ∈ Gen.Matchers.all, i.id ≠ "rhel" → i.queryIf = []) := by
  decide

/-- The literals of every `Filter` are the model's. -/
theorem gen_scan_filter_literals :
    Gen.Matchers.alpine.filter = ["Distribution==nil", "Distribution.DID=" ++ String.ofList sAlpineID, "Distribution.Name=" ++ String.ofList sAlpineName] ∧
    Gen.Matchers.aws.filter = ["Distribution==nil", "Distribution.Name=" ++ String.ofList sAwsAL1, "Distribution.Name=" ++ String.ofList sAwsAL2,
      "Distribution.Name=" ++ String.ofList sAwsAL2, "Distribution.DID=" ++ String.ofList sAwsID] ∧
    Gen.Matchers.debian.filter = ["Distribution==nil", "Distribution.DID=" ++ String.ofList sDebianID, "Distribution.Name=" ++ String.ofList sDebianName] ∧
    Gen.Matchers.ubuntu.filter = ["Distribution==nil", "Distribution.DID=" ++ String.ofList sUbuntuID, "Distribution.Name=" ++ String.ofList sUbuntuName] ∧
    Gen.Matchers.oracle.filter = ["Distribution==nil", "Distribution.DID=" ++ String.ofList sOracleID, "Distribution.Name=" ++ String.ofList sOracleName] ∧
    Gen.Matchers.photon.filter = ["Distribution!=nil", "Distribution.DID=" ++ String.ofList sPhotonID] ∧
    Gen.Matchers.suse.filter = ["Distribution==nil", "Distribution.DID=" ++ "|".intercalate (sSuseIDs.map String.ofList),
      "Distribution.Name=" ++ "|".intercalate (sSuseNames.map String.ofList)] ∧
    Gen.Matchers.rhel.filter = ["Repository!=nil", "Repository.Key=" ++ String.ofList sRhelKey] ∧
    Gen.Matchers.rhelRepositoryKey = String.ofList sRhelKey ∧
    Gen.Matchers.rhcc.filter = ["Repository!=nil", "Repository.Name=" ++ String.ofList sGoldRepo] ∧
    Gen.Matchers.python.filter = ["Package.NormalizedVersion.Kind=" ++ String.ofList sPep440] ∧
    Gen.Matchers.java.filter = ["Repository!=nil", "Repository.Name=" ++ String.ofList sMaven] ∧
    Gen.Matchers.ruby.filter = ["Repository!=nil", "Repository.Name=" ++ String.ofList sRubygems] ∧
    Gen.Matchers.gobin.filter = ["Repository!=nil", "Repository.URI=" ++ String.ofList sGoURI] ∧
    Gen.Matchers.nodejs.filter = ["Repository!=nil", "Repository.Name=" ++ String.ofList sNpm] := by
  decide

/-- matchers/defaults registers the model's default set (nodejs is not among them). -/
theorem gen_scan_defaults (iu : Bool) :
    (defaultMatchers iu).map MatcherId.goType = Gen.Matchers.defaults ++ Gen.Matchers.defaultFactories := by
  cases iu <;> decide

/-- The query builder compares, for every constraint of the model, the column
    with the record field `holds` uses, and refuses a record without the
    distribution / repository exactly where `constraintBuildable` says so. -/
theorem gen_scan_query_columns :
    (∀ c ∈ Constraint.all, (c.goName ++ ":" ++ c.column ++ ":" ++ c.recordField) ∈ Gen.Matchers.queryColumns) ∧
    (∀ c ∈ Constraint.all, ∀ r : Rec, constraintBuildable c r =
      ((!(Gen.Matchers.queryNeeds.contains (c.goName ++ ":Distribution")) || r.dist.isSome) &&
       (!(Gen.Matchers.queryNeeds.contains (c.goName ++ ":Repository")) || r.repo.isSome))) ∧
    (∀ c : Constraint, c ∈ Constraint.all) := by
  refine ⟨by decide, ?_, ?_⟩
  · intro c hc r
    simp only [Constraint.all, List.mem_cons, List.mem_nil_iff, or_false] at hc
    rcases hc with rfl | rfl | rfl | rfl | rfl | rfl | rfl | rfl | rfl | rfl | rfl <;>
      simp [constraintBuildable, Gen.Matchers.queryNeeds, Constraint.goName]
  · intro c; cases c <;> decide

end Scan

/-- The hypotheses above are satisfiable: 1.0-1 is below 1.0-2. -/
example : vulnerableAws { version := "1.0-1".toList } { fixed := "1.0-2".toList } = .ok true := by decide

example : vulnerableAws { version := "1.0-2".toList } { fixed := "1.0-2".toList } = .ok false := by decide

example : vulnerableDebian { version := "1.0-1".toList } { fixed := "1.0-2".toList } = .ok true := by decide

example : vulnerableUbuntu { version := "1.0-1".toList } { fixed := "0:0".toList } = .ok true := by decide

example : vulnerableAlpine { version := "1.2.3-r0".toList } { fixed := "1.2.3-r1".toList } = .ok true := by decide

example : vulnerablePython { version := "1.0rc1".toList } { fixed := "fixed=1.0&introduced=0.9".toList } = .ok true := by
  decide

example : vulnerableRuby { version := "1.0.0".toList } { fixed := "lastAffected=1.0".toList } = .ok true := by decide

example : vulnerableAlpine { version := "1.2.3-r1".toList } { fixed := "1.2.3_rc1-r0".toList } = .ok false := by decide

end ClairModel.Props.C03
