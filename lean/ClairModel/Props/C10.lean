/-
  C10 — Fetched layers live exactly as long as someone uses them.
  Property theorems only; the invariant and its preservation are in Proofs/Arena.lean.
  The machine (Model/Arena.lean) follows libindex/fetcher.go (fetchInto, fetchUnlinkedFile,
  rc, ref) one atomic section per transition and is tied to the code by the scripted
  hook-point schedules of `./check C10`.  `step` is the code as it is now; `stepOld` is the
  code before the `fix:` commit 96a47b62 (done = Delete(key), stale ref abandoned).
-/
import ClairModel.Proofs.Arena
import ClairModel.Proofs.ArenaHeld

-- every variable of a property statement is bound explicitly: a misspelt name is an error, not a new variable
set_option autoImplicit false

namespace ClairModel.Props.C10
open ClairModel ClairModel.Arena

/-- Every state reachable by any interleaving of the atomic sections (any number of users,
    keys, failing servers, cancellations, stale references) satisfies the invariant. -/
theorem reachable_invariant (ops : List Op) : Inv (Sm.run step init ops) :=
  reachable_inv ops

/-- `rc.count` is exactly the number of references that were taken and not yet closed. -/
theorem count_eq_open_refs (ops : List Op) (r : Nat) :
    ((Sm.run step init ops).rc r).count = refsOn (Sm.run step init ops) r :=
  (reachable_inv ops).cnt r

/-- A temp file is open exactly while it is the arena's entry for its digest: the file is
    closed in the same critical section that forgets the key, and never reopened.  (For
    histories without `RemoteFetchArena.Close`; see `file_open_after_arena_close`.) -/
theorem file_open_iff (ops : List Op) (hn : ∀ op ∈ ops, op ≠ .aclose) (r : Nat) :
    ((Sm.run step init ops).rc r).fileOpen = true ↔
      (Sm.run step init ops).arena ((Sm.run step init ops).rc r).key = some r := by
  refine ⟨fun h => ?_, fun h => ((reachable_inv ops).arenaOk _ r h).2.2⟩
  rcases (reachable_inv ops).openIn r h with ha | hd
  · exact ha
  · rw [no_aclose_no_detached ops hn r] at hd; cases hd

/-- With `RemoteFetchArena.Close` in the history: an entry is an open file, and an open file
    is an entry or was open when the arena was Closed (its holders keep it, see `reader_safe`). -/
theorem file_open_after_arena_close (ops : List Op) (r : Nat) :
    ((Sm.run step init ops).arena ((Sm.run step init ops).rc r).key = some r →
      ((Sm.run step init ops).rc r).fileOpen = true) ∧
    (((Sm.run step init ops).rc r).fileOpen = true →
      (Sm.run step init ops).arena ((Sm.run step init ops).rc r).key = some r ∨
        (Sm.run step init ops).detached r = true) :=
  ⟨fun h => ((reachable_inv ops).arenaOk _ r h).2.2, (reachable_inv ops).openIn r⟩

/-- Reader safety: a user that went through `Val` (it has its private descriptor) reads a
    file that is open, referenced at least once, and still the arena's entry of the digest
    (or the whole arena was Closed while the file was open). -/
theorem reader_safe (ops : List Op) (t k r : Nat)
    (h : (Sm.run step init ops).tasks[t]? = some (.holding k r) ∨
         (Sm.run step init ops).tasks[t]? = some (.opened k r)) :
    ((Sm.run step init ops).rc r).fileOpen = true ∧ 1 ≤ ((Sm.run step init ops).rc r).count ∧
      ((Sm.run step init ops).arena k = some r ∨ (Sm.run step init ops).detached r = true) :=
  holder_facts' (reachable_inv ops) h

/-- What a holder reads is a file that was fetched for the digest it asked for (a file is
    only stored after `fnet` succeeded, i.e. after the checksum of the received bytes matched). -/
theorem holder_reads_requested_digest (ops : List Op) (t k r : Nat)
    (h : (Sm.run step init ops).tasks[t]? = some (.holding k r)) :
    ((Sm.run step init ops).rc r).key = k ∧ r < (Sm.run step init ops).nrc :=
  let hi := (reachable_inv ops).taskKey _ (List.mem_of_getElem? h) k r rfl
  ⟨hi.2, hi.1⟩

/-- The repaired code never abandons a reference to its finalizer. -/
theorem never_abandons_a_reference (ops : List Op) : (Sm.run step init ops).leaked = [] :=
  (reachable_inv ops).noLeak

/-- No lost waiter: a task blocked in the select waits for a flight that exists ... -/
theorem waiter_has_flight (ops : List Op) (t k : Nat)
    (h : (Sm.run step init ops).tasks[t]? = some (.waiting k)) :
    (Sm.run step init ops).flight k ≠ none :=
  (reachable_inv ops).waitFlight _ (List.mem_of_getElem? h) k rfl

/-- ... and when that flight ends every waiter is handed its result: nobody keeps waiting. -/
theorem flight_end_wakes_all_waiters (s : State) (k : Nat) (f : Flight) (res : Option Nat)
    (hf : s.flight k = some f) (hres : resultOf f.phase = some res) :
    ∀ p ∈ (step s (.fend k)).1.tasks, p ≠ .waiting k := by
  intro p hp
  simp only [step, stepG, hf, hres] at hp
  obtain ⟨q, _, rfl⟩ := List.mem_map.1 hp
  unfold deliver
  split
  · cases res <;> simp
  · assumption

/-- Closing one user's handle changes no other task. -/
theorem close_frame (s : State) (t t' : Nat) (hne : t' ≠ t) :
    (step s (.close t)).1.tasks[t']? = s.tasks[t']? :=
  close_other_task s t t' hne

/-- ... and every other holder still reads an open file afterwards. -/
theorem close_keeps_other_readers (ops : List Op) (t t' k r : Nat) (hne : t' ≠ t)
    (h : (Sm.run step init ops).tasks[t']? = some (.holding k r)) :
    let s' := (step (Sm.run step init ops) (.close t)).1
    s'.tasks[t']? = some (.holding k r) ∧ (s'.rc r).fileOpen = true ∧ 1 ≤ (s'.rc r).count := by
  intro s'
  have ht' : s'.tasks[t']? = some (.holding k r) := by
    rw [close_frame _ t t' hne]; exact h
  have hinv : Inv s' := inv_step (reachable_inv ops) (.close t)
  have := holder_facts' hinv (Or.inl ht')
  exact ⟨ht', this.1, this.2.1⟩

/-- `Close` of a handle never hits "close botch: count already 0". -/
theorem close_never_botches (ops : List Op) (t k r : Nat)
    (h : (Sm.run step init ops).tasks[t]? = some (.holding k r)) :
    (step (Sm.run step init ops) (.close t)).2 = .closedOk :=
  close_ok (reachable_inv ops) h

/-- The double-store branch of fetchUnlinkedFile is dead code: singleflight plus the
    Load-miss at the start of the flight keep the key free until the Swap. -/
theorem double_store_unreachable (ops : List Op) (k : Nat) :
    (step (Sm.run step init ops) (.fstore k)).2 ≠ .double :=
  no_double_store (reachable_inv ops) k

/-- At most one download per period of continuous use: while a user holds digest `k`
    (from any reachable state, through any further operations except its own Close),
    the server sees no request for `k`, and the user keeps holding. -/
theorem at_most_one_download_per_use_period (pre post : List Op) (t k r : Nat)
    (h : (Sm.run step init pre).tasks[t]? = some (.holding k r))
    (hd : (Sm.run step init pre).detached r = false)
    (hpost : ∀ op ∈ post, op ≠ .close t ∧ op ≠ .aclose) :
    (Sm.run step init (pre ++ post)).tasks[t]? = some (.holding k r) ∧
      (Sm.run step init (pre ++ post)).hits k = (Sm.run step init pre).hits k := by
  rw [Sm.run_append]
  exact held_run post (Sm.run step init pre) (reachable_inv pre) h hd hpost

/-- The statement above is false of the code before the fix: B and A share a flight; B closes
    before A takes its reference; A gets errStale and downloads again (2nd request, legitimate);
    the finalizer of A's abandoned stale reference then deletes the *new* entry by key; C's
    request misses and downloads a third time while A holds the second copy. -/
theorem at_most_one_download_per_use_period_counterexample :
    let pre : List Op := [.spawn 0, .spawn 0, .enter 0, .enter 1, .fload 0 true, .fnet 0 true, .fstore 0,
      .fend 0, .ref 0, .val 0, .init 0 true, .close 0, .ref 1, .val 1, .retry 1, .enter 1,
      .fload 0 true, .fnet 0 true, .fstore 0, .fend 0, .ref 1, .val 1, .init 1 true]
    let post : List Op := [.finalize 0, .spawn 0, .enter 2, .fload 0 true, .fnet 0 true]
    (Sm.run stepOld init pre).tasks[1]? = some (.holding 0 1) ∧
    (∀ op ∈ post, op ≠ .close 1) ∧
    (Sm.run stepOld init (pre ++ post)).tasks[1]? = some (.holding 0 1) ∧
    (Sm.run stepOld init pre).hits 0 = 2 ∧
    (Sm.run stepOld init (pre ++ post)).hits 0 = 3 := by
  decide

/-- The same history on the repaired machine: the stale reference is closed at once, there
    is nothing to finalize, C finds A's copy. -/
example :
    let ops : List Op := [.spawn 0, .spawn 0, .enter 0, .enter 1, .fload 0 true, .fnet 0 true, .fstore 0,
      .fend 0, .ref 0, .val 0, .init 0 true, .close 0, .ref 1, .val 1, .retry 1, .enter 1,
      .fload 0 true, .fnet 0 true, .fstore 0, .fend 0, .ref 1, .val 1, .init 1 true,
      .spawn 0, .enter 2, .fload 0 true]
    (Sm.trace step init ops).getLast? = some .hit ∧ (Sm.run step init ops).hits 0 = 2 := by
  decide

/-- Quiescent and clean, under the hypothesis the proof needs: no flight ended with a stored
    file while nobody was waiting for it (`orphans = []`).  Then, once every task has failed
    or closed and no flight runs: the arena map is empty, every file is closed, every count
    is zero. -/
theorem quiescent_clean_partial (ops : List Op)
    (hq : Quiescent (Sm.run step init ops)) (ho : (Sm.run step init ops).orphans = []) :
    (∀ k, (Sm.run step init ops).arena k = none) ∧
    (∀ r, ((Sm.run step init ops).rc r).fileOpen = false) ∧
    (∀ r, ((Sm.run step init ops).rc r).count = 0) :=
  quiescent_facts (reachable_inv ops) hq ho

/-- A history without cancellations never orphans a file, so for such histories the
    quiescent state is clean without any ghost hypothesis. -/
theorem quiescent_clean_no_cancel (ops : List Op) (hnc : ∀ op ∈ ops, ∀ t, op ≠ .cancel t)
    (hq : Quiescent (Sm.run step init ops)) :
    (∀ k, (Sm.run step init ops).arena k = none) ∧
    (∀ r, ((Sm.run step init ops).rc r).fileOpen = false) ∧
    (∀ r, ((Sm.run step init ops).rc r).count = 0) :=
  quiescent_facts (reachable_inv ops) hq (no_cancel_no_orphans ops hnc)

/-- Full-strength quiescence is false of the unchanged code (finding orphan-after-cancel):
    the only waiter of a flight is cancelled after the body has arrived; the flight still
    stores the file; everybody is done and the arena keeps an open file nobody references. -/
theorem quiescent_clean_counterexample :
    let ops : List Op := [.spawn 0, .enter 0, .fload 0 true, .fnet 0 true, .cancel 0, .fstore 0, .fend 0]
    Quiescent (Sm.run step init ops) ∧ (Sm.run step init ops).arena 0 = some 0 ∧
      ((Sm.run step init ops).rc 0).fileOpen = true ∧ ((Sm.run step init ops).rc 0).count = 0 :=
  orphan_witness

/-- After a clean quiescent state (nothing stored under `k`, no flight on `k`) a new request
    for `k` starts a flight, misses, and goes to the server: a fresh download. -/
theorem refetch_after_quiescence (s : State) (k : Nat) (ha : s.arena k = none) (hf : s.flight k = none) :
    Sm.trace step s [.spawn k, .enter s.tasks.length, .fload k true, .fnet k true]
      = [.spawned s.tasks.length, .lead, .miss, .fetched] ∧
    (Sm.run step s [.spawn k, .enter s.tasks.length, .fload k true, .fnet k true]).hits k = s.hits k + 1 :=
  refetch s k ha hf

/-- While a flight on `k` is in progress every further request for `k` joins it: one
    download serves all of them. -/
theorem concurrent_requests_share_one_flight (s : State) (t k : Nat) (f : Flight)
    (ht : s.tasks[t]? = some (.ready k)) (hf : s.flight k = some f) :
    (step s (.enter t)).2 = .join ∧ (step s (.enter t)).1.hits = s.hits ∧
      (step s (.enter t)).1.flight = s.flight := by
  simp [step, stepG, ht, hf, setTask]

/-- Non-vacuity: a reachable state with two holders of one file and a third task about to
    take a stale reference meets the hypotheses of the theorems above. -/
example :
    let s := Sm.run step init [.spawn 0, .spawn 0, .enter 0, .enter 1, .fload 0 true, .fnet 0 true,
      .fstore 0, .fend 0, .ref 0, .val 0, .init 0 true, .ref 1, .val 1, .init 1 true]
    s.tasks[0]? = some (.holding 0 0) ∧ s.tasks[1]? = some (.holding 0 0) ∧ (s.rc 0).count = 2 := by
  decide

end ClairModel.Props.C10
