/-
  C10 — Fetched layers live exactly as long as someone uses them.
  Property theorems only; the invariant and its preservation are in Proofs/Arena.lean.
  The machine (Model/Arena.lean) follows libindex/fetcher.go (fetchInto, fetchUnlinkedFile,
  rc, ref) one atomic section per transition and is tied to the code by the scripted
  hook-point schedules of `./check C10`.  `step` is the code as it is now; `stepOld` is the
  code before the `fix:` commit 96a47b62 (done = Delete(key), stale ref abandoned).

  On top of it: `ArenaFd.fstep` adds the descriptor table of the process (openTemp, Reopen
  through /proc/self/fd/N, the Close calls; libindex/tempfile_linux.go) and `ArenaProxy.pstep`
  adds FetchProxy (RealizeDescriptions with its errgroup, Close; fix 8f18b449) - both only ever
  move the arena by transitions of `step` (`proxy_moves_are_arena_moves`), so every theorem
  about `Sm.run step init ops` below holds under every interleaving of proxy calls too.
-/
import ClairModel.Proofs.Arena
import ClairModel.Proofs.ArenaHeld
import ClairModel.Proofs.ArenaRetry
import ClairModel.Proofs.ArenaFd
import ClairModel.Proofs.ArenaProxy
import ClairModel.Proofs.ArenaProxyInv

-- every variable of a property statement is bound explicitly: a misspelt name is an error, not a new variable
set_option autoImplicit false

namespace ClairModel.Props.C10
open ClairModel ClairModel.Arena ClairModel.ArenaFd ClairModel.ArenaProxy

/-- Every state reachable by any interleaving of the atomic sections (any number of users,
    keys, failing servers, cancellations, stale references) satisfies the invariant. -/
theorem reachable_invariant (ops : List Op) : Inv (Sm.run step init ops) :=
  reachable_inv ops

/-- `rc.count` is exactly the number of references that were taken and not yet closed. -/
theorem count_eq_open_refs (ops : List Op) (r : Nat) :
    ((Sm.run step init ops).rc r).count = refsOn (Sm.run step init ops) r :=
  (reachable_inv ops).cnt r

/-- A temp file is open exactly while it is the arena's entry for its digest: the file is
    closed in the same critical section that forgets the key, and never reopened.  (For
    histories without `RemoteFetchArena.Close`; see `file_open_after_arena_close`.) -/
theorem file_open_iff (ops : List Op) (hn : ∀ op ∈ ops, op ≠ .aclose) (r : Nat) :
    ((Sm.run step init ops).rc r).fileOpen = true ↔
      (Sm.run step init ops).arena ((Sm.run step init ops).rc r).key = some r := by
  refine ⟨fun h => ?_, fun h => ((reachable_inv ops).arenaOk _ r h).2.2⟩
  rcases (reachable_inv ops).openIn r h with ha | hd
  · exact ha
  · rw [no_aclose_no_detached ops hn r] at hd; cases hd

/-- With `RemoteFetchArena.Close` in the history: an entry is an open file, and an open file
    is an entry or was open when the arena was Closed (its holders keep it, see `reader_safe`). -/
theorem file_open_after_arena_close (ops : List Op) (r : Nat) :
    ((Sm.run step init ops).arena ((Sm.run step init ops).rc r).key = some r →
      ((Sm.run step init ops).rc r).fileOpen = true) ∧
    (((Sm.run step init ops).rc r).fileOpen = true →
      (Sm.run step init ops).arena ((Sm.run step init ops).rc r).key = some r ∨
        (Sm.run step init ops).detached r = true) :=
  ⟨fun h => ((reachable_inv ops).arenaOk _ r h).2.2, (reachable_inv ops).openIn r⟩

/-- Reader safety: a user that went through `Val` (it has its private descriptor) reads a
    file that is open, referenced at least once, and still the arena's entry of the digest
    (or the whole arena was Closed while the file was open). -/
theorem reader_safe (ops : List Op) (t k r : Nat)
    (h : (Sm.run step init ops).tasks[t]? = some (.holding k r) ∨
         (Sm.run step init ops).tasks[t]? = some (.opened k r)) :
    ((Sm.run step init ops).rc r).fileOpen = true ∧ 1 ≤ ((Sm.run step init ops).rc r).count ∧
      ((Sm.run step init ops).arena k = some r ∨ (Sm.run step init ops).detached r = true) :=
  holder_facts' (reachable_inv ops) h

/-- What a holder reads is a file that was fetched for the digest it asked for (a file is
    only stored after `fnet` succeeded, i.e. after the checksum of the received bytes matched). -/
theorem holder_reads_requested_digest (ops : List Op) (t k r : Nat)
    (h : (Sm.run step init ops).tasks[t]? = some (.holding k r)) :
    ((Sm.run step init ops).rc r).key = k ∧ r < (Sm.run step init ops).nrc :=
  let hi := (reachable_inv ops).taskKey _ (List.mem_of_getElem? h) k r rfl
  ⟨hi.2, hi.1⟩

/-- The repaired code never abandons a reference to its finalizer. -/
theorem never_abandons_a_reference (ops : List Op) : (Sm.run step init ops).leaked = [] :=
  (reachable_inv ops).noLeak

/-- No lost waiter: a task blocked in the select waits for a flight that exists ... -/
theorem waiter_has_flight (ops : List Op) (t k : Nat)
    (h : (Sm.run step init ops).tasks[t]? = some (.waiting k)) :
    (Sm.run step init ops).flight k ≠ none :=
  (reachable_inv ops).waitFlight _ (List.mem_of_getElem? h) k rfl

/-- ... and when that flight ends every waiter is handed its result: nobody keeps waiting. -/
theorem flight_end_wakes_all_waiters (s : State) (k : Nat) (f : Flight) (res : Option Nat)
    (hf : s.flight k = some f) (hres : resultOf f.phase = some res) :
    ∀ p ∈ (step s (.fend k)).1.tasks, p ≠ .waiting k := by
  intro p hp
  simp only [step, stepG, hf, hres] at hp
  obtain ⟨q, _, rfl⟩ := List.mem_map.1 hp
  unfold deliver
  split
  · cases res <;> simp
  · assumption

/-- Closing one user's handle changes no other task. -/
theorem close_frame (s : State) (t t' : Nat) (hne : t' ≠ t) :
    (step s (.close t)).1.tasks[t']? = s.tasks[t']? :=
  close_other_task s t t' hne

/-- ... and every other holder still reads an open file afterwards. -/
theorem close_keeps_other_readers (ops : List Op) (t t' k r : Nat) (hne : t' ≠ t)
    (h : (Sm.run step init ops).tasks[t']? = some (.holding k r)) :
    let s' := (step (Sm.run step init ops) (.close t)).1
    s'.tasks[t']? = some (.holding k r) ∧ (s'.rc r).fileOpen = true ∧ 1 ≤ (s'.rc r).count := by
  intro s'
  have ht' : s'.tasks[t']? = some (.holding k r) := by
    rw [close_frame _ t t' hne]; exact h
  have hinv : Inv s' := inv_step (reachable_inv ops) (.close t)
  have := holder_facts' hinv (Or.inl ht')
  exact ⟨ht', this.1, this.2.1⟩

/-- `Close` of a handle never hits "close botch: count already 0". -/
theorem close_never_botches (ops : List Op) (t k r : Nat)
    (h : (Sm.run step init ops).tasks[t]? = some (.holding k r)) :
    (step (Sm.run step init ops) (.close t)).2 = .closedOk :=
  close_ok (reachable_inv ops) h

/-- The double-store branch of fetchUnlinkedFile is dead code: singleflight plus the
    Load-miss at the start of the flight keep the key free until the Swap. -/
theorem double_store_unreachable (ops : List Op) (k : Nat) :
    (step (Sm.run step init ops) (.fstore k)).2 ≠ .double :=
  no_double_store (reachable_inv ops) k

/-- At most one download per period of continuous use: while a user holds digest `k`
    (from any reachable state, through any further operations except its own Close),
    the server sees no request for `k`, and the user keeps holding. -/
theorem at_most_one_download_per_use_period (pre post : List Op) (t k r : Nat)
    (h : (Sm.run step init pre).tasks[t]? = some (.holding k r))
    (hd : (Sm.run step init pre).detached r = false)
    (hpost : ∀ op ∈ post, op ≠ .close t ∧ op ≠ .aclose) :
    (Sm.run step init (pre ++ post)).tasks[t]? = some (.holding k r) ∧
      (Sm.run step init (pre ++ post)).hits k = (Sm.run step init pre).hits k := by
  rw [Sm.run_append]
  exact held_run post (Sm.run step init pre) (reachable_inv pre) h hd hpost

/-- The statement above is false of the code before the fix: B and A share a flight; B closes
    before A takes its reference; A gets errStale and downloads again (2nd request, legitimate);
    the finalizer of A's abandoned stale reference then deletes the *new* entry by key; C's
    request misses and downloads a third time while A holds the second copy. -/
theorem at_most_one_download_per_use_period_counterexample :
    let pre : List Op := [.spawn 0, .spawn 0, .enter 0, .enter 1, .fload 0 true, .fnet 0 true, .fstore 0,
      .fend 0, .ref 0, .val 0, .init 0 true, .close 0, .ref 1, .val 1, .retry 1, .enter 1,
      .fload 0 true, .fnet 0 true, .fstore 0, .fend 0, .ref 1, .val 1, .init 1 true]
    let post : List Op := [.finalize 0, .spawn 0, .enter 2, .fload 0 true, .fnet 0 true]
    (Sm.run stepOld init pre).tasks[1]? = some (.holding 0 1) ∧
    (∀ op ∈ post, op ≠ .close 1) ∧
    (Sm.run stepOld init (pre ++ post)).tasks[1]? = some (.holding 0 1) ∧
    (Sm.run stepOld init pre).hits 0 = 2 ∧
    (Sm.run stepOld init (pre ++ post)).hits 0 = 3 := by
  decide

/-- The same history on the repaired machine: the stale reference is closed at once, there
    is nothing to finalize, C finds A's copy. -/
example :
    let ops : List Op := [.spawn 0, .spawn 0, .enter 0, .enter 1, .fload 0 true, .fnet 0 true, .fstore 0,
      .fend 0, .ref 0, .val 0, .init 0 true, .close 0, .ref 1, .val 1, .retry 1, .enter 1,
      .fload 0 true, .fnet 0 true, .fstore 0, .fend 0, .ref 1, .val 1, .init 1 true,
      .spawn 0, .enter 2, .fload 0 true]
    (Sm.trace step init ops).getLast? = some .hit ∧ (Sm.run step init ops).hits 0 = 2 := by
  decide

/-- Quiescent and clean, under the hypothesis the proof needs: no flight ended with a stored
    file while nobody was waiting for it (`orphans = []`).  Then, once every task has failed
    or closed and no flight runs: the arena map is empty, every file is closed, every count
    is zero. -/
theorem quiescent_clean_partial (ops : List Op)
    (hq : Quiescent (Sm.run step init ops)) (ho : (Sm.run step init ops).orphans = []) :
    (∀ k, (Sm.run step init ops).arena k = none) ∧
    (∀ r, ((Sm.run step init ops).rc r).fileOpen = false) ∧
    (∀ r, ((Sm.run step init ops).rc r).count = 0) :=
  quiescent_facts (reachable_inv ops) hq ho

/-- A history without cancellations never orphans a file, so for such histories the
    quiescent state is clean without any ghost hypothesis. -/
theorem quiescent_clean_no_cancel (ops : List Op) (hnc : ∀ op ∈ ops, ∀ t, op ≠ .cancel t)
    (hq : Quiescent (Sm.run step init ops)) :
    (∀ k, (Sm.run step init ops).arena k = none) ∧
    (∀ r, ((Sm.run step init ops).rc r).fileOpen = false) ∧
    (∀ r, ((Sm.run step init ops).rc r).count = 0) :=
  quiescent_facts (reachable_inv ops) hq (no_cancel_no_orphans ops hnc)

/-- Full-strength quiescence is false of the unchanged code (finding orphan-after-cancel):
    the only waiter of a flight is cancelled after the body has arrived; the flight still
    stores the file; everybody is done and the arena keeps an open file nobody references. -/
theorem quiescent_clean_counterexample :
    let ops : List Op := [.spawn 0, .enter 0, .fload 0 true, .fnet 0 true, .cancel 0, .fstore 0, .fend 0]
    Quiescent (Sm.run step init ops) ∧ (Sm.run step init ops).arena 0 = some 0 ∧
      ((Sm.run step init ops).rc 0).fileOpen = true ∧ ((Sm.run step init ops).rc 0).count = 0 :=
  orphan_witness

/-- After a clean quiescent state (nothing stored under `k`, no flight on `k`) a new request
    for `k` starts a flight, misses, and goes to the server: a fresh download. -/
theorem refetch_after_quiescence (s : State) (k : Nat) (ha : s.arena k = none) (hf : s.flight k = none) :
    Sm.trace step s [.spawn k, .enter s.tasks.length, .fload k true, .fnet k true]
      = [.spawned s.tasks.length, .lead, .miss, .fetched] ∧
    (Sm.run step s [.spawn k, .enter s.tasks.length, .fload k true, .fnet k true]).hits k = s.hits k + 1 :=
  refetch s k ha hf

/-- While a flight on `k` is in progress every further request for `k` joins it: one
    download serves all of them. -/
theorem concurrent_requests_share_one_flight (s : State) (t k : Nat) (f : Flight)
    (ht : s.tasks[t]? = some (.ready k)) (hf : s.flight k = some f) :
    (step s (.enter t)).2 = .join ∧ (step s (.enter t)).1.hits = s.hits ∧
      (step s (.enter t)).1.flight = s.flight := by
  simp [step, stepG, ht, hf, setTask]

/-- Non-vacuity: a reachable state with two holders of one file and a third task about to
    take a stale reference meets the hypotheses of the theorems above. -/
example :
    let s := Sm.run step init [.spawn 0, .spawn 0, .enter 0, .enter 1, .fload 0 true, .fnet 0 true,
      .fstore 0, .fend 0, .ref 0, .val 0, .init 0 true, .ref 1, .val 1, .init 1 true]
    s.tasks[0]? = some (.holding 0 0) ∧ s.tasks[1]? = some (.holding 0 0) ∧ (s.rc 0).count = 2 := by
  decide

/-! ### RemoteFetchArena.Close -/

/-- `RemoteFetchArena.Close` forgets every key and touches nothing else: no rc, no count, no
    file, no task, no flight, no request. Whoever reads a layer keeps reading it (`reader_safe`
    holds in every reachable state, also after it), and the last holder still closes the file
    (`quiescent_clean_partial`). -/
theorem arena_close_disturbs_no_reader (s : State) :
    (step s .aclose).1.rc = s.rc ∧ (step s .aclose).1.tasks = s.tasks ∧ (step s .aclose).1.flight = s.flight ∧
      (step s .aclose).1.hits = s.hits ∧ ∀ k, (step s .aclose).1.arena k = none :=
  ⟨rfl, rfl, rfl, rfl, fun _ => rfl⟩

/-- ... but the arena no longer knows the files its users hold: the next request for a digest
    somebody holds goes to the server (documented: "Any outstanding Layers may cause keys to
    be forgotten at unpredictable times"; `at_most_one_download_per_use_period` excludes it). -/
theorem arena_close_under_a_holder_counterexample :
    let pre : List Op := [.spawn 0, .enter 0, .fload 0 true, .fnet 0 true, .fstore 0, .fend 0, .ref 0, .val 0,
      .init 0 true]
    let post : List Op := [.aclose, .spawn 0, .enter 1, .fload 0 true, .fnet 0 true]
    (Sm.run step init pre).tasks[0]? = some (.holding 0 0) ∧
    (Sm.run step init (pre ++ post)).tasks[0]? = some (.holding 0 0) ∧
    (Sm.run step init pre).hits 0 = 1 ∧ (Sm.run step init (pre ++ post)).hits 0 = 2 := by
  decide

/-- An orphaned file (finding orphan-after-cancel) that is in the map when the arena is
    Closed can no longer be adopted by a later request: everybody is done, the map is empty,
    the file stays open with count 0. -/
theorem arena_close_strands_an_orphan_counterexample :
    let ops : List Op := [.spawn 0, .enter 0, .fload 0 true, .fnet 0 true, .cancel 0, .fstore 0, .fend 0, .aclose]
    (∀ p ∈ (Sm.run step init ops).tasks, p = .failed ∨ p = .closed) ∧ (Sm.run step init ops).arena 0 = none ∧
      ((Sm.run step init ops).rc 0).fileOpen = true ∧ ((Sm.run step init ops).rc 0).count = 0 ∧
      (Sm.run step init ops).orphans = [0] := by
  decide

/-! ### the stale-reference retry loop -/

/-- The retry loop is bounded: a task sees `errStale` at most twice for every file of its
    digest that has been closed - once for an rc it was handed before the file was closed, once
    more if the flight it then joins had loaded that rc before it was closed.  (`stales t` is
    the number of `errStale` answers of task `t`, see `stales_counts_errStale`; `deaths k` is
    incremented exactly where `rc.dec` closes an open file of digest `k`; `skeys[t]` is the
    digest task `t` was started for.) -/
theorem stale_retries_bounded (ops : List Op) (t k : Nat)
    (hk : (Sm.run step init ops).skeys[t]? = some k) :
    (Sm.run step init ops).stales t ≤ 2 * (Sm.run step init ops).deaths k :=
  stales_le_deaths ops t k hk

/-- The ghost counter of the bound is the observable number of `errStale` answers. -/
theorem stales_counts_errStale (ops : List Op) (t : Nat) :
    (Sm.run step init ops).stales t = staleCount t init ops := by
  rw [stales_eq_count t ops init]; simp [init]

/-- ... and the loop makes progress under fairness: from any reachable state, a task at the
    start of `do()` (fresh, or after a stale retry) whose digest has no flight in progress
    ends with `Val = ok` when it and its flight run without another task's release in
    between - it can only go round again if it is overtaken by a new close. -/
theorem stale_retry_makes_progress (ops : List Op) (t k : Nat)
    (ht : (Sm.run step init ops).tasks[t]? = some (.ready k))
    (hf : (Sm.run step init ops).flight k = none) :
    (Sm.trace step (Sm.run step init ops) (soloOps (Sm.run step init ops) t k)).getLast? = some .valOk :=
  retry_progress (reachable_inv ops) ht hf

/-! ### descriptors (libindex/tempfile_linux.go) -/

/-- Every state of the descriptor machine satisfies its invariant. -/
theorem descriptor_invariant (ops : List FOp) : FInv (Sm.run fstep finit ops) :=
  freachable_inv ops

/-- A reopened file is the file of the same entry: whatever private descriptor a task has
    refers to the inode that the descriptor number of its rc's os.File names - the rc's own
    temp file, still open - although Reopen finds the file by number and numbers are reused. -/
theorem reopened_file_is_the_entrys_file (ops : List FOp) (n t i : Nat)
    (hl : look (Sm.run fstep finit ops).tab n = some ⟨.priv t, i⟩) :
    ∃ k r, ((Sm.run fstep finit ops).a.tasks[t]? = some (.opened k r) ∨
            (Sm.run fstep finit ops).a.tasks[t]? = some (.holding k r)) ∧
      ((Sm.run fstep finit ops).a.rc r).fileOpen = true ∧
      look (Sm.run fstep finit ops).tab ((Sm.run fstep finit ops).rcNum r) = some ⟨.rc r, i⟩ :=
  priv_is_entry_file (freachable_inv ops) hl

/-- `Val` on an rc whose file is open succeeds and leaves the task with a descriptor on that
    rc's file. -/
theorem val_ok_gives_a_descriptor_on_the_entry (ops : List FOp) (t k r : Nat)
    (ht : (Sm.run fstep finit ops).a.tasks[t]? = some (.reffed k r))
    (ho : ((Sm.run fstep finit ops).a.rc r).fileOpen = true) :
    (fstep (Sm.run fstep finit ops) (.base (.val t))).2 = .valOk ∧
      ∃ n, look (fstep (Sm.run fstep finit ops) (.base (.val t))).1.tab n
        = some ⟨.priv t, (Sm.run fstep finit ops).rcIno r⟩ :=
  val_opens_entry_file (freachable_inv ops) ht ho

/-- The hazard the `Fd() == -1` check under the rc lock excludes (seeded change C10-1): with
    the descriptor number cached at open time and no staleness check, a task that was handed
    rc 0 (digest 0) before its file was closed opens descriptor 0 again after the number has
    been given to the temp file of digest 1: it "holds digest 0" and reads the bytes of digest 1.
    On the machine of the code as it is the same history ends with `errStale`. -/
theorem cached_descriptor_number_reopens_another_layer_counterexample :
    let ops : List FOp := [.base (.spawn 0), .base (.spawn 0), .base (.enter 0), .base (.enter 1),
      .base (.fload 0 true), .base (.fnet 0 true), .base (.fstore 0), .base (.fend 0),
      .base (.ref 0), .base (.val 0), .base (.init 0 true), .base (.close 0),
      .base (.spawn 1), .base (.enter 2), .base (.fload 1 true), .base (.fnet 1 true), .base (.fstore 1),
      .base (.ref 1), .base (.val 1)]
    (Sm.run fstepCached finit ops).a.tasks[1]? = some (.opened 0 0) ∧
    ((Sm.run fstepCached finit ops).a.rc 0).fileOpen = false ∧
    look (Sm.run fstepCached finit ops).tab 1 = some ⟨.priv 1, 1⟩ ∧
    (Sm.run fstepCached finit ops).rcIno 0 = 0 ∧ (Sm.run fstepCached finit ops).rcIno 1 = 1 ∧
    ((Sm.run fstepCached finit ops).a.rc 1).key = 1 ∧
    (Sm.trace fstep finit ops).getLast? = some .valStale := by
  decide

/-- Leak accounting on the error paths: a temp file that is not (yet) in the arena has a
    descriptor only while its flight is between openTemp and the end of the transfer.  After
    every error exit of fetchUnlinkedFile (bad input, openTemp failure, request error, bad
    status, content-type or compression mismatch, short body, checksum mismatch, cancelled
    leader - the flight is in phase `failed`) and after the Swap there is none. -/
theorem failed_fetch_leaves_no_temp_descriptor (ops : List FOp) (n k i : Nat)
    (hl : look (Sm.run fstep finit ops).tab n = some ⟨.tmp k, i⟩) :
    ∃ f, (Sm.run fstep finit ops).a.flight k = some f ∧ (f.phase = .requesting ∨ f.phase = .fetched) :=
  (freachable_inv ops).tmpOnly n k i hl

/-- Once everybody is done the arena code owns no descriptor: what is left in the table
    belongs to the rest of the process.  **Partial** in the same way as
    `quiescent_clean_partial` (the orphaned file of finding orphan-after-cancel keeps its
    descriptor). -/
theorem quiescent_no_descriptors_partial (ops : List FOp)
    (hq : Quiescent (Sm.run fstep finit ops).a) (ho : (Sm.run fstep finit ops).a.orphans = [])
    (n : Nat) (e : Ent) (hl : look (Sm.run fstep finit ops).tab n = some e) : e.owner = .ext :=
  quiescent_no_descriptors (freachable_inv ops) hq ho n e hl

/-! ### FetchProxy: RealizeDescriptions, its errgroup, Close -/

/-- Whatever RealizeDescriptions, its errgroup (sibling cancellation, the GOMAXPROCS limit,
    the cleanup after an error) and FetchProxy.Close do, the arena only moves by the
    transitions of `step` and the descriptor table by those of `fstep`: the state after any
    history of proxy calls is a reachable state of the machines below. -/
theorem proxy_moves_are_arena_moves (ops : List POp) :
    (∃ aops : List Op, (Sm.run pstep pinit ops).f.a = Sm.run step init aops) ∧
    (∃ fops : List FOp, (Sm.run pstep pinit ops).f = Sm.run fstep finit fops) :=
  ⟨prun_arena true ops, prun_reach true ops pinit⟩

/-- Every state of the proxy machine satisfies the arena, descriptor and proxy invariants. -/
theorem proxy_invariants (ops : List POp) :
    Inv (Sm.run pstep pinit ops).f.a ∧ FInv (Sm.run pstep pinit ops).f ∧ PInv (Sm.run pstep pinit ops) :=
  ⟨prun_inv true ops, prun_finv true ops, preachable_pinv ops⟩

/-- `p.Close()` (no call running): it never finds a handle that is already closed (no "Layer
    closed twice"), closes every handle of the proxy, gives all of them up, and touches no task
    and no handle of anybody else. -/
theorem proxy_close_closes_each_handle_once (ops : List POp) (p : Nat) (q : Proxy)
    (hq : (Sm.run pstep pinit ops).px[p]? = some q) (hc : q.call = none) :
    let s := Sm.run pstep pinit ops
    (pstep s (.pclose p)).2 = .closed (tasksOf s p .cleanup).length ∧
    (∀ t, s.own t = some (p, .cleanup) → (pstep s (.pclose p)).1.f.a.tasks[t]? = some .closed) ∧
    (∀ t, (pstep s (.pclose p)).1.own t ≠ some (p, .cleanup)) ∧
    (∀ t, s.own t ≠ some (p, .cleanup) →
      (pstep s (.pclose p)).1.f.a.tasks[t]? = s.f.a.tasks[t]? ∧ (pstep s (.pclose p)).1.own t = s.own t) :=
  pclose_facts (preachable_pinv ops) p q hq hc

/-- A second `p.Close()` finds nothing to do (before fix 8f18b449 it ran `Layer.Close` again on
    every handle: "Layer closed twice" panic, see the counterexample below). -/
theorem proxy_close_twice_is_harmless (ops : List POp) (p : Nat) (q : Proxy)
    (hq : (Sm.run pstep pinit ops).px[p]? = some q) (hc : q.call = none) :
    (pstep (pstep (Sm.run pstep pinit ops) (.pclose p)).1 (.pclose p)).2 = .closed 0 := by
  have h := preachable_pinv ops
  generalize Sm.run pstep pinit ops = s at hq h ⊢
  have h1 := pclose_facts h p q hq hc
  have hpx : (pstep s (.pclose p)).1.px = s.px := by
    simp only [pstep, pstepG, hq, hc]
    repeat' split
    all_goals rfl
  have hq1 : (pstep s (.pclose p)).1.px[p]? = some q := by rw [hpx]; exact hq
  have hnil : tasksOf (pstep s (.pclose p)).1 p .cleanup = [] := by
    apply List.filter_eq_nil_iff.2
    intro t _
    simp only [beq_iff_eq]
    exact h1.2.2.1 t
  have h2 := (pclose_facts (pinv_step h (.pclose p)) p q hq1 hc).1
  rw [hnil] at h2
  exact h2

/-- A RealizeDescriptions call that ends in an error keeps no handle: the closures that had
    succeeded are closed by the call itself, all of them are given up. -/
theorem failed_realize_keeps_no_handle (ops : List POp) (p : Nat) (c : Call)
    (hfin : c.started = c.descs.length ∧
      (tasksOf (Sm.run pstep pinit ops) p .call).all (isDone (Sm.run pstep pinit ops).f.a) = true)
    (hfail : (tasksOf (Sm.run pstep pinit ops) p .call).any (isFailed (Sm.run pstep pinit ops).f.a) = true)
    (t : Nat) (ht : (Sm.run pstep pinit ops).own t = some (p, .call)) :
    (finishCall true (Sm.run pstep pinit ops) p c).2 = none ∧
    isHolding (finishCall true (Sm.run pstep pinit ops) p c).1.f.a t = false ∧
    (finishCall true (Sm.run pstep pinit ops) p c).1.own t = none :=
  failed_call_keeps_no_handle (preachable_pinv ops) p c hfin hfail t ht

/-- No handle is ever dropped from a cleanup list without being closed, and every handle in
    a cleanup list is held (nobody else has closed it). -/
theorem proxy_never_drops_a_handle (ops : List POp) :
    (Sm.run pstep pinit ops).lost = [] ∧
    ∀ t p, (Sm.run pstep pinit ops).own t = some (p, .cleanup) →
      isHolding (Sm.run pstep pinit ops).f.a t = true :=
  ⟨(preachable_pinv ops).noLost, (preachable_pinv ops).cleanupHolding⟩

/-- False of the code before fix 8f18b449: a second RealizeDescriptions on the same proxy
    overwrote p.cleanup. After Realize, Realize, Close the first layer is still referenced
    (count 1, file open, arena entry), belongs to nobody and can be closed by nobody; on the
    repaired machine the same history ends clean. -/
theorem second_realize_dropped_the_first_handles_counterexample :
    let b : Op → POp := fun o => .base (.base o)
    let ops : List POp := [.pnew, .realize 0 1 [0], b (.enter 0), b (.fload 0 true), b (.fnet 0 true),
      b (.fstore 0), b (.fend 0), b (.ref 0), b (.val 0), b (.init 0 true),
      .realize 0 1 [0], b (.enter 1), b (.fload 0 true), b (.fend 0), b (.ref 1), b (.val 1), b (.init 1 true),
      .pclose 0]
    ((Sm.run pstepOld pinit ops).lost = [0] ∧
      (Sm.run pstepOld pinit ops).f.a.tasks[0]? = some (.holding 0 0) ∧
      (Sm.run pstepOld pinit ops).own 0 = none ∧ (Sm.run pstepOld pinit ops).f.a.arena 0 = some 0 ∧
      ((Sm.run pstepOld pinit ops).f.a.rc 0).count = 1 ∧
      ((Sm.run pstepOld pinit ops).f.a.rc 0).fileOpen = true) ∧
    ((Sm.run pstep pinit ops).f.a.tasks = [.closed, .closed] ∧ (Sm.run pstep pinit ops).f.a.arena 0 = none ∧
      counts (Sm.run pstep pinit ops).f.tab = (0, 0, 0)) ∧
    -- and a second Close ran Layer.Close again (panic); now it finds nothing to do
    (Sm.trace pstepOld pinit (ops ++ [.pclose 0])).getLast? = some .panic ∧
    (Sm.trace pstep pinit (ops ++ [.pclose 0])).getLast? = some (.closed 0) := by
  decide

/-- "Once all users have closed": when every task was started by some FetchProxy, no proxy owns
    a task any more (every call has ended, every proxy with handles has been Closed) and no
    flight is in progress, the arena map is empty, every file is closed, every count is zero
    and the arena code owns no descriptor.  **Partial**: `orphans = []`, the hypothesis of
    `quiescent_clean_partial` (finding orphan-after-cancel). -/
theorem all_proxies_closed_clean_partial (ops : List POp)
    (hown : ∀ t, (Sm.run pstep pinit ops).own t = none)
    (husers : ∀ t, t < (Sm.run pstep pinit ops).f.a.tasks.length → (Sm.run pstep pinit ops).wasOwned t = true)
    (hfl : ∀ k, (Sm.run pstep pinit ops).f.a.flight k = none)
    (ho : (Sm.run pstep pinit ops).f.a.orphans = []) :
    (∀ k, (Sm.run pstep pinit ops).f.a.arena k = none) ∧
    (∀ r, ((Sm.run pstep pinit ops).f.a.rc r).fileOpen = false) ∧
    (∀ r, ((Sm.run pstep pinit ops).f.a.rc r).count = 0) ∧
    (∀ n e, look (Sm.run pstep pinit ops).f.tab n = some e → e.owner = .ext) := by
  have hp := preachable_pinv ops
  have hq : Quiescent (Sm.run pstep pinit ops).f.a := by
    refine ⟨?_, hfl, hp.finv.inv.noLeak⟩
    intro p hm
    obtain ⟨t, hlt, ht⟩ := List.getElem_of_mem hm
    have hover := hp.released t (husers t hlt) (hown t)
    have hget : (Sm.run pstep pinit ops).f.a.tasks[t]? = some p := by
      rw [List.getElem?_eq_getElem hlt, ht]
    rcases hover with h | h
    · rw [hget] at h; exact Or.inl (Option.some.inj h)
    · rw [hget] at h; exact Or.inr (Option.some.inj h)
  obtain ⟨h1, h2, h3⟩ := quiescent_facts hp.finv.inv hq ho
  exact ⟨h1, h2, h3, quiescent_no_descriptors hp.finv hq ho⟩

end ClairModel.Props.C10
