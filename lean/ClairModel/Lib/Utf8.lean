/-
  UTF-8 as Go reads it (`for _, r := range s`, `utf8.DecodeRune`): every
  ill-formed byte decodes to U+FFFD and advances by one byte; overlong forms,
  surrogates and values above U+10FFFF are ill-formed.  Core Lean only.
-/
namespace ClairModel.Utf8

def runeError : Char := Char.ofNat 0xFFFD

def isCont (b : Nat) : Bool := 0x80 ≤ b && b ≤ 0xBF

/-- For a leading byte: (size, lowest and highest value accepted for the second byte);
    `none` = not a leading byte of a multi-byte form. -/
def lead (b : Nat) : Option (Nat × Nat × Nat) :=
  if 0xC2 ≤ b && b ≤ 0xDF then some (2, 0x80, 0xBF)
  else if b = 0xE0 then some (3, 0xA0, 0xBF)
  else if (0xE1 ≤ b && b ≤ 0xEC) || b = 0xEE || b = 0xEF then some (3, 0x80, 0xBF)
  else if b = 0xED then some (3, 0x80, 0x9F)
  else if b = 0xF0 then some (4, 0x90, 0xBF)
  else if 0xF1 ≤ b && b ≤ 0xF3 then some (4, 0x80, 0xBF)
  else if b = 0xF4 then some (4, 0x80, 0x8F)
  else none

/-- `utf8.DecodeRune` at the head of a non-empty byte list: the rune and its width. -/
def decodeRune (b0 : Nat) (rest : List Nat) : Char × Nat :=
  if b0 < 0x80 then (Char.ofNat b0, 1) else
  match lead b0 with
  | none => (runeError, 1)
  | some (2, lo, hi) =>
    (match rest with
     | b1 :: _ => if lo ≤ b1 && b1 ≤ hi then (Char.ofNat ((b0 % 32) * 64 + b1 % 64), 2) else (runeError, 1)
     | _ => (runeError, 1))
  | some (3, lo, hi) =>
    (match rest with
     | b1 :: b2 :: _ =>
       if lo ≤ b1 && b1 ≤ hi && isCont b2 then (Char.ofNat ((b0 % 16) * 4096 + (b1 % 64) * 64 + b2 % 64), 3)
       else (runeError, 1)
     | _ => (runeError, 1))
  | some (_, lo, hi) =>
    (match rest with
     | b1 :: b2 :: b3 :: _ =>
       if lo ≤ b1 && b1 ≤ hi && isCont b2 && isCont b3 then
         (Char.ofNat ((b0 % 8) * 262144 + (b1 % 64) * 4096 + (b2 % 64) * 64 + b3 % 64), 4)
       else (runeError, 1)
     | _ => (runeError, 1))

/-- The runes of a byte string, as `range` yields them (`fuel` ≥ length). -/
def decodeAux : Nat → List Nat → List Char
  | 0, _ => []
  | _, [] => []
  | fuel + 1, b0 :: rest => (decodeRune b0 rest).1 :: decodeAux fuel (rest.drop ((decodeRune b0 rest).2 - 1))

def decode (bs : List Nat) : List Char := decodeAux bs.length bs

/-- `utf8.AppendRune`. -/
def encode (c : Char) : List Nat :=
  let n := c.toNat
  if n < 0x80 then [n]
  else if n < 0x800 then [0xC0 + n / 64, 0x80 + n % 64]
  else if n < 0x10000 then [0xE0 + n / 4096, 0x80 + (n / 64) % 64, 0x80 + n % 64]
  else [0xF0 + n / 262144, 0x80 + (n / 4096) % 64, 0x80 + (n / 64) % 64, 0x80 + n % 64]

def encodeAll (cs : List Char) : List Nat := cs.flatMap encode

/-- Is `n` inside one of the closed ranges? -/
def inRanges (rs : List (Nat × Nat)) (n : Nat) : Bool := rs.any fun r => r.1 ≤ n && n ≤ r.2

/-- ASCII text decodes to itself, one rune per byte. -/
theorem decodeAux_ascii : ∀ (fuel : Nat) (bs : List Nat), bs.length ≤ fuel → (∀ b ∈ bs, b < 0x80) →
    decodeAux fuel bs = bs.map Char.ofNat
  | 0, [], _, _ => rfl
  | 0, _ :: _, h, _ => by simp at h
  | _ + 1, [], _, _ => rfl
  | fuel + 1, b0 :: rest, h, ha => by
    have h0 : b0 < 0x80 := ha b0 List.mem_cons_self
    have ih := decodeAux_ascii fuel rest (by simp at h; omega) (fun b hb => ha b (List.mem_cons_of_mem _ hb))
    simp [decodeAux, decodeRune, h0, ih]

theorem decode_ascii (bs : List Nat) (h : ∀ b ∈ bs, b < 0x80) : decode bs = bs.map Char.ofNat :=
  decodeAux_ascii bs.length bs (Nat.le_refl _) h

end ClairModel.Utf8
