/-
  Additions to `Lib/Order` used by the version-comparator models of C03:
  product of two comparisons (`prodCmp`, the "compare epochs, then versions,
  then releases" idiom) and a few facts about `Ordering`.  Core Lean only.
-/
import ClairModel.Lib.Order

namespace ClairModel.OrderC03
open ClairModel.Order

variable {α β : Type}

/-- Compare pairs: first components decide, second break ties. -/
def prodCmp (c₁ : α → α → Ordering) (c₂ : β → β → Ordering) (x y : α × β) : Ordering :=
  (c₁ x.1 y.1).then (c₂ x.2 y.2)

theorem prodCmp_totalPre {c₁ : α → α → Ordering} {c₂ : β → β → Ordering}
    (h₁ : TotalPre c₁) (h₂ : TotalPre c₂) : TotalPre (prodCmp c₁ c₂) where
  refl a := by simp [prodCmp, h₁.refl, h₂.refl, Ordering.then]
  swap a b := by simp only [prodCmp, swap_then, h₁.swap a.1 b.1, h₂.swap a.2 b.2]
  trans a b d := by
    simp only [prodCmp]
    exact then_trans h₁ (h₂.trans a.2 b.2 d.2)

theorem then_eq_eq {x y : Ordering} : x.then y = .eq ↔ x = .eq ∧ y = .eq := by
  cases x <;> cases y <;> simp [Ordering.then]

theorem then_eq_lt {x y : Ordering} : x.then y = .lt ↔ x = .lt ∨ (x = .eq ∧ y = .lt) := by
  cases x <;> cases y <;> simp [Ordering.then]

theorem then_eq_gt {x y : Ordering} : x.then y = .gt ↔ x = .gt ∨ (x = .eq ∧ y = .gt) := by
  cases x <;> cases y <;> simp [Ordering.then]

theorem natCmp_lt {a b : Nat} : natCmp a b = .lt ↔ a < b := by
  unfold natCmp; by_cases h₁ : a < b <;> by_cases h₂ : a = b <;> simp [*]

theorem natCmp_gt {a b : Nat} : natCmp a b = .gt ↔ b < a := by
  unfold natCmp; by_cases h₁ : a < b <;> by_cases h₂ : a = b <;> simp [*] <;> omega

theorem intCmp_gt {a b : Int} : intCmp a b = .gt ↔ b < a := by
  unfold intCmp; by_cases h₁ : a < b <;> by_cases h₂ : a = b <;> simp [*] <;> omega

/-- Downward closure: whatever is strictly below `f` stays so for anything not above it. -/
theorem lt_down {c : α → α → Ordering} (h : TotalPre c) {a a' f : α}
    (hlt : c a f = .lt) (hle : c a' a ≠ .gt) : c a' f = .lt :=
  h.lt_of_le_of_lt hle hlt

theorem le_down {c : α → α → Ordering} (h : TotalPre c) {a a' f : α}
    (hle₁ : c a f ≠ .gt) (hle : c a' a ≠ .gt) : c a' f ≠ .gt :=
  h.trans a' a f hle hle₁

/-- `x ≤ y` is the same as `¬ (y < x)`. -/
theorem not_gt_iff {c : α → α → Ordering} (h : TotalPre c) (a b : α) :
    c a b ≠ .gt ↔ c b a ≠ .lt := by
  rw [h.swap a b]; cases c a b <;> simp [Ordering.swap]

end ClairModel.OrderC03
