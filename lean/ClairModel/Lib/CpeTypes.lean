/-
  Vocabulary shared by the regenerated facts `Gen/Cpe.lean` and the CPE model
  (`Model/Cpe.lean`): value kinds, attribute relations and the outcome of one
  cell of the attribute comparison table.  Core Lean only.
-/
namespace ClairModel.CpeTypes

/-- `cpe.ValueKind` (toolkit/types/cpe/wfn.go). -/
inductive Kind where
  | unset | any | na | set
  deriving DecidableEq, Repr, Inhabited

/-- `cpe.Relation` (toolkit/types/cpe/match.go). -/
inductive Rel where
  | invalid | superset | subset | equal | disjoint
  deriving DecidableEq, Repr, Inhabited

/-- What `cpe.Compare` assigns to one attribute for a given combination of
    (source kind, source has wildcard, target kind, target has wildcard):
    a constant, or a value depending on `patCompare(src, tgt)`, or on
    `strings.EqualFold(src, tgt)`. -/
inductive Out where
  | rel (r : Rel)
  | pat (ifTrue ifFalse : Rel)
  | fold (ifTrue ifFalse : Rel)
  deriving DecidableEq, Repr, Inhabited

/-- One row of the extracted comparison table. -/
structure Row where
  srcKind : Kind
  srcWild : Bool
  tgtKind : Kind
  tgtWild : Bool
  out : Out
  deriving DecidableEq, Repr

end ClairModel.CpeTypes
