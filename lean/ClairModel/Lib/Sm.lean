/-
  Generic state-machine vocabulary: running a step function over an operation
  list, the produced output trace, and the induction principle that lifts a
  one-step invariant to every reachable state.  Core Lean only.
-/
namespace ClairModel.Sm

variable {σ ι ο : Type}

/-- State after the operations `ops`, oldest first. -/
def run (step : σ → ι → σ × ο) (s : σ) : List ι → σ
  | [] => s
  | op :: ops => run step (step s op).1 ops

/-- Outputs produced along the way. -/
def trace (step : σ → ι → σ × ο) (s : σ) : List ι → List ο
  | [] => []
  | op :: ops => (step s op).2 :: trace step (step s op).1 ops

@[simp] theorem run_nil (step : σ → ι → σ × ο) (s : σ) : run step s [] = s := rfl
@[simp] theorem run_cons (step : σ → ι → σ × ο) (s : σ) (op : ι) (ops : List ι) :
    run step s (op :: ops) = run step (step s op).1 ops := rfl

theorem run_append (step : σ → ι → σ × ο) (s : σ) (a b : List ι) :
    run step s (a ++ b) = run step (run step s a) b := by
  induction a generalizing s with
  | nil => rfl
  | cons x xs ih => simp [ih]

/-- A predicate preserved by every step holds in every reachable state. -/
theorem invariant_run {step : σ → ι → σ × ο} {Inv : σ → Prop}
    (hstep : ∀ s op, Inv s → Inv (step s op).1) :
    ∀ (ops : List ι) (s : σ), Inv s → Inv (run step s ops) := by
  intro ops
  induction ops with
  | nil => intro s h; exact h
  | cons op ops ih => intro s h; exact ih _ (hstep s op h)

/-- `Reachable step init s`: `s` is the state after some operation list. -/
def Reachable (step : σ → ι → σ × ο) (init s : σ) : Prop := ∃ ops, run step init ops = s

theorem invariant_reachable {step : σ → ι → σ × ο} {Inv : σ → Prop} {init : σ}
    (h0 : Inv init) (hstep : ∀ s op, Inv s → Inv (step s op).1) :
    ∀ s, Reachable step init s → Inv s := by
  rintro s ⟨ops, rfl⟩
  exact invariant_run hstep ops init h0

end ClairModel.Sm
