/-
  Total preorders given by a three-way comparison `c : α → α → Ordering`, and
  the three ways the version schemes build one from another: lexicographic
  comparison of lists (`lexCmp`), lexicographic comparison with the shorter
  list padded (`lexCmpPad`, the RubyGems / Maven idiom), and comparison
  through a key (`keyCmp`).  Core Lean only.
-/
namespace ClairModel.Order

variable {α β : Type}

/-- `c` is a total preorder presented as a three-way comparison: reflexive,
    `c b a` is the mirror image of `c a b`, and `≤` (`≠ gt`) is transitive. -/
structure TotalPre (c : α → α → Ordering) : Prop where
  refl : ∀ a, c a a = .eq
  swap : ∀ a b, c b a = (c a b).swap
  trans : ∀ a b d, c a b ≠ .gt → c b d ≠ .gt → c a d ≠ .gt

namespace TotalPre
variable {c : α → α → Ordering}

theorem ge_trans (h : TotalPre c) {a b d : α} (h₁ : c a b ≠ .lt) (h₂ : c b d ≠ .lt) : c a d ≠ .lt := by
  have e₁ := h.swap a b; have e₂ := h.swap b d; have e₃ := h.swap a d
  have := h.trans d b a (by rw [e₂]; cases hh : c b d <;> simp_all [Ordering.swap])
    (by rw [e₁]; cases hh : c a b <;> simp_all [Ordering.swap])
  rw [e₃] at this
  cases hh : c a d <;> simp_all [Ordering.swap]

/-- Equivalence is transitive. -/
theorem eq_trans (h : TotalPre c) {a b d : α} (h₁ : c a b = .eq) (h₂ : c b d = .eq) : c a d = .eq := by
  have l := h.trans a b d (by simp [h₁]) (by simp [h₂])
  have g := h.ge_trans (a := a) (b := b) (d := d) (by simp [h₁]) (by simp [h₂])
  cases hh : c a d <;> simp_all

theorem eq_symm (h : TotalPre c) {a b : α} (h₁ : c a b = .eq) : c b a = .eq := by
  rw [h.swap, h₁]; rfl

theorem lt_of_lt_of_le (h : TotalPre c) {a b d : α} (h₁ : c a b = .lt) (h₂ : c b d ≠ .gt) : c a d = .lt := by
  have l := h.trans a b d (by simp [h₁]) h₂
  cases hh : c a d with
  | lt => rfl
  | gt => exact absurd hh l
  | eq =>
    -- d ≤ a and a ≤ b... then b ≤ d ≤ a gives b ≤ a, contradicting a < b
    have hda : c d a ≠ .gt := by rw [h.swap, hh]; simp [Ordering.swap]
    have hba := h.trans b d a h₂ hda
    rw [h.swap, h₁] at hba
    simp [Ordering.swap] at hba

theorem lt_of_le_of_lt (h : TotalPre c) {a b d : α} (h₁ : c a b ≠ .gt) (h₂ : c b d = .lt) : c a d = .lt := by
  have l := h.trans a b d h₁ (by simp [h₂])
  cases hh : c a d with
  | lt => rfl
  | gt => exact absurd hh l
  | eq =>
    have hda : c d a ≠ .gt := by rw [h.swap, hh]; simp [Ordering.swap]
    have hdb := h.trans d a b hda h₁
    rw [h.swap, h₂] at hdb
    simp [Ordering.swap] at hdb

theorem lt_trans (h : TotalPre c) {a b d : α} (h₁ : c a b = .lt) (h₂ : c b d = .lt) : c a d = .lt :=
  h.lt_of_lt_of_le h₁ (by simp [h₂])

theorem gt_trans (h : TotalPre c) {a b d : α} (h₁ : c a b = .gt) (h₂ : c b d = .gt) : c a d = .gt := by
  have e₁ : c b a = .lt := by rw [h.swap, h₁]; rfl
  have e₂ : c d b = .lt := by rw [h.swap, h₂]; rfl
  have := h.lt_trans e₂ e₁
  rw [h.swap, this]; rfl

/-- Equal elements are interchangeable on the left … -/
theorem congr_left (h : TotalPre c) {a b : α} (hab : c a b = .eq) (x : α) : c a x = c b x := by
  have hba := h.eq_symm hab
  cases hbx : c b x with
  | lt => exact h.lt_of_le_of_lt (by simp [hab]) hbx
  | eq => exact h.eq_trans hab hbx
  | gt =>
    have : c x b = .lt := by rw [h.swap, hbx]; rfl
    have := h.lt_of_lt_of_le this (b := b) (d := a) (by simp [hba])
    rw [h.swap, this]; rfl

/-- … and on the right. -/
theorem congr_right (h : TotalPre c) {a b : α} (hab : c a b = .eq) (x : α) : c x a = c x b := by
  rw [h.swap a x, h.swap b x, h.congr_left hab x]

/-- Antisymmetry in the three-way form: `a ≤ b` and `b ≤ a` give `a ≈ b`. -/
theorem antisymm (h : TotalPre c) {a b : α} (h₁ : c a b ≠ .gt) (h₂ : c b a ≠ .gt) : c a b = .eq := by
  rw [h.swap] at h₂
  cases hh : c a b <;> simp_all [Ordering.swap]

end TotalPre

/-! ### Ordering.then -/

/-- The step of every lexicographic transitivity proof: heads compared by a
    total preorder, tails by anything whose `≤` chains. -/
theorem then_trans {c : α → α → Ordering} (h : TotalPre c) {a b d : α} {y₁ y₂ y₃ : Ordering}
    (hy : y₁ ≠ .gt → y₂ ≠ .gt → y₃ ≠ .gt)
    (h₁ : (c a b).then y₁ ≠ .gt) (h₂ : (c b d).then y₂ ≠ .gt) : (c a d).then y₃ ≠ .gt := by
  cases hab : c a b with
  | gt => simp [hab, Ordering.then] at h₁
  | lt =>
    have hbd : c b d ≠ .gt := by
      intro hh; simp [hh, Ordering.then] at h₂
    simp [h.lt_of_lt_of_le hab hbd, Ordering.then]
  | eq =>
    cases hbd : c b d with
    | gt => simp [hbd, Ordering.then] at h₂
    | lt =>
      have hle : c a b ≠ .gt := by simp [hab]
      simp [h.lt_of_le_of_lt hle hbd, Ordering.then]
    | eq =>
      simp only [hab, hbd, Ordering.then] at h₁ h₂
      simp only [h.eq_trans hab hbd, Ordering.then]
      exact hy h₁ h₂

theorem swap_then (x y : Ordering) : (x.then y).swap = x.swap.then y.swap := by
  cases x <;> rfl

/-! ### The same facts for a comparison that is only known to be transitive on
   some triples (used where a scheme is a preorder on a fragment only) -/

section Local
variable {f : α → α → Ordering}

theorem lt_of_lt_of_le_local (sw : ∀ x y, f y x = (f x y).swap) {a b d : α}
    (t₁ : f a b ≠ .gt → f b d ≠ .gt → f a d ≠ .gt)
    (t₂ : f b d ≠ .gt → f d a ≠ .gt → f b a ≠ .gt)
    (h₁ : f a b = .lt) (h₂ : f b d ≠ .gt) : f a d = .lt := by
  have l := t₁ (by simp [h₁]) h₂
  cases hh : f a d with
  | lt => rfl
  | gt => exact absurd hh l
  | eq =>
    have hda : f d a ≠ .gt := by rw [sw, hh]; simp [Ordering.swap]
    have hba := t₂ h₂ hda
    rw [sw, h₁] at hba
    simp [Ordering.swap] at hba

theorem lt_of_le_of_lt_local (sw : ∀ x y, f y x = (f x y).swap) {a b d : α}
    (t₁ : f a b ≠ .gt → f b d ≠ .gt → f a d ≠ .gt)
    (t₂ : f d a ≠ .gt → f a b ≠ .gt → f d b ≠ .gt)
    (h₁ : f a b ≠ .gt) (h₂ : f b d = .lt) : f a d = .lt := by
  have l := t₁ h₁ (by simp [h₂])
  cases hh : f a d with
  | lt => rfl
  | gt => exact absurd hh l
  | eq =>
    have hda : f d a ≠ .gt := by rw [sw, hh]; simp [Ordering.swap]
    have hdb := t₂ hda h₁
    rw [sw, h₂] at hdb
    simp [Ordering.swap] at hdb

theorem eq_trans_local (sw : ∀ x y, f y x = (f x y).swap) {a b d : α}
    (t₁ : f a b ≠ .gt → f b d ≠ .gt → f a d ≠ .gt)
    (t₂ : f d b ≠ .gt → f b a ≠ .gt → f d a ≠ .gt)
    (h₁ : f a b = .eq) (h₂ : f b d = .eq) : f a d = .eq := by
  have l := t₁ (by simp [h₁]) (by simp [h₂])
  have g := t₂ (by rw [sw, h₂]; simp [Ordering.swap]) (by rw [sw, h₁]; simp [Ordering.swap])
  rw [sw] at g
  cases hh : f a d with
  | eq => rfl
  | lt => rw [hh] at g; simp [Ordering.swap] at g
  | gt => exact absurd hh l

/-- `then_trans` with the three head facts supplied directly. -/
theorem then_trans_local {x₁ x₂ x₃ y₁ y₂ y₃ : Ordering}
    (s₁ : x₁ = .lt → x₂ ≠ .gt → x₃ = .lt) (s₂ : x₁ ≠ .gt → x₂ = .lt → x₃ = .lt)
    (s₃ : x₁ = .eq → x₂ = .eq → x₃ = .eq) (hy : y₁ ≠ .gt → y₂ ≠ .gt → y₃ ≠ .gt)
    (h₁ : x₁.then y₁ ≠ .gt) (h₂ : x₂.then y₂ ≠ .gt) : x₃.then y₃ ≠ .gt := by
  cases e₁ : x₁ with
  | gt => simp [e₁, Ordering.then] at h₁
  | lt =>
    have : x₂ ≠ .gt := by intro hh; simp [hh, Ordering.then] at h₂
    simp [s₁ e₁ this, Ordering.then]
  | eq =>
    cases e₂ : x₂ with
    | gt => simp [e₂, Ordering.then] at h₂
    | lt => simp [s₂ (by simp [e₁]) e₂, Ordering.then]
    | eq =>
      simp only [e₁, e₂, Ordering.then] at h₁ h₂
      simp only [s₃ e₁ e₂, Ordering.then]
      exact hy h₁ h₂

end Local

/-! ### Comparison through a key -/

/-- Compare two values by comparing their keys. -/
def keyCmp (c : β → β → Ordering) (key : α → β) (a b : α) : Ordering := c (key a) (key b)

theorem keyCmp_totalPre {c : β → β → Ordering} (h : TotalPre c) (key : α → β) : TotalPre (keyCmp c key) where
  refl _ := h.refl _
  swap _ _ := h.swap _ _
  trans _ _ _ := h.trans _ _ _

/-! ### First by one comparison, then by another -/

/-- Decide by `c₁`; where it says `eq`, by `c₂`. -/
def thenCmp (c₁ c₂ : α → α → Ordering) (a b : α) : Ordering := (c₁ a b).then (c₂ a b)

theorem thenCmp_totalPre {c₁ c₂ : α → α → Ordering} (h₁ : TotalPre c₁) (h₂ : TotalPre c₂) :
    TotalPre (thenCmp c₁ c₂) where
  refl a := by simp [thenCmp, h₁.refl, h₂.refl, Ordering.then]
  swap a b := by simp only [thenCmp, swap_then, h₁.swap a b, h₂.swap a b]
  trans a b d := by
    unfold thenCmp
    exact then_trans h₁ (h₂.trans a b d)

/-! ### Lexicographic comparison of lists (a proper prefix is smaller) -/

def lexCmp (c : α → α → Ordering) : List α → List α → Ordering
  | [], [] => .eq
  | [], _ :: _ => .lt
  | _ :: _, [] => .gt
  | a :: as, b :: bs => (c a b).then (lexCmp c as bs)

theorem lexCmp_refl {c : α → α → Ordering} (hr : ∀ a, c a a = .eq) : ∀ l, lexCmp c l l = .eq
  | [] => rfl
  | a :: as => by simp [lexCmp, hr, lexCmp_refl hr as, Ordering.then]

theorem lexCmp_swap {c : α → α → Ordering} (hs : ∀ a b, c b a = (c a b).swap) :
    ∀ l m, lexCmp c m l = (lexCmp c l m).swap
  | [], [] => rfl
  | [], _ :: _ => rfl
  | _ :: _, [] => rfl
  | a :: as, b :: bs => by
    simp only [lexCmp, swap_then, hs a b, lexCmp_swap hs as bs]

theorem lexCmp_trans {c : α → α → Ordering} (h : TotalPre c) :
    ∀ l m n, lexCmp c l m ≠ .gt → lexCmp c m n ≠ .gt → lexCmp c l n ≠ .gt
  | [], [], _ => fun _ h₂ => h₂
  | [], _ :: _, [] => fun _ h₂ => by simp [lexCmp] at h₂
  | [], _ :: _, _ :: _ => fun _ _ => by simp [lexCmp]
  | _ :: _, [], _ => fun h₁ _ => by simp [lexCmp] at h₁
  | _ :: _, _ :: _, [] => fun _ h₂ => by simp [lexCmp] at h₂
  | a :: as, b :: bs, d :: ds => fun h₁ h₂ => by
    simp only [lexCmp] at h₁ h₂ ⊢
    exact then_trans h (lexCmp_trans h as bs ds) h₁ h₂

theorem lexCmp_totalPre {c : α → α → Ordering} (h : TotalPre c) : TotalPre (lexCmp c) where
  refl := lexCmp_refl h.refl
  swap := lexCmp_swap h.swap
  trans := lexCmp_trans h

/-- A common prefix (up to `c`-equality with itself) cancels. -/
theorem lexCmp_append_left {c : α → α → Ordering} (hr : ∀ a, c a a = .eq) (p l m : List α) :
    lexCmp c (p ++ l) (p ++ m) = lexCmp c l m := by
  induction p with
  | nil => rfl
  | cons x xs ih => simp [lexCmp, hr, ih, Ordering.then]

/-- `lexCmp` is `eq` exactly when the lists are pointwise `c`-equal and of the same length. -/
theorem lexCmp_eq_length {c : α → α → Ordering} : ∀ l m, lexCmp c l m = .eq → l.length = m.length
  | [], [], _ => rfl
  | [], _ :: _, h => by simp [lexCmp] at h
  | _ :: _, [], h => by simp [lexCmp] at h
  | a :: as, b :: bs, h => by
    simp only [lexCmp] at h
    cases hab : c a b <;> simp [hab, Ordering.then] at h
    simp [lexCmp_eq_length as bs h]

/-! ### Lexicographic comparison with the shorter list padded -/

/-- `l` against a list that has ended: every element against `pad`. -/
def cmpPadR (c : α → α → Ordering) (pad : α) : List α → Ordering
  | [] => .eq
  | a :: as => (c a pad).then (cmpPadR c pad as)

/-- A list that has ended against `m`. -/
def cmpPadL (c : α → α → Ordering) (pad : α) : List α → Ordering
  | [] => .eq
  | b :: bs => (c pad b).then (cmpPadL c pad bs)

/-- Compare position by position; where one list has ended its missing
    elements count as `pad`. -/
def lexCmpPad (c : α → α → Ordering) (pad : α) : List α → List α → Ordering
  | [], m => cmpPadL c pad m
  | l@(_ :: _), [] => cmpPadR c pad l
  | a :: as, b :: bs => (c a b).then (lexCmpPad c pad as bs)

theorem lexCmpPad_nil_right (c : α → α → Ordering) (pad : α) (l : List α) :
    lexCmpPad c pad l [] = cmpPadR c pad l := by
  cases l <;> simp [lexCmpPad, cmpPadR, cmpPadL]

theorem lexCmpPad_nil_left (c : α → α → Ordering) (pad : α) (m : List α) :
    lexCmpPad c pad [] m = cmpPadL c pad m := by
  simp [lexCmpPad]

/-- Head of a list, `pad` when it has ended. -/
def hdPad (pad : α) : List α → α
  | [] => pad
  | a :: _ => a

/-- Uniform unfolding: the padded comparison is head-then-tail on the padded
    views (also when both lists have ended, because `c pad pad = eq`). -/
theorem lexCmpPad_unfold {c : α → α → Ordering} (pad : α) (hr : c pad pad = .eq) (l m : List α) :
    lexCmpPad c pad l m = (c (hdPad pad l) (hdPad pad m)).then (lexCmpPad c pad l.tail m.tail) := by
  cases l with
  | nil =>
    cases m with
    | nil => simp [lexCmpPad, cmpPadL, hdPad, hr, Ordering.then]
    | cons b bs => simp [lexCmpPad, cmpPadL, hdPad]
  | cons a as =>
    cases m with
    | nil => simp [lexCmpPad, cmpPadR, hdPad, lexCmpPad_nil_right]
    | cons b bs => simp [lexCmpPad, hdPad]

theorem lexCmpPad_refl {c : α → α → Ordering} (pad : α) (hr : ∀ a, c a a = .eq) : ∀ l, lexCmpPad c pad l l = .eq
  | [] => by simp [lexCmpPad, cmpPadL]
  | a :: as => by simp [lexCmpPad, hr, lexCmpPad_refl pad hr as, Ordering.then]

theorem cmpPadL_swap {c : α → α → Ordering} (pad : α) (hs : ∀ a b, c b a = (c a b).swap) :
    ∀ l, cmpPadL c pad l = (cmpPadR c pad l).swap
  | [] => rfl
  | a :: as => by simp only [cmpPadL, cmpPadR, swap_then, hs a pad, cmpPadL_swap pad hs as]

theorem lexCmpPad_swap {c : α → α → Ordering} (pad : α) (hs : ∀ a b, c b a = (c a b).swap) :
    ∀ l m, lexCmpPad c pad m l = (lexCmpPad c pad l m).swap
  | [], m => by
    rw [lexCmpPad_nil_right, lexCmpPad_nil_left, cmpPadL_swap pad hs]; cases cmpPadR c pad m <;> rfl
  | a :: as, [] => by
    rw [lexCmpPad_nil_right, lexCmpPad_nil_left, cmpPadL_swap pad hs]
  | a :: as, b :: bs => by simp only [lexCmpPad, swap_then, hs a b, lexCmpPad_swap pad hs as bs]

theorem lexCmpPad_trans {c : α → α → Ordering} (pad : α) (h : TotalPre c) :
    ∀ (k : Nat) (l m n : List α), l.length + m.length + n.length ≤ k →
      lexCmpPad c pad l m ≠ .gt → lexCmpPad c pad m n ≠ .gt → lexCmpPad c pad l n ≠ .gt
  | 0, l, m, n, hk => by
    have hl : l = [] := List.eq_nil_of_length_eq_zero (by omega)
    have hm : m = [] := List.eq_nil_of_length_eq_zero (by omega)
    have hn : n = [] := List.eq_nil_of_length_eq_zero (by omega)
    subst hl hm hn
    simp [lexCmpPad, cmpPadL]
  | k + 1, l, m, n, hk => by
    by_cases hall : l = [] ∧ m = [] ∧ n = []
    · obtain ⟨rfl, rfl, rfl⟩ := hall
      simp [lexCmpPad, cmpPadL]
    · rw [lexCmpPad_unfold pad (h.refl pad) l m, lexCmpPad_unfold pad (h.refl pad) m n,
        lexCmpPad_unfold pad (h.refl pad) l n]
      refine then_trans h (lexCmpPad_trans pad h k l.tail m.tail n.tail ?_)
      have : l.tail.length + m.tail.length + n.tail.length < l.length + m.length + n.length := by
        cases l <;> cases m <;> cases n <;> simp_all <;> omega
      omega

theorem lexCmpPad_totalPre {c : α → α → Ordering} (pad : α) (h : TotalPre c) : TotalPre (lexCmpPad c pad) where
  refl := lexCmpPad_refl pad h.refl
  swap := lexCmpPad_swap pad h.swap
  trans l m n := lexCmpPad_trans pad h _ l m n (Nat.le_refl _)

/-- Trailing `pad`-equal elements do not change the class. -/
theorem lexCmpPad_append_pad {c : α → α → Ordering} (pad : α) (h : TotalPre c) (z : α) (hz : c z pad = .eq) :
    ∀ l, lexCmpPad c pad (l ++ [z]) l = .eq
  | [] => by simp [lexCmpPad, cmpPadR, hz, Ordering.then]
  | a :: as => by simp [lexCmpPad, h.refl, lexCmpPad_append_pad pad h z hz as, Ordering.then]

/-! ### Ready-made instances -/

/-- Three-way comparison of natural numbers. -/
def natCmp (a b : Nat) : Ordering := if a < b then .lt else if a = b then .eq else .gt

theorem natCmp_totalPre : TotalPre natCmp where
  refl a := by simp [natCmp]
  swap a b := by
    unfold natCmp
    by_cases h₁ : a < b
    · have : ¬ b < a := by omega
      have : b ≠ a := by omega
      simp [*, Ordering.swap]
    · by_cases h₂ : a = b
      · subst h₂; simp [Ordering.swap]
      · have : b < a := by omega
        simp [*, Ordering.swap]
  trans a b d := by
    unfold natCmp
    intro h₁ h₂
    by_cases hab : a < b <;> by_cases hab' : a = b <;> by_cases hbd : b < d <;> by_cases hbd' : b = d <;>
      simp_all <;> (try omega)
    all_goals (split <;> simp_all <;> omega)

theorem natCmp_eq {a b : Nat} : natCmp a b = .eq ↔ a = b := by
  unfold natCmp; by_cases h₁ : a < b <;> by_cases h₂ : a = b <;> simp [*] <;> omega

theorem natCmp_ne_gt {a b : Nat} : natCmp a b ≠ .gt ↔ a ≤ b := by
  unfold natCmp; by_cases h₁ : a < b <;> by_cases h₂ : a = b <;> simp [*] <;> omega

theorem natCmp_swap_ne_gt {a b : Nat} : (natCmp a b).swap ≠ .gt ↔ b ≤ a := by
  unfold natCmp; by_cases h₁ : a < b <;> by_cases h₂ : a = b <;> simp [*, Ordering.swap] <;> omega

/-- Three-way comparison of integers. -/
def intCmp (a b : Int) : Ordering := if a < b then .lt else if a = b then .eq else .gt

theorem intCmp_totalPre : TotalPre intCmp where
  refl a := by simp [intCmp]
  swap a b := by
    unfold intCmp
    by_cases h₁ : a < b
    · have : ¬ b < a := by omega
      have : b ≠ a := by omega
      simp [*, Ordering.swap]
    · by_cases h₂ : a = b
      · subst h₂; simp [Ordering.swap]
      · have : b < a := by omega
        simp [*, Ordering.swap]
  trans a b d := by
    unfold intCmp
    intro h₁ h₂
    by_cases hab : a < b <;> by_cases hab' : a = b <;> by_cases hbd : b < d <;> by_cases hbd' : b = d <;>
      simp_all <;> (try omega)
    all_goals (split <;> simp_all <;> omega)

theorem intCmp_eq {a b : Int} : intCmp a b = .eq ↔ a = b := by
  unfold intCmp; by_cases h₁ : a < b <;> by_cases h₂ : a = b <;> simp [*] <;> omega

theorem intCmp_lt {a b : Int} : intCmp a b = .lt ↔ a < b := by
  unfold intCmp; by_cases h₁ : a < b <;> by_cases h₂ : a = b <;> simp [*]

/-- Byte-wise comparison of strings given as character lists (Go's
    `strings.Compare` on valid UTF-8: code-point order equals byte order). -/
def strCmp : List Char → List Char → Ordering := lexCmp (fun a b => natCmp a.toNat b.toNat)

theorem strCmp_totalPre : TotalPre strCmp :=
  lexCmp_totalPre (keyCmp_totalPre natCmp_totalPre Char.toNat)

theorem strCmp_eq : ∀ {l m : List Char}, strCmp l m = .eq ↔ l = m
  | [], [] => by simp [strCmp, lexCmp]
  | [], _ :: _ => by simp [strCmp, lexCmp]
  | _ :: _, [] => by simp [strCmp, lexCmp]
  | a :: as, b :: bs => by
    have ih := strCmp_eq (l := as) (m := bs)
    unfold strCmp at ih ⊢
    simp only [lexCmp]
    cases hab : natCmp a.toNat b.toNat with
    | lt =>
      have : a ≠ b := by intro e; subst e; simp [natCmp] at hab
      simp [Ordering.then, this]
    | gt =>
      have : a ≠ b := by intro e; subst e; simp [natCmp] at hab
      simp [Ordering.then, this]
    | eq =>
      have : a = b := Char.toNat_inj.1 (natCmp_eq.1 hab)
      simp [Ordering.then, this, ih]

/-- Render an `Ordering` the way the Go comparators return it. -/
def ordInt : Ordering → Int
  | .lt => -1
  | .eq => 0
  | .gt => 1

end ClairModel.Order
