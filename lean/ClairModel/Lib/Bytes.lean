/-
  Byte strings as `List Nat` (every element < 256 by construction in the
  drivers), with the handful of operations the codec models need:
  bytes.Index, split/join on a separator, decimal and hex rendering/parsing,
  and the round-trip lemmas about them.  Core Lean only.
-/
namespace ClairModel.Bytes

abbrev Bytes := List Nat

def ofString (s : String) : Bytes := s.toUTF8.toList.map (·.toNat)

/-! ### prefix test and bytes.Index -/

def isPrefix : Bytes → Bytes → Bool
  | [], _ => true
  | _ :: _, [] => false
  | a :: as, b :: bs => a == b && isPrefix as bs

/-- `bytes.Index(hay, needle)` with the offset of the first byte of `hay` being `i`. -/
def indexFrom (needle : Bytes) : Bytes → Nat → Option Nat
  | [], i => if needle.isEmpty then some i else none
  | c :: cs, i => if isPrefix needle (c :: cs) then some i else indexFrom needle cs (i + 1)

def index (hay needle : Bytes) : Option Nat := indexFrom needle hay 0

theorem isPrefix_length {a b : Bytes} (h : isPrefix a b = true) : a.length ≤ b.length := by
  induction a generalizing b with
  | nil => simp
  | cons x xs ih =>
    cases b with
    | nil => simp [isPrefix] at h
    | cons y ys =>
      simp only [isPrefix, Bool.and_eq_true] at h
      have := ih h.2
      simp only [List.length_cons]; omega

/-- An occurrence found at `j` lies inside the haystack. -/
theorem indexFrom_bound (needle : Bytes) (hay : Bytes) (i j : Nat)
    (h : indexFrom needle hay i = some j) : i ≤ j ∧ j + needle.length ≤ i + hay.length := by
  induction hay generalizing i with
  | nil =>
    simp only [indexFrom] at h
    split at h
    · rename_i he
      have : needle = [] := by cases needle <;> simp_all
      simp_all
    · cases h
  | cons c cs ih =>
    simp only [indexFrom] at h
    split at h
    · rename_i hp
      cases h
      have := isPrefix_length hp
      omega
    · have := ih (i + 1) h
      simp only [List.length_cons]; omega

theorem indexFrom_nil_needle (hay : Bytes) (i : Nat) : indexFrom [] hay i = some i := by
  cases hay <;> simp [indexFrom, isPrefix]

/-! ### split / join on one separator byte (bytes.Split with a 1-byte separator) -/

def splitOn (sep : Nat) : Bytes → List Bytes
  | [] => [[]]
  | c :: cs =>
    if c = sep then [] :: splitOn sep cs
    else match splitOn sep cs with
      | [] => [[c]]
      | p :: ps => (c :: p) :: ps

def joinWith (sep : Nat) : List Bytes → Bytes
  | [] => []
  | [p] => p
  | p :: q :: ps => p ++ sep :: joinWith sep (q :: ps)

theorem splitOn_ne_nil (sep : Nat) (s : Bytes) : splitOn sep s ≠ [] := by
  induction s with
  | nil => simp [splitOn]
  | cons c cs ih =>
    simp only [splitOn]
    split
    · simp
    · split <;> simp

theorem splitOn_no_sep (sep : Nat) (p : Bytes) (h : sep ∉ p) : splitOn sep p = [p] := by
  induction p with
  | nil => rfl
  | cons c cs ih =>
    simp only [List.mem_cons, not_or] at h
    have hc : ¬ c = sep := fun e => h.1 e.symm
    simp [splitOn, hc, ih h.2]

theorem splitOn_append_sep (sep : Nat) (p rest : Bytes) (h : sep ∉ p) :
    splitOn sep (p ++ sep :: rest) = p :: splitOn sep rest := by
  induction p with
  | nil => simp [splitOn]
  | cons c cs ih =>
    simp only [List.mem_cons, not_or] at h
    have hc : ¬ c = sep := fun e => h.1 e.symm
    simp [splitOn, hc, ih h.2]

/-- Splitting a joined list gives the parts back, provided no part contains
    the separator and there is at least one part. -/
theorem splitOn_joinWith (sep : Nat) (p : Bytes) (ps : List Bytes)
    (h : ∀ q ∈ p :: ps, sep ∉ q) : splitOn sep (joinWith sep (p :: ps)) = p :: ps := by
  induction ps generalizing p with
  | nil => simpa [joinWith] using splitOn_no_sep sep p (h p (by simp))
  | cons q qs ih =>
    simp only [joinWith]
    rw [splitOn_append_sep sep p _ (h p (by simp))]
    rw [ih q (fun r hr => h r (List.mem_cons_of_mem _ hr))]

/-! ### cut at the first occurrence of a byte (bytes.IndexByte + slicing) -/

def cut (sep : Nat) : Bytes → Option (Bytes × Bytes)
  | [] => none
  | c :: cs => if c = sep then some ([], cs) else
      match cut sep cs with
      | none => none
      | some (a, b) => some (c :: a, b)

theorem cut_append (sep : Nat) (a b : Bytes) (h : sep ∉ a) : cut sep (a ++ sep :: b) = some (a, b) := by
  induction a with
  | nil => simp [cut]
  | cons c cs ih =>
    simp only [List.mem_cons, not_or] at h
    have hc : ¬ c = sep := fun e => h.1 e.symm
    simp [cut, hc, ih h.2]

/-! ### decimal -/

def isDigit (c : Nat) : Bool := 48 ≤ c && c ≤ 57

/-- strconv.AppendInt for a non-negative value. -/
def showNat (n : Nat) : Bytes :=
  if n < 10 then [48 + n] else showNat (n / 10) ++ [48 + n % 10]
termination_by n
decreasing_by omega

def parseDigits (acc : Nat) : Bytes → Option Nat
  | [] => some acc
  | c :: cs => if isDigit c then parseDigits (acc * 10 + (c - 48)) cs else none

/-- The digit loop of strconv.ParseUint in base 10 (no underscores, no prefix). -/
def parseNat (s : Bytes) : Option Nat := if s.isEmpty then none else parseDigits 0 s

theorem parseDigits_append (acc : Nat) (xs : Bytes) (d : Nat) (hd : d < 10) :
    parseDigits acc (xs ++ [48 + d]) = (parseDigits acc xs).map (fun a => a * 10 + d) := by
  induction xs generalizing acc with
  | nil =>
    have : isDigit (48 + d) = true := by simp [isDigit]; omega
    simp [parseDigits, this]
  | cons c cs ih =>
    simp only [List.cons_append, parseDigits]
    split
    · exact ih _
    · rfl

theorem showNat_ne_nil (n : Nat) : showNat n ≠ [] := by
  unfold showNat; split <;> simp

theorem parseDigits_showNat (n : Nat) : parseDigits 0 (showNat n) = some n := by
  induction n using Nat.strongRecOn with
  | _ n ih =>
    unfold showNat
    split
    · rename_i h
      have : isDigit (48 + n) = true := by simp [isDigit]; omega
      simp [parseDigits, this]
    · rename_i h
      rw [parseDigits_append _ _ _ (Nat.mod_lt _ (by omega)), ih (n / 10) (by omega)]
      simp only [Option.map_some, Option.some.injEq]
      omega

theorem parseNat_showNat (n : Nat) : parseNat (showNat n) = some n := by
  have := showNat_ne_nil n
  simp only [parseNat]
  have hp := parseDigits_showNat n
  cases h : showNat n with
  | nil => exact absurd h this
  | cons c cs => rw [h] at hp; simpa using hp

theorem showNat_digits (n : Nat) : ∀ c ∈ showNat n, isDigit c = true := by
  induction n using Nat.strongRecOn with
  | _ n ih =>
    unfold showNat
    split
    · intro c hc; simp at hc; subst hc; simp [isDigit]; omega
    · intro c hc
      rcases List.mem_append.1 hc with hc | hc
      · exact ih (n / 10) (by omega) c hc
      · simp at hc; subst hc; simp [isDigit]; omega

/-- strconv.AppendInt(_, n, 10) -/
def showInt (n : Int) : Bytes :=
  if n < 0 then 45 :: showNat n.natAbs else showNat n.natAbs

/-- strconv.ParseInt(s, 10, 32): optional sign, decimal digits, int32 range. -/
def parseInt32 (s : Bytes) : Option Int :=
  match s with
  | 45 :: r =>
    match parseNat r with
    | none => none
    | some m => if m ≤ 2147483648 then some (-(m : Int)) else none
  | 43 :: r =>
    match parseNat r with
    | none => none
    | some m => if m < 2147483648 then some (m : Int) else none
  | _ =>
    match parseNat s with
    | none => none
    | some m => if m < 2147483648 then some (m : Int) else none

def inInt32 (n : Int) : Prop := -2147483648 ≤ n ∧ n < 2147483648

instance (n : Int) : Decidable (inInt32 n) := by unfold inInt32; infer_instance

theorem showNat_head (n : Nat) : ∃ c cs, showNat n = c :: cs ∧ isDigit c = true := by
  cases h : showNat n with
  | nil => exact absurd h (showNat_ne_nil n)
  | cons c cs => exact ⟨c, cs, rfl, showNat_digits n c (by simp [h])⟩

theorem parseInt32_showInt (n : Int) (h : inInt32 n) : parseInt32 (showInt n) = some n := by
  unfold showInt
  split
  · rename_i hn
    simp only [parseInt32, parseNat_showNat]
    have : n.natAbs ≤ 2147483648 := by unfold inInt32 at h; omega
    simp only [this, if_true, Option.some.injEq]
    omega
  · rename_i hn
    obtain ⟨c, cs, hc, hd⟩ := showNat_head n.natAbs
    have h45 : c ≠ 45 := by intro e; subst e; simp [isDigit] at hd
    have h43 : c ≠ 43 := by intro e; subst e; simp [isDigit] at hd
    have hp := parseNat_showNat n.natAbs
    rw [hc] at hp ⊢
    have hlt : n.natAbs < 2147483648 := by unfold inInt32 at h; omega
    unfold parseInt32
    split
    · rename_i r heq; cases heq; exact absurd rfl h45
    · rename_i r heq; cases heq; exact absurd rfl h43
    · simp only [hp, hlt, if_true, Option.some.injEq]; omega

theorem showInt_no (sep : Nat) (hs : isDigit sep = false) (h45 : sep ≠ 45) (n : Int) : sep ∉ showInt n := by
  unfold showInt
  have hd : sep ∉ showNat n.natAbs := fun hm => by
    have := showNat_digits _ _ hm; rw [hs] at this; cases this
  split
  · simp only [List.mem_cons, not_or]; exact ⟨h45, hd⟩
  · exact hd

/-! ### hex (encoding/hex) -/

def hexDigit (n : Nat) : Nat := if n < 10 then 48 + n else 87 + n

def unhexDigit (c : Nat) : Option Nat :=
  if 48 ≤ c ∧ c ≤ 57 then some (c - 48)
  else if 97 ≤ c ∧ c ≤ 102 then some (c - 87)
  else if 65 ≤ c ∧ c ≤ 70 then some (c - 55)
  else none

def hexEncode : Bytes → Bytes
  | [] => []
  | b :: bs => hexDigit (b / 16) :: hexDigit (b % 16) :: hexEncode bs

/-- hex.Decode: pairs of hex digits; an odd trailing byte or a non-hex byte is an error. -/
def hexDecode : Bytes → Option Bytes
  | [] => some []
  | [_] => none
  | a :: b :: rest =>
    match unhexDigit a, unhexDigit b, hexDecode rest with
    | some x, some y, some r => some ((x * 16 + y) :: r)
    | _, _, _ => none

theorem unhex_hexDigit (n : Nat) (h : n < 16) : unhexDigit (hexDigit n) = some n := by
  unfold hexDigit unhexDigit
  split
  · have : 48 ≤ 48 + n ∧ 48 + n ≤ 57 := by omega
    simp [this]
  · have h1 : ¬ (48 ≤ 87 + n ∧ 87 + n ≤ 57) := by omega
    have h2 : 97 ≤ 87 + n ∧ 87 + n ≤ 102 := by omega
    simp [h1, h2]

theorem hexDecode_hexEncode (bs : Bytes) (h : ∀ b ∈ bs, b < 256) : hexDecode (hexEncode bs) = some bs := by
  induction bs with
  | nil => rfl
  | cons b bs ih =>
    have hb := h b (by simp)
    simp only [hexEncode, hexDecode]
    rw [unhex_hexDigit _ (by omega), unhex_hexDigit _ (Nat.mod_lt _ (by omega)),
        ih (fun x hx => h x (List.mem_cons_of_mem _ hx))]
    simp only [Option.some.injEq, List.cons.injEq, and_true]
    omega

theorem hexEncode_length (bs : Bytes) : (hexEncode bs).length = 2 * bs.length := by
  induction bs with
  | nil => rfl
  | cons b bs ih => simp only [hexEncode, List.length_cons, ih]; omega

theorem hexDecode_length : ∀ (n : Nat) (s bs : Bytes), s.length ≤ n → hexDecode s = some bs → s.length = 2 * bs.length := by
  intro n
  induction n with
  | zero =>
    intro s bs hl h
    have : s = [] := by cases s <;> simp_all
    subst this; simp [hexDecode] at h; subst h; rfl
  | succ n ih =>
    intro s bs hl h
    match s, h with
    | [], h => simp [hexDecode] at h; subst h; rfl
    | [_], h => simp [hexDecode] at h
    | a :: b :: rest, h =>
      simp only [hexDecode] at h
      split at h
      · rename_i x y r hx hy hr
        cases h
        have := ih rest r (by simp only [List.length_cons] at hl; omega) hr
        simp only [List.length_cons]; omega
      · cases h

theorem hexDigit_not_colon (n : Nat) : hexDigit n ≠ 58 := by unfold hexDigit; split <;> omega

theorem hexEncode_no_colon (bs : Bytes) : 58 ∉ hexEncode bs := by
  induction bs with
  | nil => simp [hexEncode]
  | cons b bs ih =>
    simp only [hexEncode, List.mem_cons, not_or]
    exact ⟨fun e => hexDigit_not_colon _ e.symm, fun e => hexDigit_not_colon _ e.symm, ih⟩

end ClairModel.Bytes
