/-
  Canonical form of a finite set of natural numbers given as a list:
  strictly increasing list with the same members.  Core Lean only.

  Used where an SQL query without ORDER BY (or a Go map iteration) hands a
  *set* to code that must not depend on its order: the model returns the
  canonical list, and `canon_congr` says the result depends on membership
  only.
-/
namespace ClairModel.SortDedup

/-- Insert into a strictly increasing list, dropping duplicates. -/
def ins (x : Nat) : List Nat → List Nat
  | [] => [x]
  | y :: ys => if x < y then x :: y :: ys else if x = y then y :: ys else y :: ins x ys

/-- Sort and remove duplicates. -/
def canon : List Nat → List Nat
  | [] => []
  | x :: xs => ins x (canon xs)

theorem mem_ins {x a : Nat} {l : List Nat} : a ∈ ins x l ↔ a = x ∨ a ∈ l := by
  induction l with
  | nil => simp [ins]
  | cons y ys ih =>
    simp only [ins]
    split
    · simp
    · split
      · rename_i h; subst h; simp
      · simp only [List.mem_cons, ih]
        constructor
        · rintro (h | h | h) <;> simp [h]
        · rintro (h | h | h) <;> simp [h]

@[simp] theorem mem_canon {a : Nat} {l : List Nat} : a ∈ canon l ↔ a ∈ l := by
  induction l with
  | nil => simp [canon]
  | cons x xs ih => simp [canon, mem_ins, ih]

/-- Strictly increasing. -/
def Sorted (l : List Nat) : Prop := l.Pairwise (· < ·)

theorem sorted_ins {x : Nat} {l : List Nat} (h : Sorted l) : Sorted (ins x l) := by
  induction l with
  | nil => simp [ins, Sorted]
  | cons y ys ih =>
    simp only [Sorted, List.pairwise_cons] at h
    simp only [ins]
    split
    · rename_i hxy
      simp only [Sorted, List.pairwise_cons, List.mem_cons]
      refine ⟨?_, h⟩
      rintro a (rfl | ha)
      · exact hxy
      · exact Nat.lt_trans hxy (h.1 a ha)
    · split
      · simpa [Sorted] using h
      · rename_i h1 h2
        simp only [Sorted, List.pairwise_cons]
        refine ⟨?_, ih h.2⟩
        intro a ha
        rcases mem_ins.1 ha with rfl | ha
        · omega
        · exact h.1 a ha

theorem sorted_canon (l : List Nat) : Sorted (canon l) := by
  induction l with
  | nil => simp [canon, Sorted]
  | cons x xs ih => exact sorted_ins ih

/-- Two strictly increasing lists with the same members are equal. -/
theorem eq_of_sorted : ∀ {a b : List Nat}, Sorted a → Sorted b → (∀ x, x ∈ a ↔ x ∈ b) → a = b
  | [], [], _, _, _ => rfl
  | [], y :: ys, _, _, h => by have := (h y).2 (by simp); simp at this
  | x :: xs, [], _, _, h => by have := (h x).1 (by simp); simp at this
  | x :: xs, y :: ys, ha, hb, h => by
    simp only [Sorted, List.pairwise_cons] at ha hb
    have hx := (h x).1 (by simp)
    have hy := (h y).2 (by simp)
    have hxy : x = y := by
      simp only [List.mem_cons] at hx hy
      rcases hx with hx | hx
      · exact hx
      · rcases hy with hy | hy
        · exact hy.symm
        · have := hb.1 x hx; have := ha.1 y hy; omega
    subst hxy
    congr 1
    apply eq_of_sorted ha.2 hb.2
    intro z
    constructor
    · intro hz
      have := (h z).1 (by simp [hz])
      simp only [List.mem_cons] at this
      rcases this with rfl | h'
      · have := ha.1 z hz; omega
      · exact h'
    · intro hz
      have := (h z).2 (by simp [hz])
      simp only [List.mem_cons] at this
      rcases this with rfl | h'
      · have := hb.1 z hz; omega
      · exact h'

/-- The canonical form depends on membership only. -/
theorem canon_congr {a b : List Nat} (h : ∀ x, x ∈ a ↔ x ∈ b) : canon a = canon b :=
  eq_of_sorted (sorted_canon a) (sorted_canon b) (by intro x; simp [h x])

theorem canon_of_sorted {l : List Nat} (h : Sorted l) : canon l = l :=
  eq_of_sorted (sorted_canon l) h (by intro x; simp)

@[simp] theorem canon_canon (l : List Nat) : canon (canon l) = canon l :=
  canon_of_sorted (sorted_canon l)

end ClairModel.SortDedup
