import ClairModel.Lib.Sm
import ClairModel.Model.Locks
import ClairModel.Proofs.Locks
