use strict; use warnings; use DB_File; use Fcntl;
# usage: mk.pl out bsize n mode
my ($out,$bsize,$n,$mode)=@ARGV;
sub hdr {
  my ($name,$ver,$rel,$pad)=@_;
  my @e=( [1000,6,$name."\0",1],[1001,6,$ver."\0",1],[1002,6,$rel."\0",1],
          [1005,9,("d" x $pad)."\0",1],[1022,6,"noarch\0",1],[1044,6,"$name-$ver-$rel.src.rpm\0",1]);
  my ($idx,$data)=("","");
  for my $e (@e){ $idx.=pack("N4",$e->[0],$e->[1],length($data),$e->[3]); $data.=$e->[2]; }
  return pack("N2",scalar(@e),length($data)).$idx.$data;
}
unlink $out;
my $h=new DB_File::HASHINFO; $h->{bsize}=$bsize; $h->{lorder}=4321 if $mode =~ /be/;
my %db; my $t=tie(%db,'DB_File',$out,O_RDWR|O_CREAT,0644,$h) or die "tie: $!";
$db{pack("V",0)}=pack("V",$n+1);
my @exp;
for my $i (1..$n){
  my $pad = ($i%5==0)? 10 : ($i%7==0 ? 3*$bsize+17 : int($bsize/4)+ ($i*37)%($bsize));
  $db{pack("V",$i)}=hdr("p$i","1.$i","1",$pad);
}
if($mode eq 'hist'){ for my $i (1..$n){ if($i%3==0){ delete $db{pack("V",$i)}; } }
  for my $i ($n+1..$n+int($n/4)){ my $pad=int($bsize/2)+$i; $db{pack("V",$i)}=hdr("p$i","1.$i","1",$pad);} }
for my $k (keys %db){ my $i=unpack("V",$k); next if $i==0; my $len=length($db{$k}); push @exp,"p$i $len"; }
undef $t; untie %db;
open(my $f,">","$out.expect"); print $f join("\n",sort @exp),"\n"; close $f;
